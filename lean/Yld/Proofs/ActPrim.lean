/-
  The primitive layer of the simulation: allocation, the fact store, `findall`'s collector, the
  top-level consumer.
-/
import Yld.Proofs.ActObs
import Yld.Proofs.Store
set_option linter.unusedSimpArgs false
set_option linter.unusedVariables false
namespace Yld

/-- a block of new cells on each side -/
theorem WRel.alloc {S : Cpl} {ds : List (Nat × Nat)} {w1 w2 : World} (hw : WRel S ds w1 w2) (n : Nat) :
    WRel (blockCpl S w1.next w2.next n) ds { w1 with next := w1.next + n } { w2 with next := w2.next + n } :=
  ⟨hw.core.block (Nat.le_refl _) (Nat.le_refl _) n, hw.solv1, hw.solv2, hw.cyc1, hw.cyc2, hw.db, hw.closed, hw.stamp,
    hw.acc.mono (Nat.le_add_right _ _) (Nat.le_add_right _ _)⟩

theorem fact_args_trel (S : Cpl) (m1 m2 : Nat) (c : Fact) (hc : FactClosed c) :
    Forall₂ (TRel (blockCpl S m1 m2 c.nvars)) (c.args.map (Term.rename (· + m1))) (c.args.map (Term.rename (· + m2))) := by
  unfold FactClosed at hc
  generalize c.args = l at hc
  induction l with
  | nil => exact .nil
  | cons a as ih =>
    exact .cons (TRel.block S m1 m2 c.nvars a (hc a (by simp))) (ih (fun t ht => hc t (by simp [ht])))

theorem matchFact_sim {P : Sig → Prop} (hP : OofLike P) {S : Cpl} {ds : List (Nat × Nat)} {w1 w2 : World}
    (f1 f2 : Nat) {c : Fact} {args1 args2 : List Term} {K1 K2 : K} (hw : WRel S ds w1 w2) (hc : FactClosed c)
    (ha : Forall₂ (TRel S) args1 args2) (hK : KSim P S ds K1 K2) (c1 : CycMono K1) (c2 : CycMono K2) :
    RSim P ds w1 w2 (matchFact f1 c args1 K1 w1) (matchFact f2 c args2 K2 w2) := by
  unfold matchFact
  simp only
  have hw' := hw.alloc c.nvars
  have hsub := blockCpl_sub S w1.next w2.next c.nvars
  rw [← ha.length_eq]
  split
  · refine RSim.rebase (w1' := { w1 with next := w1.next + c.nvars }) (w2' := { w2 with next := w2.next + c.nvars })
      ?_ rfl rfl (Nat.le_add_right _ _) (Nat.le_add_right _ _)
    exact sim_eqs hP hw' (unifyList_ushape _ (unify_ushape f1) _ _ _) (unifyList_ushape _ (unify_ushape f2) _ _ _)
      (TRelL.sub hsub ha) (fact_args_trel S _ _ c hc) (hK.sub hsub) c1 c2
  · exact RSim.rebase (RSim.same hw' none) rfl rfl (Nat.le_add_right _ _) (Nat.le_add_right _ _)

theorem matchAll_sim {P : Sig → Prop} (hP : OofLike P) {S : Cpl} {ds : List (Nat × Nat)}
    (f1 f2 : Nat) {args1 args2 : List Term} {K1 K2 : K}
    (ha : Forall₂ (TRel S) args1 args2) (hK : KSim P S ds K1 K2) (c1 : CycMono K1) (c2 : CycMono K2) :
    ∀ (cs : List Fact), (∀ c ∈ cs, FactClosed c) → ∀ {w1 w2 : World}, WRel S ds w1 w2 →
      RSim P ds w1 w2 (matchAll f1 args1 cs K1 w1) (matchAll f2 args2 cs K2 w2) := by
  intro cs
  induction cs with
  | nil => intro _ w1 w2 hw; simp only [matchAll]; exact RSim.same hw none
  | cons c cs ih =>
    intro hcl w1 w2 hw
    simp only [matchAll]
    exact sim_andThen hw (matchFact_sim hP f1 f2 hw (hcl c (by simp)) ha hK c1 c2)
      (fun w1' w2' hw' => ih (fun c hc => hcl c (by simp [hc])) hw')
      (matchAll_cycGen f1 args1 cs K1 c1) (matchAll_cycGen f2 args2 cs K2 c2)

theorem lookup_mem {α β : Type} [BEq α] : ∀ (l : List (α × β)) (k : α) (v : β), l.lookup k = some v → ∃ kv ∈ l, kv.2 = v := by
  intro l
  induction l with
  | nil => intro k v h; simp at h
  | cons kv l ih =>
    intro k v h
    obtain ⟨k', v'⟩ := kv
    simp only [List.lookup_cons] at h
    cases hk : (k == k') with
    | false => rw [hk] at h; obtain ⟨kv, hm, e⟩ := ih k v h; exact ⟨kv, List.mem_cons_of_mem _ hm, e⟩
    | true => rw [hk] at h; simp at h; exact ⟨(k', v'), List.mem_cons_self, h⟩

theorem facts_closed {w : World} (h : DbClosed w.db) (name : String) (n : Nat) : ∀ c ∈ w.facts name n, FactClosed c := by
  intro c hc
  unfold World.facts at hc
  cases hl : w.db.lookup (name, n) with
  | none => rw [hl] at hc; simp at hc
  | some fs =>
    rw [hl] at hc
    obtain ⟨kv, hm, e⟩ := lookup_mem _ _ _ hl
    exact h kv hm c (by rw [e]; simpa using hc)

theorem facts_eq {w1 w2 : World} (h : w1.db = w2.db) (name : String) (n : Nat) : w1.facts name n = w2.facts name n := by
  unfold World.facts; rw [h]

theorem matchDynamic_sim {P : Sig → Prop} (hP : OofLike P) {S : Cpl} {ds : List (Nat × Nat)} {w1 w2 : World}
    (f1 f2 : Nat) (name : String) {args1 args2 : List Term} {K1 K2 : K} (hw : WRel S ds w1 w2)
    (ha : Forall₂ (TRel S) args1 args2) (hK : KSim P S ds K1 K2) (c1 : CycMono K1) (c2 : CycMono K2) :
    RSim P ds w1 w2 (matchDynamic f1 name args1 K1 w1) (matchDynamic f2 name args2 K2 w2) := by
  unfold matchDynamic
  rw [← ha.length_eq, ← facts_eq hw.db]
  exact matchAll_sim hP f1 f2 ha hK c1 c2 _ (facts_closed hw.closed _ _) hw

/-! ### updates of the fact store -/

theorem setFacts_next (w : World) (n : String) (a : Nat) (fs : List Fact) : (w.setFacts n a fs).next = w.next := by
  unfold World.setFacts; simp only; split <;> rfl
theorem setFacts_stamp (w : World) (n : String) (a : Nat) (fs : List Fact) : (w.setFacts n a fs).stamp = w.stamp := by
  unfold World.setFacts; simp only; split <;> rfl
theorem setFacts_acc (w : World) (n : String) (a : Nat) (fs : List Fact) : (w.setFacts n a fs).acc = w.acc := by
  unfold World.setFacts; simp only; split <;> rfl

theorem dbClosed_upd {db : List ((String × Nat) × List Fact)} (h : DbClosed db) (key : String × Nat) {fs : List Fact}
    (hfs : ∀ c ∈ fs, FactClosed c) : DbClosed (Assoc.upd db key fs) := by
  unfold Assoc.upd
  split
  · intro kv hkv c hc
    obtain ⟨kv0, hm, e⟩ := List.mem_map.mp hkv
    obtain ⟨k0, v0⟩ := kv0
    simp only at e
    by_cases hk : (k0 == key) = true
    · rw [if_pos hk] at e; subst e; exact hfs c hc
    · rw [if_neg hk] at e; subst e; exact h _ hm c hc
  · intro kv hkv c hc
    rcases List.mem_append.mp hkv with hm | hm
    · exact h kv hm c hc
    · simp at hm; subst hm; exact hfs c hc

theorem WRel.setFacts {S : Cpl} {ds : List (Nat × Nat)} {w1 w2 : World} (hw : WRel S ds w1 w2) (n : String) (a : Nat)
    {fs : List Fact} (hfs : ∀ c ∈ fs, FactClosed c) : WRel S ds (w1.setFacts n a fs) (w2.setFacts n a fs) := by
  refine ⟨?_, ?_, ?_, ?_, ?_, ?_, ?_, ?_, ?_⟩
  · rw [setFacts_b, setFacts_b, setFacts_next, setFacts_next]; exact hw.core
  · rw [setFacts_b]; exact hw.solv1
  · rw [setFacts_b]; exact hw.solv2
  · rw [setFacts_cyc]; exact hw.cyc1
  · rw [setFacts_cyc]; exact hw.cyc2
  · rw [setFacts_db, setFacts_db, hw.db]
  · rw [setFacts_db]; exact dbClosed_upd hw.closed _ hfs
  · rw [setFacts_stamp, setFacts_stamp]; exact hw.stamp
  · rw [setFacts_acc, setFacts_acc, setFacts_next, setFacts_next]; exact hw.acc

/-- the consumer of `retract`: remove the fact, then go on -/
theorem ksim_setFacts {P : Sig → Prop} {S : Cpl} {ds : List (Nat × Nat)} {K1 K2 : K} (hK : KSim P S ds K1 K2)
    (name : String) (n : Nat) (p : Fact → Bool) :
    KSim P S ds (fun w' => K1 (w'.setFacts name n ((w'.facts name n).filter p)))
      (fun w' => K2 (w'.setFacts name n ((w'.facts name n).filter p))) := by
  intro S' hs w1 w2 hw
  simp only
  rw [← facts_eq hw.db]
  have hfs : ∀ c ∈ (w1.facts name n).filter p, FactClosed c :=
    fun c hc => facts_closed hw.closed name n c (List.mem_filter.mp hc).1
  refine RSim.rebase (hK S' hs _ _ (hw.setFacts name n hfs)) (setFacts_b _ _ _ _) (setFacts_b _ _ _ _) ?_ ?_
  · rw [setFacts_next]; exact Nat.le_refl _
  · rw [setFacts_next]; exact Nat.le_refl _

theorem cycMono_setFacts {k : K} (hk : CycMono k) (name : String) (n : Nat) (p : Fact → Bool) :
    CycMono (fun w' => k (w'.setFacts name n ((w'.facts name n).filter p))) := by
  intro w hw
  exact hk _ (by rw [setFacts_cyc]; exact hw)

theorem retractLoop_sim {P : Sig → Prop} (hP : OofLike P) {S : Cpl} {ds : List (Nat × Nat)}
    (f1 f2 : Nat) (name : String) {args1 args2 : List Term} {K1 K2 : K}
    (ha : Forall₂ (TRel S) args1 args2) (hK : KSim P S ds K1 K2) (c1 : CycMono K1) (c2 : CycMono K2) :
    ∀ (cs : List Fact), (∀ c ∈ cs, FactClosed c) → ∀ {w1 w2 : World}, WRel S ds w1 w2 →
      RSim P ds w1 w2 (retractLoop f1 name args1 cs K1 w1) (retractLoop f2 name args2 cs K2 w2) := by
  intro cs
  induction cs with
  | nil => intro _ w1 w2 hw; simp only [retractLoop]; exact RSim.same hw none
  | cons c cs ih =>
    intro hcl w1 w2 hw
    simp only [retractLoop]
    rw [← ha.length_eq, ← facts_eq hw.db]
    have hcl' : ∀ c ∈ cs, FactClosed c := fun c hc => hcl c (by simp [hc])
    by_cases hc : ((w1.facts name args1.length).any fun x => x.id == c.id) = true
    · rw [if_pos hc, if_pos hc]
      exact sim_andThen hw
        (matchFact_sim hP f1 f2 hw (hcl c (by simp)) ha (ksim_setFacts hK name _ _)
          (cycMono_setFacts c1 name _ _) (cycMono_setFacts c2 name _ _))
        (fun w1' w2' hw' => ih hcl' hw')
        (retractLoop_cycGen f1 name args1 cs K1 c1)
        (retractLoop_cycGen f2 name args2 cs K2 c2)
    · rw [if_neg hc, if_neg hc]
      exact ih hcl' hw

theorem runPy_sim {P : Sig → Prop} (hP : OofLike P) {S : Cpl} {ds : List (Nat × Nat)}
    (f1 f2 : Nat) (r : Option Nat) {args1 args2 : List Term} {K1 K2 : K}
    (ha : Forall₂ (TRel S) args1 args2) (hK : KSim P S ds K1 K2) (c1 : CycMono K1) (c2 : CycMono K2) :
    ∀ (rows : List Fact), (∀ c ∈ rows, FactClosed c) → ∀ (i : Nat) {w1 w2 : World}, WRel S ds w1 w2 →
      RSim P ds w1 w2 (runPy f1 rows r i args1 K1 w1) (runPy f2 rows r i args2 K2 w2) := by
  intro rows
  induction rows with
  | nil =>
    intro _ i w1 w2 hw
    simp only [runPy]
    split
    · exact RSim.same hw _
    · exact RSim.same hw none
  | cons row rows ih =>
    intro hcl i w1 w2 hw
    simp only [runPy]
    split
    · exact RSim.same hw _
    · exact sim_andThen hw (matchFact_sim hP f1 f2 hw (hcl row (by simp)) ha hK c1 c2)
        (fun w1' w2' hw' => ih (fun c hc => hcl c (by simp [hc])) (i+1) hw')
        (runPy_cycGen f1 r args1 rows (i+1) K1 c1) (runPy_cycGen f2 r args2 rows (i+1) K2 c2)

/-! ### assert -/

theorem assertFact_sim {P : Sig → Prop} (hP : OofLike P) {S : Cpl} {ds : List (Nat × Nat)} {w1 w2 : World}
    (f1 f2 : Nat) (name : String) {vals1 vals2 : List Term} (app : Bool) (hw : WRel S ds w1 w2)
    (hv : Forall₂ (TRel S) vals1 vals2) :
    RSim P ds w1 w2 (assertFact f1 name vals1 app w1) (assertFact f2 name vals2 app w2) := by
  cases h1 : vals1.mapM (resolve w1.b f1) with
  | none => unfold assertFact; rw [h1]; exact RSim.esc1 w1 hP.oof _
  | some vs1 =>
    cases h2 : vals2.mapM (resolve w2.b f2) with
    | none =>
      have : assertFact f2 name vals2 app w2 = (w2, some .oof) := by unfold assertFact; rw [h2]
      rw [this]; exact RSim.esc2 _ w2 hP.oof
    | some vs2 =>
      have hcv := resolve_variants hw hv h1 h2
      unfold assertFact
      rw [h1, h2]
      simp only
      rw [← hcv, ← hv.length_eq, ← facts_eq hw.db, ← hw.stamp]
      have hnew : ∀ c ∈ (if app = true then w1.facts name vals1.length ++ [{ id := w1.stamp, nvars := (canonVars vs1).2, args := (canonVars vs1).1 }]
          else { id := w1.stamp, nvars := (canonVars vs1).2, args := (canonVars vs1).1 } :: w1.facts name vals1.length), FactClosed c := by
        intro c hc
        have hnewfact : FactClosed { id := w1.stamp, nvars := (canonVars vs1).2, args := (canonVars vs1).1 } :=
          fun t ht x hx => canonVars_closed vs1 t ht x hx
        split at hc
        · rcases List.mem_append.mp hc with hm | hm
          · exact facts_closed hw.closed _ _ c hm
          · simp at hm; subst hm; exact hnewfact
        · rcases List.mem_cons.mp hc with hm | hm
          · subst hm; exact hnewfact
          · exact facts_closed hw.closed _ _ c hm
      have hw' := hw.setFacts name vals1.length hnew
      refine Or.inr ⟨rfl, ?_, ?_, ?_, ?_, ?_, ?_, ?_, ?_, ?_, ?_⟩
      · exact setFacts_b _ _ _ _
      · exact setFacts_b _ _ _ _
      · show w1.next ≤ (w1.setFacts _ _ _).next; rw [setFacts_next]; exact Nat.le_refl _
      · show w2.next ≤ (w2.setFacts _ _ _).next; rw [setFacts_next]; exact Nat.le_refl _
      · exact hw'.cyc1
      · exact hw'.cyc2
      · exact hw'.db
      · exact hw'.closed
      · rfl
      · exact hw'.acc

/-- the outcomes of `_fact_name_and_args` on corresponding terms -/
inductive FNARel (S : Cpl) : Except Sig (String × List Term) → Except Sig (String × List Term) → Prop
  | oof1 (r) : FNARel S (.error .oof) r
  | oof2 (r) : FNARel S r (.error .oof)
  | err (s : Sig) : FNARel S (.error s) (.error s)
  | ok (name : String) (as1 as2 : List Term) : Forall₂ (TRel S) as1 as2 → FNARel S (.ok (name, as1)) (.ok (name, as2))

theorem factNameArgs_sim {S : Cpl} {ds : List (Nat × Nat)} {w1 w2 : World} (f1 f2 : Nat) {t1 t2 : Term}
    (hw : WRel S ds w1 w2) (ht : TRel S t1 t2) : FNARel S (factNameArgs f1 w1 t1) (factNameArgs f2 w2 t2) := by
  unfold factNameArgs
  cases h1 : walk w1.b f1 t1 with
  | none => exact .oof1 _
  | some a1 =>
    cases h2 : walk w2.b f2 t2 with
    | none => exact .oof2 _
    | some a2 =>
      cases walk_heads hw ht h1 h2 with
      | var x y => exact .err _
      | atom s => exact .ok s [] [] .nil
      | int i => exact .err _
      | fn g as1 as2 h => exact .ok g as1 as2 h

/-! ### retractall -/

def EscE {α : Type} (P : Sig → Prop) (x : World × Except Sig α) : Prop := ∃ s, x.2 = .error s ∧ P s

/-- outcomes of the loops that return a value instead of yielding -/
def RSimE {α : Type} (P : Sig → Prop) (ds : List (Nat × Nat)) (w1 w2 : World) (x1 x2 : World × Except Sig α) : Prop :=
  (EscE P x1 ∨ EscE P x2 ∨ x1.1.cyc = true ∨ x2.1.cyc = true) ∨
    (x1.2 = x2.2 ∧ Proper ds w1 w2 (x1.1, none) (x2.1, none))

theorem factMatches_sim {P : Sig → Prop} (hP : OofLike P) {S : Cpl} {ds : List (Nat × Nat)} {w1 w2 : World}
    (f1 f2 : Nat) {c : Fact} {args1 args2 : List Term} (hw : WRel S ds w1 w2) (hc : FactClosed c)
    (ha : Forall₂ (TRel S) args1 args2) :
    RSimE P ds w1 w2 (factMatches f1 c args1 w1) (factMatches f2 c args2 w2) := by
  have hK : KSim P S ds (fun w' => (w', some Sig.stop)) (fun w' => (w', some Sig.stop)) :=
    fun S' _ v1 v2 hv => RSim.same hv _
  have hcm : CycMono (fun w' => (w', some Sig.stop)) := fun w h => h
  have h := matchFact_sim hP f1 f2 hw hc ha hK hcm hcm
  unfold factMatches
  generalize matchFact f1 c args1 (fun w' => (w', some Sig.stop)) w1 = r1 at h
  generalize matchFact f2 c args2 (fun w' => (w', some Sig.stop)) w2 = r2 at h
  obtain ⟨v1, o1⟩ := r1
  obtain ⟨v2, o2⟩ := r2
  rcases h with (h | h | h | h) | h
  · obtain ⟨s, e, hs⟩ := h
    simp only at e; subst e
    refine Or.inl (Or.inl ⟨s, ?_, hs⟩)
    cases s <;> first | rfl | exact absurd hs hP.stop
  · obtain ⟨s, e, hs⟩ := h
    simp only at e; subst e
    refine Or.inl (Or.inr (Or.inl ⟨s, ?_, hs⟩))
    cases s <;> first | rfl | exact absurd hs hP.stop
  · refine Or.inl (Or.inr (Or.inr (Or.inl ?_)))
    cases o1 with
    | none => exact h
    | some s => cases s <;> exact h
  · refine Or.inl (Or.inr (Or.inr (Or.inr ?_)))
    cases o2 with
    | none => exact h
    | some s => cases s <;> exact h
  · have e : o1 = o2 := h.sig
    subst e
    have hp : Proper ds w1 w2 (v1, none) (v2, none) :=
      ⟨rfl, h.b1, h.b2, h.next1, h.next2, h.cyc1, h.cyc2, h.db, h.closed, h.stamp, h.acc⟩
    cases o1 with
    | none => exact Or.inr ⟨rfl, hp⟩
    | some s => cases s <;> exact Or.inr ⟨rfl, hp⟩

theorem retractAllLoop_sim {P : Sig → Prop} (hP : OofLike P) {S : Cpl} {ds : List (Nat × Nat)}
    (f1 f2 : Nat) {args1 args2 : List Term} (ha : Forall₂ (TRel S) args1 args2) :
    ∀ (cs : List Fact), (∀ c ∈ cs, FactClosed c) → ∀ (keep : List Fact) {w1 w2 : World}, WRel S ds w1 w2 →
      RSimE P ds w1 w2 (retractAllLoop f1 args1 cs keep w1) (retractAllLoop f2 args2 cs keep w2) := by
  intro cs
  induction cs with
  | nil =>
    intro _ keep w1 w2 hw
    simp only [retractAllLoop]
    exact Or.inr ⟨rfl, Proper.refl_none hw none⟩
  | cons c cs ih =>
    intro hcl keep w1 w2 hw
    simp only [retractAllLoop]
    have h := factMatches_sim (P := P) hP f1 f2 hw (hcl c (by simp)) ha
    have hcy1 := factMatches_cyc f1 c args1 w1
    have hcy2 := factMatches_cyc f2 c args2 w2
    generalize factMatches f1 c args1 w1 = x1 at h hcy1
    generalize factMatches f2 c args2 w2 = x2 at h hcy2
    obtain ⟨v1, e1⟩ := x1
    obtain ⟨v2, e2⟩ := x2
    have hcl' : ∀ c ∈ cs, FactClosed c := fun c hc => hcl c (by simp [hc])
    rcases h with (h | h | h | h) | ⟨he, hp⟩
    · obtain ⟨s, e, hs⟩ := h
      simp only at e; subst e
      exact Or.inl (Or.inl ⟨s, rfl, hs⟩)
    · obtain ⟨s, e, hs⟩ := h
      simp only at e; subst e
      exact Or.inl (Or.inr (Or.inl ⟨s, rfl, hs⟩))
    · refine Or.inl (Or.inr (Or.inr (Or.inl ?_)))
      cases e1 with
      | error s => exact h
      | ok b => cases b <;> exact retractAllLoop_cyc f1 args1 cs _ v1 h
    · refine Or.inl (Or.inr (Or.inr (Or.inr ?_)))
      cases e2 with
      | error s => exact h
      | ok b => cases b <;> exact retractAllLoop_cyc f2 args2 cs _ v2 h
    · simp only at he; subst he
      have hw' : WRel S ds v1 v2 := hp.wrel hw
      have rebase : ∀ {x1 x2 : World × Except Sig (List Fact)}, RSimE P ds v1 v2 x1 x2 → RSimE P ds w1 w2 x1 x2 :=
        fun h => h.imp id (fun ⟨a, b⟩ => ⟨a, b.rebase hp.b1 hp.b2 hp.next1 hp.next2⟩)
      cases e1 with
      | error s => exact Or.inr ⟨rfl, hp⟩
      | ok b =>
        cases b
        · exact rebase (ih hcl' _ hw')
        · exact rebase (ih hcl' _ hw')

/-! ### the collecting consumers -/

theorem findallCollect_sim {P : Sig → Prop} (hP : OofLike P) {S : Cpl} {ds : List (Nat × Nat)} {lo1 lo2 : Nat}
    (f1 f2 : Nat) {t1 t2 : Term} (ht : TRel S t1 t2) :
    KSim P S ((lo1, lo2) :: ds) (findallCollect f1 t1) (findallCollect f2 t2) := by
  intro S' hs w1 w2 hw
  cases h1 : resolve w1.b f1 t1 with
  | none => unfold findallCollect; rw [h1]; exact RSim.esc1 w1 hP.oof _
  | some v1 =>
    cases h2 : resolve w2.b f2 t2 with
    | none =>
      have : findallCollect f2 t2 w2 = (w2, some .oof) := by unfold findallCollect; rw [h2]
      rw [this]; exact RSim.esc2 _ w2 hP.oof
    | some v2 =>
      have hcv : canonVars [v1] = canonVars [v2] :=
        resolve_variants hw (l1 := [t1]) (l2 := [t2]) (f1 := f1) (f2 := f2) (.cons (ht.sub hs) .nil)
          (forall₂_mapM_some _ _ (.cons h1 .nil)) (forall₂_mapM_some _ _ (.cons h2 .nil))
      obtain ⟨c, hc⟩ := List.length_eq_one_iff.mp (by simpa using canonVars_length [v1])
      have hclosed : ∀ x ∈ c.vars, x < (canonVars [v1]).2 :=
        fun x hx => canonVars_closed [v1] c (by rw [hc]; simp) x hx
      obtain ⟨fl1, fl2, base, e1, e2, hfl⟩ := hw.acc
      cases hfl with
      | @cons _ _ l1 l2 _ fl1' fl2' hfv hrest =>
        unfold findallCollect
        rw [h1, h2]
        simp only
        rw [← hcv, hc, e1, e2]
        simp only [List.cons_append, List.headD_cons]
        refine Or.inr ⟨rfl, rfl, rfl, Nat.le_add_right _ _, Nat.le_add_right _ _, hw.cyc1, hw.cyc2, hw.db, hw.closed,
          hw.stamp, ?_⟩
        exact ⟨_ :: fl1', _ :: fl2', base, rfl, rfl,
          .cons (hfv.snoc _ c hclosed) (hrest.mono (Nat.le_add_right _ _) (Nat.le_add_right _ _))⟩

theorem topConsumer_sim {P : Sig → Prop} (hP : OofLike P) {S : Cpl} (f1 f2 : Nat) {args1 args2 : List Term}
    (sched : Sched) (ha : Forall₂ (TRel S) args1 args2) :
    KSim P S [] (topConsumer f1 args1 sched) (topConsumer f2 args2 sched) := by
  intro S' hs w1 w2 hw
  cases h1 : args1.mapM (resolve w1.b f1) with
  | none => unfold topConsumer; rw [h1]; exact RSim.esc1 w1 hP.oof _
  | some vs1 =>
    cases h2 : args2.mapM (resolve w2.b f2) with
    | none =>
      have : topConsumer f2 args2 sched w2 = (w2, some .oof) := by unfold topConsumer; rw [h2]
      rw [this]; exact RSim.esc2 _ w2 hP.oof
    | some vs2 =>
      have hcv := resolve_variants hw (TRelL.sub hs ha) h1 h2
      obtain ⟨fl1, fl2, base, e1, e2, hfl⟩ := hw.acc
      cases hfl
      simp only [List.nil_append] at e1 e2
      have res : ∀ (A : List (List Term)) (o : Option Sig),
          RSim P [] w1 w2 ({ w1 with acc := A }, o) ({ w2 with acc := A }, o) := fun A o =>
        Or.inr ⟨rfl, rfl, rfl, Nat.le_refl _, Nat.le_refl _, hw.cyc1, hw.cyc2, hw.db, hw.closed, hw.stamp,
          ⟨[], [], A, rfl, rfl, .nil⟩⟩
      unfold topConsumer
      rw [h1, h2]
      simp only
      rw [← hcv, e1, e2]
      cases base with
      | nil =>
        cases sched with
        | all => exact res _ _
        | stop k => simp only; split <;> exact res _ _
        | raise k => simp only; split <;> exact res _ _
      | cons top rest =>
        cases sched with
        | all => exact res _ _
        | stop k => simp only; split <;> exact res _ _
        | raise k => simp only; split <;> exact res _ _

end Yld
