/-
  Theorem R (restoration), part 1: unification and the generator combinators.

  A consumer is *disciplined* when it hands the world back with the bindings it was given
  (every consumer built from restoring generators is). A generator is *restoring* when, run with
  a disciplined consumer, it hands the world back with the bindings it started from — whatever
  the consumer answered at the yields (resume, close, exception) and however the run ended.
-/
import Yld.Model.Api
namespace Yld

def Disciplined (k : K) : Prop := ∀ w, (k w).1.b = w.b
def Restoring (g : Gen) : Prop := ∀ k, Disciplined k → ∀ w, (g k w).1.b = w.b

theorem unbind_bind (b : Bind) (x : Nat) (t : Term) (h : b x = none) : unbind (bind b x t) x = b := by
  funext y
  unfold unbind bind
  by_cases hy : y = x
  · subst hy; simp [h]
  · simp [hy]

theorem walk_var_unbound (b : Bind) (f : Nat) (t : Term) (x : Nat) (h : walk b f t = some (.var x)) : b x = none := by
  induction f generalizing t with
  | zero => simp [walk] at h
  | succ f ih =>
    cases t with
    | var n =>
      simp only [walk] at h
      cases hb : b n with
      | none => simp [hb] at h; subst h; exact hb
      | some u => simp [hb] at h; exact ih u h
    | atom s => simp [walk] at h
    | int i => simp [walk] at h
    | fn g as => simp [walk] at h

theorem markCyc_b (f x : Nat) (t : Term) (w : World) : (markCyc f x t w).b = w.b := by
  unfold markCyc
  split
  · split <;> rfl
  · rfl

theorem bindGen_restores (x : Nat) (t : Term) (k : K) (hk : Disciplined k) (w : World) (h : w.b x = none) :
    (bindGen x t k w).1.b = w.b := by
  unfold bindGen
  simp only
  rw [hk]
  exact unbind_bind _ _ _ h

theorem unifyList_restores (u : Term → Term → Gen) (hu : ∀ a b, Restoring (u a b)) :
    ∀ as bs, Restoring (unifyList u as bs) := by
  intro as
  induction as with
  | nil =>
    intro bs k hk w
    cases bs with
    | nil => simpa [unifyList] using hk w
    | cons b bs => simp [unifyList]
  | cons a as ih =>
    intro bs k hk w
    cases bs with
    | nil => simp [unifyList]
    | cons b bs =>
      simp only [unifyList]
      exact hu a b _ (fun w' => ih bs k hk w') w

/-- unify leaves every binding as it found it — on resume, on close and on exceptions. -/
theorem unify_restoring (f : Nat) : ∀ t1 t2, Restoring (unify f t1 t2) := by
  induction f with
  | zero => intro t1 t2 k hk w; simp [unify]
  | succ f ih =>
    intro t1 t2 k hk w
    simp only [unify]
    cases h1 : walk w.b (f+1) t1 with
    | none => simp
    | some a1 =>
      cases h2 : walk w.b (f+1) t2 with
      | none => simp
      | some a2 =>
        simp only
        cases a1 with
        | var x =>
          have hx := walk_var_unbound _ _ _ _ h1
          cases a2 with
          | var y =>
            simp only
            split
            · exact hk w
            · exact bindGen_restores x _ k hk w hx
          | atom s => simp only; rw [bindGen_restores x _ k hk _ (by rw [markCyc_b]; exact hx), markCyc_b]
          | int i => simp only; rw [bindGen_restores x _ k hk _ (by rw [markCyc_b]; exact hx), markCyc_b]
          | fn g as => simp only; rw [bindGen_restores x _ k hk _ (by rw [markCyc_b]; exact hx), markCyc_b]
        | atom s =>
          cases a2 with
          | var y =>
            have hy := walk_var_unbound _ _ _ _ h2
            simp only; rw [bindGen_restores y _ k hk _ (by rw [markCyc_b]; exact hy), markCyc_b]
          | atom s' => simp only; split
                       · exact hk w
                       · rfl
          | int i => rfl
          | fn g as => rfl
        | int i =>
          cases a2 with
          | var y =>
            have hy := walk_var_unbound _ _ _ _ h2
            simp only; rw [bindGen_restores y _ k hk _ (by rw [markCyc_b]; exact hy), markCyc_b]
          | atom s' => rfl
          | int j => simp only; split
                     · exact hk w
                     · rfl
          | fn g as => rfl
        | fn g as =>
          cases a2 with
          | var y =>
            have hy := walk_var_unbound _ _ _ _ h2
            simp only; rw [bindGen_restores y _ k hk _ (by rw [markCyc_b]; exact hy), markCyc_b]
          | atom s' => rfl
          | int j => rfl
          | fn g' as' =>
            simp only
            split
            · exact unifyList_restores (unify f) ih as as' k hk w
            · rfl

theorem seq_restoring (g1 g2 : Gen) (h1 : Restoring g1) (h2 : Restoring g2) : Restoring (Gen.seq g1 g2) := by
  intro k hk w
  unfold Gen.seq
  have e1 := h1 k hk w
  cases h : g1 k w with
  | mk w' s =>
    rw [h] at e1
    cases s with
    | none => simp only; rw [h2 k hk w']; exact e1
    | some s => exact e1

theorem andThen_restoring (g1 g2 : Gen) (h1 : Restoring g1) (h2 : Restoring g2) : Restoring (Gen.andThen g1 g2) := by
  intro k hk w
  unfold Gen.andThen
  exact h1 _ (fun w' => h2 k hk w') w

theorem fail_restoring : Restoring Gen.fail := fun _ _ _ => rfl
theorem succeed_restoring : Restoring Gen.succeed := fun k hk w => hk w
theorem raise_restoring (s : Sig) : Restoring (Gen.raise s) := fun _ _ _ => rfl

end Yld
