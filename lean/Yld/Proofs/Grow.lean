/-
  The engine only allocates and keeps the store closed: every generator of the engine, run with a
  consumer that does not decrease the allocation counter `next` and keeps the fact store closed
  (`DbClosed`), does not decrease the counter and keeps the store closed itself — however the run
  ends (exhausted, abandoned, exception, out of fuel).

  Same unary pass over the engine as `Yld.Proofs.AccExt`, for the preorder `WGe`.
-/
import Yld.Proofs.AccExt
import Yld.Proofs.ActPrim
import Yld.Proofs.Restore2
set_option linter.unusedSimpArgs false
set_option linter.unusedVariables false
namespace Yld

/-- the second world has allocated at least what the first has, and its store is closed if the
    store of the first is -/
def WGe (w w' : World) : Prop := w.next ≤ w'.next ∧ (DbClosed w.db → DbClosed w'.db)

theorem WGe.refl (w : World) : WGe w w := ⟨Nat.le_refl _, id⟩
theorem WGe.trans {a b c : World} (h1 : WGe a b) (h2 : WGe b c) : WGe a c :=
  ⟨Nat.le_trans h1.1 h2.1, fun h => h2.2 (h1.2 h)⟩
theorem WGe.of_same {a b c : World} (hn : a.next = b.next) (hd : a.db = b.db) (h2 : WGe b c) : WGe a c := by
  unfold WGe at *; rw [hn, hd]; exact h2
theorem WGe.same_of {a b c : World} (h2 : WGe a b) (hn : b.next = c.next) (hd : b.db = c.db) : WGe a c := by
  unfold WGe at *; rw [← hn, ← hd]; exact h2
theorem WGe.of_eq {a b : World} (hn : a.next = b.next) (hd : a.db = b.db) : WGe a b := by
  unfold WGe; rw [hn, hd]; exact ⟨Nat.le_refl _, id⟩
theorem WGe.alloc {a b : World} (hn : a.next ≤ b.next) (hd : a.db = b.db) : WGe a b := by
  unfold WGe; rw [hd]; exact ⟨hn, id⟩

/-- a consumer that only allocates and keeps the store closed -/
def KGrow (k : K) : Prop := ∀ w, WGe w (k w).1
def GGrow (g : Gen) : Prop := ∀ k, KGrow k → KGrow (g k)

/-! ### outcome combinators -/

theorem andThenR_grow {f : World → R} (hf : ∀ w, WGe w (f w).1) (r : R) : WGe r.1 (andThenR f r).1 := by
  obtain ⟨w, o⟩ := r
  cases o with
  | none => exact hf w
  | some s => exact WGe.refl _

theorem iteR_grow {f : World → R} (hf : ∀ w, WGe w (f w).1) (d : Nat) (r : R) : WGe r.1 (iteR d f r).1 := by
  obtain ⟨w, o⟩ := r
  cases o with
  | none => exact hf w
  | some s =>
    cases s <;> try exact WGe.refl _
    simp only [iteR_commit]; split <;> exact WGe.refl _

theorem seq_grow {w : World} {r : R} {f : World → R} (h1 : WGe w r.1) (hf : ∀ w, WGe w (f w).1) :
    WGe w (andThenR f r).1 := h1.trans (andThenR_grow hf r)

/-! ### world updates -/

theorem allocVars_grow (names : List String) : ∀ (env : Env) (w : World),
    w.next ≤ (allocVars names env w).2.next ∧ (allocVars names env w).2.db = w.db := by
  induction names with
  | nil => intro env w; exact ⟨Nat.le_refl _, rfl⟩
  | cons v vs ih =>
    intro env w
    have e : allocVars (v :: vs) env w = allocVars vs (env ++ [(v, .var w.next)]) w.fresh.2 := rfl
    rw [e]
    obtain ⟨h1, h2⟩ := ih (env ++ [(v, .var w.next)]) w.fresh.2
    exact ⟨Nat.le_trans (Nat.le_succ _) h1, h2⟩

theorem allocVars_wge (names : List String) (env : Env) (w : World) : WGe w (allocVars names env w).2 :=
  WGe.alloc (allocVars_grow names env w).1 (allocVars_grow names env w).2.symm

theorem setFacts_wge (w : World) (name : String) (n : Nat) (fs : List Fact)
    (hfs : DbClosed w.db → ∀ c ∈ fs, FactClosed c) : WGe w (w.setFacts name n fs) := by
  refine ⟨by rw [setFacts_next]; exact Nat.le_refl _, fun h => ?_⟩
  rw [setFacts_db]
  exact dbClosed_upd h _ (hfs h)

theorem setFacts_filter_wge (w : World) (name : String) (n : Nat) (p : Fact → Bool) :
    WGe w (w.setFacts name n ((w.facts name n).filter p)) :=
  setFacts_wge w name n _ (fun h c hc => facts_closed h name n c (List.mem_filter.mp hc).1)

theorem assertFact_wge (f : Nat) (name : String) (vs : List Term) (app : Bool) (w : World) :
    WGe w (assertFact f name vs app w).1 := by
  unfold assertFact
  split
  · exact WGe.refl _
  · rename_i vs' _
    simp only
    refine WGe.same_of (b := w.setFacts name vs.length
      (if app = true then w.facts name vs.length ++ [{ id := w.stamp, nvars := (canonVars vs').2, args := (canonVars vs').1 }]
        else { id := w.stamp, nvars := (canonVars vs').2, args := (canonVars vs').1 } :: w.facts name vs.length))
      (setFacts_wge w name vs.length _ ?_) rfl rfl
    intro h c hc
    have hnewfact : FactClosed { id := w.stamp, nvars := (canonVars vs').2, args := (canonVars vs').1 } :=
      fun t ht x hx => canonVars_closed vs' t ht x hx
    split at hc
    · rcases List.mem_append.mp hc with hm | hm
      · exact facts_closed h _ _ c hm
      · simp at hm; subst hm; exact hnewfact
    · rcases List.mem_cons.mp hc with hm | hm
      · subst hm; exact hnewfact
      · exact facts_closed h _ _ c hm

/-! ### unification -/

theorem bindGen_grow (x : Nat) (t : Term) : GGrow (bindGen x t) := by
  intro k hk w
  unfold bindGen
  have h := hk { w with b := bind w.b x t }
  revert h
  generalize k { w with b := bind w.b x t } = r
  obtain ⟨w', o⟩ := r
  intro h; exact h

theorem unifyList_grow (u : Term → Term → Gen) (hu : ∀ a b, GGrow (u a b)) :
    ∀ as bs, GGrow (unifyList u as bs) := by
  intro as
  induction as with
  | nil =>
    intro bs k hk w
    cases bs with
    | nil => simpa [unifyList] using hk w
    | cons b bs => simp only [unifyList]; exact WGe.refl _
  | cons a as ih =>
    intro bs k hk w
    cases bs with
    | nil => simp only [unifyList]; exact WGe.refl _
    | cons b bs =>
      simp only [unifyList]
      exact hu a b _ (fun w' => ih bs k hk w') w

theorem unify_grow (f : Nat) : ∀ t1 t2, GGrow (unify f t1 t2) := by
  induction f with
  | zero => intro t1 t2 k _ w; rw [unify]; exact WGe.refl _
  | succ f ih =>
    intro t1 t2 k hk w
    rw [unify]
    cases h1 : walk w.b (f+1) t1 with
    | none => exact WGe.refl _
    | some a1 =>
      cases h2 : walk w.b (f+1) t2 with
      | none => exact WGe.refl _
      | some a2 =>
        simp only
        cases a1 <;> cases a2 <;> simp only
        all_goals first
          | exact WGe.refl _
          | exact bindGen_grow _ _ k hk _
          | exact WGe.of_same (markCyc_next _ _ _ _).symm (markCyc_db' _ _ _ _).symm (bindGen_grow _ _ k hk _)
          | (split
             · first | exact hk w | exact unifyList_grow (unify f) ih _ _ k hk w
             · first | exact WGe.refl _ | exact bindGen_grow _ _ k hk _)

/-! ### facts -/

theorem matchFact_grow (f : Nat) (fact : Fact) (args : List Term) : GGrow (matchFact f fact args) := by
  intro k hk w
  unfold matchFact
  simp only
  split
  · exact (WGe.alloc (b := { w with next := w.next + fact.nvars }) (Nat.le_add_right _ _) rfl).trans
      (unifyList_grow _ (unify_grow f) _ _ k hk _)
  · exact WGe.alloc (Nat.le_add_right _ _) rfl

theorem matchAll_grow (f : Nat) (args : List Term) : ∀ cs, GGrow (matchAll f args cs) := by
  intro cs
  induction cs with
  | nil => intro k _ w; simp only [matchAll]; exact WGe.refl _
  | cons c cs ih =>
    intro k hk w
    simp only [matchAll]
    exact seq_grow (matchFact_grow f c args k hk w) (fun w' => ih k hk w')

theorem matchDynamic_grow (f : Nat) (name : String) (args : List Term) : GGrow (matchDynamic f name args) := by
  intro k hk w
  unfold matchDynamic
  exact matchAll_grow f args _ k hk w

theorem retractLoop_grow (f : Nat) (name : String) (args : List Term) :
    ∀ cs, GGrow (retractLoop f name args cs) := by
  intro cs
  induction cs with
  | nil => intro k _ w; simp only [retractLoop]; exact WGe.refl _
  | cons c cs ih =>
    intro k hk w
    simp only [retractLoop]
    split
    · refine seq_grow (matchFact_grow f c args _ (fun w' => ?_) w) (fun w' => ih k hk w')
      exact (setFacts_filter_wge w' name args.length _).trans (hk _)
    · exact ih k hk w

theorem runPy_grow (f : Nat) (r : Option Nat) (args : List Term) :
    ∀ rows i, GGrow (runPy f rows r i args) := by
  intro rows
  induction rows with
  | nil =>
    intro i k _ w
    simp only [runPy]
    split <;> exact WGe.refl _
  | cons row rows ih =>
    intro i k hk w
    simp only [runPy]
    split
    · exact WGe.refl _
    · exact seq_grow (matchFact_grow f row args k hk w) (fun w' => ih (i+1) k hk w')

theorem factMatches_grow (f : Nat) (c : Fact) (args : List Term) (w : World) :
    WGe w (factMatches f c args w).1 := by
  unfold factMatches
  have h := matchFact_grow f c args (fun w' => (w', some .stop)) (fun w' => WGe.refl _) w
  revert h
  generalize matchFact f c args (fun w' => (w', some Sig.stop)) w = r
  obtain ⟨w', o⟩ := r
  intro h
  cases o with
  | none => exact h
  | some s => cases s <;> exact h

theorem retractAllLoop_grow (f : Nat) (args : List Term) :
    ∀ (cs keep : List Fact) (w : World), WGe w (retractAllLoop f args cs keep w).1 := by
  intro cs
  induction cs with
  | nil => intro keep w; simp only [retractAllLoop]; exact WGe.refl _
  | cons c cs ih =>
    intro keep w
    simp only [retractAllLoop]
    have h := factMatches_grow f c args w
    revert h
    generalize factMatches f c args w = r
    obtain ⟨w', (s | b)⟩ := r
    · intro h; exact h
    · intro h
      cases b
      · exact h.trans (ih _ _)
      · exact h.trans (ih _ _)

/-- the facts `retractall` keeps are among those it examined -/
theorem retractAllLoop_keep (f : Nat) (args : List Term) :
    ∀ (cs keep : List Fact) (w : World) (keep' : List Fact),
      (retractAllLoop f args cs keep w).2 = .ok keep' → ∀ c ∈ keep', c ∈ keep ∨ c ∈ cs := by
  intro cs
  induction cs with
  | nil =>
    intro keep w keep' h c hc
    simp only [retractAllLoop] at h
    cases h; exact Or.inl hc
  | cons c0 cs ih =>
    intro keep w keep' h c hc
    simp only [retractAllLoop] at h
    revert h
    generalize factMatches f c0 args w = r
    obtain ⟨w', (s | b)⟩ := r
    · intro h; cases h
    · intro h
      cases b
      · rcases ih _ _ _ h c hc with hm | hm
        · rcases List.mem_append.mp hm with hm | hm
          · exact Or.inl hm
          · simp at hm; subst hm; exact Or.inr List.mem_cons_self
        · exact Or.inr (List.mem_cons_of_mem _ hm)
      · rcases ih _ _ _ h c hc with hm | hm
        · exact Or.inl hm
        · exact Or.inr (List.mem_cons_of_mem _ hm)

theorem findallCollect_grow (f : Nat) (tmpl : Term) : KGrow (findallCollect f tmpl) := by
  intro w
  unfold findallCollect
  split
  · exact WGe.alloc (Nat.le_add_right _ _) rfl
  · exact WGe.refl _

/-! ### clause bodies -/

def QGrow (q : Q) : Prop := ∀ name args, GGrow (q name args)

theorem exec_grow (q : Q) (hq : QGrow q) (env : Env) :
    (∀ c, GGrow (exec q env c)) ∧ (∀ cs, GGrow (execList q env cs)) := by
  have key : ∀ c, GGrow (exec q env c) := by
    intro c
    induction c using Code.rec (motive_2 := fun cs => GGrow (execList q env cs)) with
    | yieldF => intro k hk w; rw [exec_yieldF]; exact hk w
    | yieldT => intro k hk w; rw [exec_yieldT]; exact hk w
    | ret => intro k _ w; rw [exec_ret]; exact WGe.refl _
    | brk l => intro k _ w; rw [exec_brk]; exact WGe.refl _
    | block l body ih =>
      intro k hk w
      rw [exec_block, catchBrk_fst]
      exact ih k hk w
    | foreach name args body ih =>
      intro k hk w
      rw [exec_foreach]
      exact hq name _ _ (fun w' => ih k hk w') w
    | nil => intro k _ w; rw [execList_nil]; exact WGe.refl _
    | cons c cs ihc ihcs =>
      intro k hk w
      rw [execList_cons]
      exact seq_grow (ihc k hk w) (fun w' => ihcs k hk w')
  refine ⟨key, ?_⟩
  intro cs
  induction cs with
  | nil => intro k _ w; rw [execList_nil]; exact WGe.refl _
  | cons c cs ih =>
    intro k hk w
    rw [execList_cons]
    exact seq_grow (key c k hk w) (fun w' => ih k hk w')

theorem thenSig_grow {w : World} {r : R} (s : Sig) (h : WGe w r.1) : WGe w (thenSig s r).1 := by
  rw [thenSig_fst]; exact h

theorem solve_grow (q : Q) (hq : QGrow q) (env : Env) :
    ∀ (b : Body) (d : Nat), GGrow (solve q env d b)
  | .tru, d => by intro k hk w; simp only [solve]; exact hk w
  | .fail, d => by intro k _ w; simp only [solve]; exact WGe.refl _
  | .cutif l, d => by intro k hk w; simp only [solve]; exact hk w
  | .cut, d => by intro k hk w; simp only [solve]; exact thenSig_grow _ (hk w)
  | .call name args, d => by intro k hk w; simp only [solve]; exact hq name _ k hk w
  | .conj a b, d => by
    intro k hk w
    simp only [solve]
    exact solve_grow q hq env a d _ (fun w' => solve_grow q hq env b d k hk w') w
  | .disj (.ite c t) e, d => by
    intro k hk w
    simp only [solve]
    exact (solve_grow q hq env c (d+1) _ (fun w' => thenSig_grow _ (solve_grow q hq env t d k hk w')) w).trans
      (iteR_grow (fun w' => solve_grow q hq env e d k hk w') d _)
  | .disj .tru b, d => by
    intro k hk w
    rw [solve_disj_eq q env d .tru b k w (by intro c t h; cases h)]
    exact seq_grow (solve_grow q hq env .tru d k hk w) (fun w' => solve_grow q hq env b d k hk w')
  | .disj .fail b, d => by
    intro k hk w
    rw [solve_disj_eq q env d .fail b k w (by intro c t h; cases h)]
    exact seq_grow (solve_grow q hq env .fail d k hk w) (fun w' => solve_grow q hq env b d k hk w')
  | .disj .cut b, d => by
    intro k hk w
    rw [solve_disj_eq q env d .cut b k w (by intro c t h; cases h)]
    exact seq_grow (solve_grow q hq env .cut d k hk w) (fun w' => solve_grow q hq env b d k hk w')
  | .disj (.cutif l) b, d => by
    intro k hk w
    rw [solve_disj_eq q env d (.cutif l) b k w (by intro c t h; cases h)]
    exact seq_grow (solve_grow q hq env (.cutif l) d k hk w) (fun w' => solve_grow q hq env b d k hk w')
  | .disj (.call nm ar) b, d => by
    intro k hk w
    rw [solve_disj_eq q env d (.call nm ar) b k w (by intro c t h; cases h)]
    exact seq_grow (solve_grow q hq env (.call nm ar) d k hk w) (fun w' => solve_grow q hq env b d k hk w')
  | .disj (.conj a1 a2) b, d => by
    intro k hk w
    rw [solve_disj_eq q env d (.conj a1 a2) b k w (by intro c t h; cases h)]
    exact seq_grow (solve_grow q hq env (.conj a1 a2) d k hk w) (fun w' => solve_grow q hq env b d k hk w')
  | .disj (.disj a1 a2) b, d => by
    intro k hk w
    rw [solve_disj_eq q env d (.disj a1 a2) b k w (by intro c t h; cases h)]
    exact seq_grow (solve_grow q hq env (.disj a1 a2) d k hk w) (fun w' => solve_grow q hq env b d k hk w')
  | .disj (.neg a1) b, d => by
    intro k hk w
    rw [solve_disj_eq q env d (.neg a1) b k w (by intro c t h; cases h)]
    exact seq_grow (solve_grow q hq env (.neg a1) d k hk w) (fun w' => solve_grow q hq env b d k hk w')
  | .ite c t, d => by
    intro k hk w
    simp only [solve]
    exact (solve_grow q hq env c (d+1) _ (fun w' => thenSig_grow _ (solve_grow q hq env t d k hk w')) w).trans
      (iteR_grow (fun w' => WGe.refl _) d _)
  | .neg a, d => by
    intro k hk w
    simp only [solve]
    exact (solve_grow q hq env a (d+1) _ (fun w' => WGe.refl _) w).trans (iteR_grow hk d _)

/-! ### clause activation -/

theorem runClauses_grow {α : Type} (run : α → Gen) (hrun : ∀ c, GGrow (run c)) :
    ∀ cs, GGrow (runClauses run cs) := by
  intro cs
  induction cs with
  | nil => intro k _ w; simp only [runClauses]; exact WGe.refl _
  | cons c cs ih =>
    intro k hk w
    simp only [runClauses]
    exact seq_grow (hrun c k hk w) (fun w' => ih k hk w')

theorem unifyHead_grow (fuel : Nat) (env : Env) (args : List Term) (g : Gen) (hg : GGrow g) :
    ∀ us, GGrow (unifyHead fuel env args us g) := by
  intro us
  induction us with
  | nil => simpa [unifyHead] using hg
  | cons u us ih =>
    obtain ⟨i, t⟩ := u
    intro k hk w
    simp only [unifyHead]
    exact unify_grow fuel _ _ _ (fun w' => ih k hk w') w

theorem runClauseCompiled_grow (fuel : Nat) (q : Q) (hq : QGrow q) (cc : ClauseCode) (args : List Term) :
    GGrow (runClauseCompiled fuel q cc args) := by
  intro k hk w
  unfold runClauseCompiled
  simp only
  exact ((allocVars_wge _ _ _).trans (allocVars_wge _ _ _)).trans
    (unifyHead_grow fuel _ args _ ((exec_grow q hq _).2 _) _ k hk _)

theorem runClauseRef_grow (fuel : Nat) (q : Q) (hq : QGrow q) (c : Clause) (args : List Term) :
    GGrow (runClauseRef fuel q c args) := by
  intro k hk w
  unfold runClauseRef
  simp only
  exact (allocVars_wge _ _ _).trans (unifyHead_grow fuel _ args _ (solve_grow q hq _ _ 0) _ k hk _)

theorem runClauseRefBody_grow (fuel : Nat) (q : Q) (hq : QGrow q) (cc : ClauseCode) (body : Body)
    (args : List Term) : GGrow (runClauseRefBody fuel q cc body args) := by
  intro k hk w
  unfold runClauseRefBody
  simp only
  exact ((allocVars_wge _ _ _).trans (allocVars_wge _ _ _)).trans
    (unifyHead_grow fuel _ args _ (solve_grow q hq _ _ 0) _ k hk _)

theorem wrapK_grow {k : K} (hk : KGrow k) : KGrow (wrapK k) := by
  intro w; rw [wrapK_fst]; exact hk w

theorem onceGen_grow (g : Gen) (hg : GGrow g) : GGrow (onceGen g) := by
  intro k hk w
  unfold onceGen
  rw [leaveOnce_fst]
  exact hg _ (fun w' => thenSig_grow _ (wrapK_grow hk w')) w

/-! ### the engine -/

def AllGrow (cfg : Cfg) (f : Nat) : Prop :=
  (∀ name args, GGrow (query cfg f name args)) ∧
  (∀ ds args, GGrow (runChain cfg f ds args)) ∧
  (∀ d args, GGrow (runDef cfg f d args)) ∧
  (∀ b args, GGrow (runBuiltin cfg f b args)) ∧
  (∀ g extra, GGrow (callGoal cfg f g extra))

theorem allGrow (cfg : Cfg) : ∀ f, AllGrow cfg f := by
  intro f
  induction f with
  | zero =>
    refine ⟨?_, ?_, ?_, ?_, ?_⟩ <;> intros <;> intro k _ w
    · rw [query]; exact WGe.refl _
    · rw [runChain]; exact WGe.refl _
    · rw [runDef]; exact WGe.refl _
    · rw [runBuiltin]; exact WGe.refl _
    · rw [callGoal]; exact WGe.refl _
  | succ f ih =>
    obtain ⟨ihQ, ihC, ihD, ihB, ihG⟩ := ih
    refine ⟨?_, ?_, ?_, ?_, ?_⟩
    · -- query
      intro name args k hk w
      rw [query]
      refine seq_grow (matchDynamic_grow f name args k hk w) (fun w' => ?_)
      split
      · exact WGe.refl _
      · split
        · exact WGe.refl _
        · exact ihC _ args k hk w'
    · -- runChain
      intro ds args k hk w
      cases ds with
      | nil => rw [runChain]; exact WGe.refl _
      | cons d ds =>
        rw [runChain]
        exact seq_grow (ihD d args k hk w) (fun w' => ihC ds args k hk w')
    · -- runDef
      intro d args k hk w
      cases d with
      | prolog p mode =>
        simp only [runDef]
        have hq : QGrow (query cfg f) := ihQ
        cases mode with
        | compiled =>
          simp only
          rw [leaveFrame_fst]
          exact runClauses_grow _ (fun cc => runClauseCompiled_grow f _ hq cc args) _ _ (wrapK_grow hk) w
        | reference =>
          simp only
          rw [leaveFrame_fst]
          exact runClauses_grow _ (fun c => runClauseRef_grow f _ hq c args) _ _ (wrapK_grow hk) w
        | refbody =>
          simp only
          rw [leaveFrame_fst]
          exact runClauses_grow _ (fun (x : ClauseCode × Clause) => runClauseRefBody_grow f _ hq x.1 x.2.body args) _ _ (wrapK_grow hk) w
      | py p => rw [runDef]; exact runPy_grow f _ args _ _ k hk w
      | builtin b => rw [runDef]; exact ihB b args k hk w
    · -- runBuiltin
      intro b args k hk w
      simp only [runBuiltin]
      split
      · -- "="
        exact unify_grow f _ _ k hk w
      · -- "\\="
        rename_i a b
        have h := ihQ "=" [a, b] (fun w' => (w', some .stop)) (fun w' => WGe.refl _) w
        revert h
        generalize query cfg f "=" [a, b] (fun w' => (w', some Sig.stop)) w = r
        obtain ⟨w1, o⟩ := r
        intro h
        cases o with
        | none => exact h.trans (hk w1)
        | some s => cases s <;> exact h
      · -- call
        exact ihG _ _ k hk w
      · -- once
        exact onceGen_grow _ (ihG _ _) k hk w
      · -- findall
        rename_i tmpl g bag
        have h := ihG g [] _ (findallCollect_grow f tmpl) { w with acc := [] :: w.acc }
        revert h
        generalize callGoal cfg f g [] (findallCollect f tmpl) { w with acc := [] :: w.acc } = r
        obtain ⟨w1, o⟩ := r
        intro h
        have h' : WGe w { w1 with acc := w1.acc.tail } := h
        cases o with
        | none => exact h'.trans (unify_grow f _ _ k hk _)
        | some s => exact h'
      · -- assertz
        rename_i t
        cases factNameArgs f w t with
        | error s => exact WGe.refl _
        | ok na =>
          obtain ⟨name, as⟩ := na
          simp only
          have h := assertFact_wge f name as true w
          revert h
          generalize assertFact f name as true w = r
          obtain ⟨w1, o⟩ := r
          intro h
          cases o with
          | none => exact h.trans (hk w1)
          | some s => exact h
      · -- asserta
        rename_i t
        cases factNameArgs f w t with
        | error s => exact WGe.refl _
        | ok na =>
          obtain ⟨name, as⟩ := na
          simp only
          have h := assertFact_wge f name as false w
          revert h
          generalize assertFact f name as false w = r
          obtain ⟨w1, o⟩ := r
          intro h
          cases o with
          | none => exact h.trans (hk w1)
          | some s => exact h
      · -- retract
        rename_i t
        cases factNameArgs f w t with
        | error s => exact WGe.refl _
        | ok na =>
          obtain ⟨name, as⟩ := na
          exact retractLoop_grow f name as _ k hk w
      · -- retractall
        rename_i t
        cases factNameArgs f w t with
        | error s => exact WGe.refl _
        | ok na =>
          obtain ⟨name, as⟩ := na
          simp only
          have h := retractAllLoop_grow f as (w.facts name as.length) [] w
          have hkeep := retractAllLoop_keep f as (w.facts name as.length) [] w
          revert h hkeep
          generalize retractAllLoop f as (w.facts name as.length) [] w = r
          obtain ⟨w1, (s | keep)⟩ := r
          · intro h _; exact h
          · intro h hkeep
            have hcl : DbClosed w.db → ∀ c ∈ keep, FactClosed c := by
              intro hw c hc
              rcases hkeep keep rfl c hc with hm | hm
              · cases hm
              · exact facts_closed hw _ _ c hm
            have h2 : WGe w (w1.setFacts name as.length keep) :=
              ⟨by rw [setFacts_next]; exact h.1,
               fun hw => by rw [setFacts_db]; exact dbClosed_upd (h.2 hw) _ (hcl hw)⟩
            exact h2.trans (hk _)
      · -- wrong number of arguments
        exact WGe.refl _
    · -- callGoal
      intro g extra k hk w
      rw [callGoal]
      cases walk w.b (f+1) g with
      | none => exact WGe.refl _
      | some a =>
        cases a with
        | var n => exact WGe.refl _
        | atom s => exact ihQ _ _ k hk w
        | int i => exact WGe.refl _
        | fn name as => exact ihQ _ _ k hk w

theorem query_grow (cfg : Cfg) (f : Nat) (name : String) (args : List Term) : GGrow (query cfg f name args) :=
  (allGrow cfg f).1 name args

theorem topConsumer_grow (fuel : Nat) (args : List Term) (sched : Sched) : KGrow (topConsumer fuel args sched) := by
  intro w
  unfold topConsumer
  split
  · exact WGe.refl _
  · simp only
    repeat (first | exact WGe.of_eq rfl rfl | split)

end Yld
