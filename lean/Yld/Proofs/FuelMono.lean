/-
  Fuel monotonicity: a run that does not run out of fuel is the same run at every larger fuel.

  `Below r r'`: the run `r` ran out of fuel, or it is exactly the run `r'`.  Every generator of the
  engine is monotone in the fuel and in its consumer for this order; hence a query whose result is
  not `oof` gives the identical result (answers, bindings, store, outcome) at every larger fuel —
  the model of "a search that completes within the recursion limit returns what the unbounded
  search returns", and of "raising the limit never changes a completed result".
-/
import Yld.Model.Api
import Yld.Proofs.Parametric
namespace Yld

/-- the left run ran out of fuel, or the two runs are the same -/
def Below (r r' : R) : Prop := r.2 = some .oof ∨ r = r'

def KBelow (K1 K2 : K) : Prop := ∀ w, Below (K1 w) (K2 w)

/-- a pair of generators, the second doing at least what the first does -/
def GenBelow (g g' : Gen) : Prop := ∀ K1 K2, KBelow K1 K2 → ∀ w, Below (g K1 w) (g' K2 w)

/-! ### The generalisation the induction needs

`Below` with the plain `oof` is not preserved inside a callee's frame: `wrapK` turns the consumer's
`oof` into `up oof` (and `up (up oof)` one frame deeper, …), which `leaveFrame` / `leaveOnce` unwrap
again on the way out.  So the pass over the engine is done for `BelowP P`, "the left run ended with a
reason in `P`, or the two runs are the same", for every set `P` of reasons that contains `oof` and none
of the reasons some combinator catches (`ret`, `brk`, `commit`, `stop`); entering a frame replaces
`P` by `UpP P` = {`oof`} ∪ {`up s` | `P s`}.  The theorems are the instance `P = {oof}`. -/

structure OofLike (P : Sig → Prop) : Prop where
  oof : P .oof
  ret : ¬ P .ret
  brk : ∀ l, ¬ P (.brk l)
  commit : ∀ d, ¬ P (.commit d)
  stop : ¬ P .stop

def BelowP (P : Sig → Prop) (r r' : R) : Prop := (∃ s, r.2 = some s ∧ P s) ∨ r = r'
def KBelowP (P : Sig → Prop) (K1 K2 : K) : Prop := ∀ w, BelowP P (K1 w) (K2 w)
def GenBelowP (P : Sig → Prop) (g g' : Gen) : Prop :=
  ∀ K1 K2, KBelowP P K1 K2 → ∀ w, BelowP P (g K1 w) (g' K2 w)

theorem BelowP.rfl' {P : Sig → Prop} (r : R) : BelowP P r r := Or.inr rfl
theorem BelowP.sig {P : Sig → Prop} (w : World) {s : Sig} (hs : P s) (r' : R) : BelowP P (w, some s) r' :=
  Or.inl ⟨s, rfl, hs⟩

theorem belowCases {P : Sig → Prop} {r r' : R} (h : BelowP P r r') :
    (∃ w s, r = (w, some s) ∧ P s) ∨ r = r' := by
  rcases h with ⟨s, h1, h2⟩ | h
  · obtain ⟨w, o⟩ := r
    simp only at h1; subst h1
    exact Or.inl ⟨w, s, rfl, h2⟩
  · exact Or.inr h

/-! ### the primitives that use the fuel -/

theorem walk_mono (b : Bind) : ∀ (f : Nat) (t a : Term), walk b f t = some a → walk b (f+1) t = some a := by
  intro f
  induction f with
  | zero => intro t a h; simp [walk] at h
  | succ f ih =>
    intro t a h
    cases t with
    | var n =>
      simp only [walk] at h ⊢
      cases hb : b n with
      | none => rw [hb] at h; exact h
      | some t' => rw [hb] at h; simp only at h ⊢; exact ih t' a h
    | atom s => simpa [walk] using h
    | int i => simpa [walk] using h
    | fn g as => simpa [walk] using h

theorem mapM_opt_mono {g g' : Term → Option Term} :
    ∀ (l : List Term) (as : List Term), (∀ t, t ∈ l → ∀ a, g t = some a → g' t = some a) →
      l.mapM g = some as → l.mapM g' = some as := by
  intro l
  induction l with
  | nil => intro as _ h; simpa using h
  | cons t l ih =>
    intro as hg h
    rw [List.mapM_cons] at h ⊢
    cases h1 : g t with
    | none => rw [h1] at h; simp at h
    | some a =>
      rw [h1] at h
      rw [hg t (List.mem_cons_self) a h1]
      cases h2 : l.mapM g with
      | none => rw [h2] at h; simp at h
      | some as' =>
        rw [h2] at h
        rw [ih as' (fun t ht => hg t (List.mem_cons_of_mem _ ht)) h2]
        exact h

theorem resolve_mono (b : Bind) : ∀ (f : Nat) (t a : Term), resolve b f t = some a → resolve b (f+1) t = some a := by
  intro f
  induction f with
  | zero => intro t a h; simp [resolve] at h
  | succ f ih =>
    intro t a h
    cases t with
    | var n =>
      simp only [resolve] at h ⊢
      cases hb : b n with
      | none => rw [hb] at h; exact h
      | some t' => rw [hb] at h; simp only at h ⊢; exact ih t' a h
    | atom s => simpa [resolve] using h
    | int i => simpa [resolve] using h
    | fn g as =>
      simp only [resolve] at h ⊢
      cases h1 : as.mapM (resolve b f) with
      | none => rw [h1] at h; simp at h
      | some as' =>
        rw [h1] at h
        rw [mapM_opt_mono as as' (fun t _ a => ih t a) h1]
        exact h

/-! ### generic combinators -/

theorem below_andThen {P : Sig → Prop} {r r' : R} (h : BelowP P r r') {f f' : World → R}
    (hf : ∀ w, BelowP P (f w) (f' w)) : BelowP P (andThenR f r) (andThenR f' r') := by
  rcases belowCases h with ⟨w, s, e, hs⟩ | e
  · subst e; exact BelowP.sig w hs _
  · subst e
    obtain ⟨w, o⟩ := r
    cases o with
    | none => exact hf w
    | some s => exact Or.inr rfl

theorem below_thenSig {P : Sig → Prop} {r r' : R} (h : BelowP P r r') (s : Sig) :
    BelowP P (thenSig s r) (thenSig s r') := by
  rcases belowCases h with ⟨w, s', e, hs⟩ | e
  · subst e; exact BelowP.sig w hs _
  · subst e; exact Or.inr rfl

theorem below_catchBrk {P : Sig → Prop} (hP : OofLike P) {r r' : R} (h : BelowP P r r') (l : Nat) :
    BelowP P (catchBrk l r) (catchBrk l r') := by
  rcases belowCases h with ⟨w, s, e, hs⟩ | e
  · subst e
    have : catchBrk l (w, some s) = (w, some s) := by
      cases s <;> first | rfl | exact absurd hs (hP.brk _)
    rw [this]; exact BelowP.sig w hs _
  · subst e; exact Or.inr rfl

theorem below_iteR {P : Sig → Prop} (hP : OofLike P) {r r' : R} (h : BelowP P r r') (d : Nat)
    {f f' : World → R} (hf : ∀ w, BelowP P (f w) (f' w)) : BelowP P (iteR d f r) (iteR d f' r') := by
  rcases belowCases h with ⟨w, s, e, hs⟩ | e
  · subst e
    have : iteR d f (w, some s) = (w, some s) := by
      cases s <;> first | rfl | exact absurd hs (hP.commit _)
    rw [this]; exact BelowP.sig w hs _
  · subst e
    obtain ⟨w, o⟩ := r
    cases o with
    | none => exact hf w
    | some s =>
      have : iteR d f (w, some s) = iteR d f' (w, some s) := by cases s <;> rfl
      rw [this]; exact Or.inr rfl

/-- the oof-like reasons inside a callee's frame (or inside once/1): the frame's own `oof`, and the
    caller's, wrapped -/
inductive UpP (P : Sig → Prop) : Sig → Prop
  | oof : UpP P .oof
  | up {s : Sig} : P s → UpP P (.up s)

theorem UpP_ok (P : Sig → Prop) : OofLike (UpP P) where
  oof := .oof
  ret := by intro h; cases h
  brk := by intro l h; cases h
  commit := by intro d h; cases h
  stop := by intro h; cases h

theorem below_wrapK {P : Sig → Prop} {K1 K2 : K} (hK : KBelowP P K1 K2) : KBelowP (UpP P) (wrapK K1) (wrapK K2) := by
  intro w
  unfold wrapK
  rcases belowCases (hK w) with ⟨w', s, e, hs⟩ | e
  · simp only [e]; exact BelowP.sig w' (.up hs) _
  · rw [e]; exact Or.inr rfl

theorem below_leaveFrame {P : Sig → Prop} (hP : OofLike P) {r r' : R} (h : BelowP (UpP P) r r') :
    BelowP P (leaveFrame r) (leaveFrame r') := by
  rcases belowCases h with ⟨w, s, e, hs⟩ | e
  · subst e
    cases hs with
    | oof => exact BelowP.sig w hP.oof _
    | up h' => exact BelowP.sig w h' _
  · subst e; exact Or.inr rfl

theorem below_leaveOnce {P : Sig → Prop} (hP : OofLike P) {r r' : R} (h : BelowP (UpP P) r r') :
    BelowP P (leaveOnce r) (leaveOnce r') := by
  rcases belowCases h with ⟨w, s, e, hs⟩ | e
  · subst e
    cases hs with
    | oof => exact BelowP.sig w hP.oof _
    | up h' => exact BelowP.sig w h' _
  · subst e; exact Or.inr rfl

/-! ### unification -/

theorem bindGen_below (P : Sig → Prop) (x : Nat) (t : Term) : GenBelowP P (bindGen x t) (bindGen x t) := by
  intro K1 K2 hK w
  unfold bindGen
  rcases belowCases (hK { w with b := bind w.b x t }) with ⟨w', s, e, hs⟩ | e
  · simp only [e]; exact BelowP.sig _ hs _
  · rw [e]; exact Or.inr rfl

theorem unifyList_below (P : Sig → Prop) (u u' : Term → Term → Gen) (hu : ∀ a b, GenBelowP P (u a b) (u' a b)) :
    ∀ as bs, GenBelowP P (unifyList u as bs) (unifyList u' as bs) := by
  intro as
  induction as with
  | nil =>
    intro bs K1 K2 hK w
    cases bs with
    | nil => simpa [unifyList] using hK w
    | cons b bs => simp only [unifyList]; exact Or.inr rfl
  | cons a as ih =>
    intro bs K1 K2 hK w
    cases bs with
    | nil => simp only [unifyList]; exact Or.inr rfl
    | cons b bs =>
      simp only [unifyList]
      exact hu a b _ _ (fun w' => ih bs K1 K2 hK w') w

theorem unify_below (P : Sig → Prop) (hP : OofLike P) (f : Nat) :
    ∀ t1 t2, GenBelowP P (unify f t1 t2) (unify (f+1) t1 t2) := by
  induction f with
  | zero => intro t1 t2 K1 K2 _ w; rw [unify]; exact BelowP.sig w hP.oof _
  | succ f ih =>
    intro t1 t2 K1 K2 hK w
    rw [unify, unify]
    cases h1 : walk w.b (f+1) t1 with
    | none => exact BelowP.sig w hP.oof _
    | some a1 =>
      cases h2 : walk w.b (f+1) t2 with
      | none => exact BelowP.sig w hP.oof _
      | some a2 =>
        rw [walk_mono _ _ _ _ h1, walk_mono _ _ _ _ h2]
        simp only
        cases a1 <;> cases a2 <;> simp only
        all_goals first
          | exact Or.inr rfl
          | exact bindGen_below P _ _ K1 K2 hK _
          | (split
             · first | exact hK w | exact unifyList_below P (unify f) (unify (f+1)) ih _ _ K1 K2 hK w
             · first | exact Or.inr rfl | exact bindGen_below P _ _ K1 K2 hK _)

/-! ### facts -/

theorem matchFact_below (P : Sig → Prop) (hP : OofLike P) (f : Nat) (fact : Fact) (args : List Term) :
    GenBelowP P (matchFact f fact args) (matchFact (f+1) fact args) := by
  intro K1 K2 hK w
  unfold matchFact
  simp only
  split
  · exact unifyList_below P _ _ (unify_below P hP f) _ _ K1 K2 hK _
  · exact Or.inr rfl

theorem matchAll_below (P : Sig → Prop) (hP : OofLike P) (f : Nat) (args : List Term) :
    ∀ cs, GenBelowP P (matchAll f args cs) (matchAll (f+1) args cs) := by
  intro cs
  induction cs with
  | nil => intro K1 K2 _ w; simp only [matchAll]; exact Or.inr rfl
  | cons c cs ih =>
    intro K1 K2 hK w
    simp only [matchAll]
    exact below_andThen (matchFact_below P hP f c args K1 K2 hK w) (fun w' => ih K1 K2 hK w')

theorem matchDynamic_below (P : Sig → Prop) (hP : OofLike P) (f : Nat) (name : String) (args : List Term) :
    GenBelowP P (matchDynamic f name args) (matchDynamic (f+1) name args) := by
  intro K1 K2 hK w
  unfold matchDynamic
  exact matchAll_below P hP f args _ K1 K2 hK w

theorem retractLoop_below (P : Sig → Prop) (hP : OofLike P) (f : Nat) (name : String) (args : List Term) :
    ∀ cs, GenBelowP P (retractLoop f name args cs) (retractLoop (f+1) name args cs) := by
  intro cs
  induction cs with
  | nil => intro K1 K2 _ w; simp only [retractLoop]; exact Or.inr rfl
  | cons c cs ih =>
    intro K1 K2 hK w
    simp only [retractLoop]
    split
    · exact below_andThen
        (matchFact_below P hP f c args
          (fun w' => K1 (w'.setFacts name args.length ((w'.facts name args.length).filter (·.id != c.id))))
          (fun w' => K2 (w'.setFacts name args.length ((w'.facts name args.length).filter (·.id != c.id))))
          (fun w' => hK _) w)
        (fun w' => ih K1 K2 hK w')
    · exact ih K1 K2 hK w

theorem runPy_below (P : Sig → Prop) (hP : OofLike P) (f : Nat) (r : Option Nat) (args : List Term) :
    ∀ rows i, GenBelowP P (runPy f rows r i args) (runPy (f+1) rows r i args) := by
  intro rows
  induction rows with
  | nil =>
    intro i K1 K2 _ w
    simp only [runPy]
    exact Or.inr rfl
  | cons row rows ih =>
    intro i K1 K2 hK w
    simp only [runPy]
    split
    · exact Or.inr rfl
    · exact below_andThen (matchFact_below P hP f row args K1 K2 hK w) (fun w' => ih (i+1) K1 K2 hK w')

theorem assertFact_below (f : Nat) (name : String) (vs : List Term) (app : Bool) (w : World) :
    assertFact f name vs app w = (w, some .oof) ∨ assertFact f name vs app w = assertFact (f+1) name vs app w := by
  unfold assertFact
  cases h : vs.mapM (resolve w.b f) with
  | none => left; rfl
  | some as =>
    right
    rw [mapM_opt_mono vs as (fun t _ a => resolve_mono w.b f t a) h]

theorem factNameArgs_below (f : Nat) (w : World) (t : Term) :
    factNameArgs f w t = .error .oof ∨ factNameArgs f w t = factNameArgs (f+1) w t := by
  unfold factNameArgs
  cases h : walk w.b f t with
  | none => left; rfl
  | some a => right; rw [walk_mono _ _ _ _ h]

theorem factMatches_below (P : Sig → Prop) (hP : OofLike P) (f : Nat) (c : Fact) (args : List Term) (w : World) :
    (∃ w' s, factMatches f c args w = (w', .error s) ∧ P s) ∨
      factMatches f c args w = factMatches (f+1) c args w := by
  unfold factMatches
  have h := matchFact_below P hP f c args (fun w' => (w', some .stop)) (fun w' => (w', some .stop))
    (fun _ => Or.inr rfl) w
  rcases belowCases h with ⟨w', s, e, hs⟩ | e
  · left
    rw [e]
    refine ⟨w', s, ?_, hs⟩
    cases s <;> first | rfl | exact absurd hs hP.stop
  · right; rw [e]

theorem retractAllLoop_below (P : Sig → Prop) (hP : OofLike P) (f : Nat) (args : List Term) :
    ∀ (cs keep : List Fact) (w : World),
      (∃ w' s, retractAllLoop f args cs keep w = (w', .error s) ∧ P s) ∨
        retractAllLoop f args cs keep w = retractAllLoop (f+1) args cs keep w := by
  intro cs
  induction cs with
  | nil => intro keep w; right; simp only [retractAllLoop]
  | cons c cs ih =>
    intro keep w
    simp only [retractAllLoop]
    rcases factMatches_below P hP f c args w with ⟨w', s, e, hs⟩ | e
    · left; rw [e]; exact ⟨w', s, rfl, hs⟩
    · rw [← e]
      rcases factMatches f c args w with ⟨w', (s | b)⟩
      · right; rfl
      · cases b
        · exact ih _ _
        · exact ih _ _

theorem findallCollect_below (P : Sig → Prop) (hP : OofLike P) (f : Nat) (tmpl : Term) :
    KBelowP P (findallCollect f tmpl) (findallCollect (f+1) tmpl) := by
  intro w
  unfold findallCollect
  cases h : resolve w.b f tmpl with
  | none => exact BelowP.sig w hP.oof _
  | some v => rw [resolve_mono _ _ _ _ h]; exact Or.inr rfl

/-! ### clause bodies -/

def QBelowP (P : Sig → Prop) (q q' : Q) : Prop := ∀ name args, GenBelowP P (q name args) (q' name args)

theorem exec_below (P : Sig → Prop) (hP : OofLike P) (q q' : Q) (hq : QBelowP P q q') (env : Env) :
    (∀ c, GenBelowP P (exec q env c) (exec q' env c)) ∧ (∀ cs, GenBelowP P (execList q env cs) (execList q' env cs)) := by
  have key : ∀ c, GenBelowP P (exec q env c) (exec q' env c) := by
    intro c
    induction c using Code.rec (motive_2 := fun cs => GenBelowP P (execList q env cs) (execList q' env cs)) with
    | yieldF => intro K1 K2 hK w; rw [exec_yieldF, exec_yieldF]; exact hK w
    | yieldT => intro K1 K2 hK w; rw [exec_yieldT, exec_yieldT]; exact hK w
    | ret => intro K1 K2 _ w; rw [exec_ret, exec_ret]; exact Or.inr rfl
    | brk l => intro K1 K2 _ w; rw [exec_brk, exec_brk]; exact Or.inr rfl
    | block l body ih =>
      intro K1 K2 hK w
      rw [exec_block, exec_block]
      exact below_catchBrk hP (ih K1 K2 hK w) l
    | foreach name args body ih =>
      intro K1 K2 hK w
      rw [exec_foreach, exec_foreach]
      exact hq name _ _ _ (fun w' => ih K1 K2 hK w') w
    | nil => intro K1 K2 _ w; rw [execList_nil, execList_nil]; exact Or.inr rfl
    | cons c cs ihc ihcs =>
      intro K1 K2 hK w
      rw [execList_cons, execList_cons]
      exact below_andThen (ihc K1 K2 hK w) (fun w' => ihcs K1 K2 hK w')
  refine ⟨key, ?_⟩
  intro cs
  induction cs with
  | nil => intro K1 K2 _ w; rw [execList_nil, execList_nil]; exact Or.inr rfl
  | cons c cs ih =>
    intro K1 K2 hK w
    rw [execList_cons, execList_cons]
    exact below_andThen (key c K1 K2 hK w) (fun w' => ih K1 K2 hK w')

theorem solve_below (P : Sig → Prop) (hP : OofLike P) (q q' : Q) (hq : QBelowP P q q') (env : Env) :
    ∀ (b : Body) (d : Nat), GenBelowP P (solve q env d b) (solve q' env d b)
  | .tru, d => by intro K1 K2 hK w; simp only [solve]; exact hK w
  | .fail, d => by intro K1 K2 _ w; simp only [solve]; exact Or.inr rfl
  | .cutif l, d => by intro K1 K2 hK w; simp only [solve]; exact hK w
  | .cut, d => by intro K1 K2 hK w; simp only [solve]; exact below_thenSig (hK w) _
  | .call name args, d => by intro K1 K2 hK w; simp only [solve]; exact hq name _ K1 K2 hK w
  | .conj a b, d => by
    intro K1 K2 hK w
    simp only [solve]
    exact solve_below P hP q q' hq env a d _ _ (fun w' => solve_below P hP q q' hq env b d K1 K2 hK w') w
  | .disj (.ite c t) e, d => by
    intro K1 K2 hK w
    simp only [solve]
    exact below_iteR hP
      (solve_below P hP q q' hq env c (d+1) _ _ (fun w' => below_thenSig (solve_below P hP q q' hq env t d K1 K2 hK w') _) w) d
      (fun w' => solve_below P hP q q' hq env e d K1 K2 hK w')
  | .disj .tru b, d => by
    intro K1 K2 hK w
    rw [solve_disj_eq q env d .tru b K1 w (by intro c t h; cases h), solve_disj_eq q' env d .tru b K2 w (by intro c t h; cases h)]
    exact below_andThen (solve_below P hP q q' hq env .tru d K1 K2 hK w) (fun w' => solve_below P hP q q' hq env b d K1 K2 hK w')
  | .disj .fail b, d => by
    intro K1 K2 hK w
    rw [solve_disj_eq q env d .fail b K1 w (by intro c t h; cases h), solve_disj_eq q' env d .fail b K2 w (by intro c t h; cases h)]
    exact below_andThen (solve_below P hP q q' hq env .fail d K1 K2 hK w) (fun w' => solve_below P hP q q' hq env b d K1 K2 hK w')
  | .disj .cut b, d => by
    intro K1 K2 hK w
    rw [solve_disj_eq q env d .cut b K1 w (by intro c t h; cases h), solve_disj_eq q' env d .cut b K2 w (by intro c t h; cases h)]
    exact below_andThen (solve_below P hP q q' hq env .cut d K1 K2 hK w) (fun w' => solve_below P hP q q' hq env b d K1 K2 hK w')
  | .disj (.cutif l) b, d => by
    intro K1 K2 hK w
    rw [solve_disj_eq q env d (.cutif l) b K1 w (by intro c t h; cases h), solve_disj_eq q' env d (.cutif l) b K2 w (by intro c t h; cases h)]
    exact below_andThen (solve_below P hP q q' hq env (.cutif l) d K1 K2 hK w) (fun w' => solve_below P hP q q' hq env b d K1 K2 hK w')
  | .disj (.call nm ar) b, d => by
    intro K1 K2 hK w
    rw [solve_disj_eq q env d (.call nm ar) b K1 w (by intro c t h; cases h), solve_disj_eq q' env d (.call nm ar) b K2 w (by intro c t h; cases h)]
    exact below_andThen (solve_below P hP q q' hq env (.call nm ar) d K1 K2 hK w) (fun w' => solve_below P hP q q' hq env b d K1 K2 hK w')
  | .disj (.conj a1 a2) b, d => by
    intro K1 K2 hK w
    rw [solve_disj_eq q env d (.conj a1 a2) b K1 w (by intro c t h; cases h), solve_disj_eq q' env d (.conj a1 a2) b K2 w (by intro c t h; cases h)]
    exact below_andThen (solve_below P hP q q' hq env (.conj a1 a2) d K1 K2 hK w) (fun w' => solve_below P hP q q' hq env b d K1 K2 hK w')
  | .disj (.disj a1 a2) b, d => by
    intro K1 K2 hK w
    rw [solve_disj_eq q env d (.disj a1 a2) b K1 w (by intro c t h; cases h), solve_disj_eq q' env d (.disj a1 a2) b K2 w (by intro c t h; cases h)]
    exact below_andThen (solve_below P hP q q' hq env (.disj a1 a2) d K1 K2 hK w) (fun w' => solve_below P hP q q' hq env b d K1 K2 hK w')
  | .disj (.neg a1) b, d => by
    intro K1 K2 hK w
    rw [solve_disj_eq q env d (.neg a1) b K1 w (by intro c t h; cases h), solve_disj_eq q' env d (.neg a1) b K2 w (by intro c t h; cases h)]
    exact below_andThen (solve_below P hP q q' hq env (.neg a1) d K1 K2 hK w) (fun w' => solve_below P hP q q' hq env b d K1 K2 hK w')
  | .ite c t, d => by
    intro K1 K2 hK w
    simp only [solve]
    exact below_iteR hP
      (solve_below P hP q q' hq env c (d+1) _ _ (fun w' => below_thenSig (solve_below P hP q q' hq env t d K1 K2 hK w') _) w) d
      (fun w' => Or.inr rfl)
  | .neg a, d => by
    intro K1 K2 hK w
    simp only [solve]
    exact below_iteR hP (solve_below P hP q q' hq env a (d+1) _ _ (fun w' => Or.inr rfl) w) d hK

/-! ### clause activation -/

theorem runClauses_below {α : Type} (P : Sig → Prop) (run run' : α → Gen) (hrun : ∀ c, GenBelowP P (run c) (run' c)) :
    ∀ cs, GenBelowP P (runClauses run cs) (runClauses run' cs) := by
  intro cs
  induction cs with
  | nil => intro K1 K2 _ w; simp only [runClauses]; exact Or.inr rfl
  | cons c cs ih =>
    intro K1 K2 hK w
    simp only [runClauses]
    exact below_andThen (hrun c K1 K2 hK w) (fun w' => ih K1 K2 hK w')

theorem unifyHead_below (P : Sig → Prop) (hP : OofLike P) (fuel : Nat) (env : Env) (args : List Term) (g g' : Gen)
    (hg : GenBelowP P g g') :
    ∀ us, GenBelowP P (unifyHead fuel env args us g) (unifyHead (fuel+1) env args us g') := by
  intro us
  induction us with
  | nil => simpa [unifyHead] using hg
  | cons u us ih =>
    obtain ⟨i, t⟩ := u
    intro K1 K2 hK w
    simp only [unifyHead]
    exact unify_below P hP fuel _ _ _ _ (fun w' => ih K1 K2 hK w') w

theorem runClauseCompiled_below (P : Sig → Prop) (hP : OofLike P) (fuel : Nat) (q q' : Q) (hq : QBelowP P q q')
    (cc : ClauseCode) (args : List Term) :
    GenBelowP P (runClauseCompiled fuel q cc args) (runClauseCompiled (fuel+1) q' cc args) := by
  intro K1 K2 hK w
  unfold runClauseCompiled
  simp only
  exact unifyHead_below P hP fuel _ args _ _ ((exec_below P hP q q' hq _).2 _) _ K1 K2 hK _

theorem runClauseRef_below (P : Sig → Prop) (hP : OofLike P) (fuel : Nat) (q q' : Q) (hq : QBelowP P q q')
    (c : Clause) (args : List Term) :
    GenBelowP P (runClauseRef fuel q c args) (runClauseRef (fuel+1) q' c args) := by
  intro K1 K2 hK w
  unfold runClauseRef
  simp only
  exact unifyHead_below P hP fuel _ args _ _ (solve_below P hP q q' hq _ _ 0) _ K1 K2 hK _

theorem runClauseRefBody_below (P : Sig → Prop) (hP : OofLike P) (fuel : Nat) (q q' : Q) (hq : QBelowP P q q')
    (cc : ClauseCode) (body : Body) (args : List Term) :
    GenBelowP P (runClauseRefBody fuel q cc body args) (runClauseRefBody (fuel+1) q' cc body args) := by
  intro K1 K2 hK w
  unfold runClauseRefBody
  simp only
  exact unifyHead_below P hP fuel _ args _ _ (solve_below P hP q q' hq _ _ 0) _ K1 K2 hK _

theorem onceGen_below (P : Sig → Prop) (hP : OofLike P) (g g' : Gen) (hg : GenBelowP (UpP P) g g') :
    GenBelowP P (onceGen g) (onceGen g') := by
  intro K1 K2 hK w
  unfold onceGen
  apply below_leaveOnce hP
  apply hg
  intro w'
  exact below_thenSig (below_wrapK hK w') _

/-! ### the engine -/

def AllBelow (cfg : Cfg) (f : Nat) : Prop :=
  (∀ P, OofLike P → ∀ name args, GenBelowP P (query cfg f name args) (query cfg (f+1) name args)) ∧
  (∀ P, OofLike P → ∀ ds args, GenBelowP P (runChain cfg f ds args) (runChain cfg (f+1) ds args)) ∧
  (∀ P, OofLike P → ∀ d args, GenBelowP P (runDef cfg f d args) (runDef cfg (f+1) d args)) ∧
  (∀ P, OofLike P → ∀ b args, GenBelowP P (runBuiltin cfg f b args) (runBuiltin cfg (f+1) b args)) ∧
  (∀ P, OofLike P → ∀ g extra, GenBelowP P (callGoal cfg f g extra) (callGoal cfg (f+1) g extra))

theorem allBelow (cfg : Cfg) : ∀ f, AllBelow cfg f := by
  intro f
  induction f with
  | zero =>
    refine ⟨?_, ?_, ?_, ?_, ?_⟩ <;> intro P hP <;> intros <;> intro K1 K2 _ w
    · rw [query]; exact BelowP.sig w hP.oof _
    · rw [runChain]; exact BelowP.sig w hP.oof _
    · rw [runDef]; exact BelowP.sig w hP.oof _
    · rw [runBuiltin]; exact BelowP.sig w hP.oof _
    · rw [callGoal]; exact BelowP.sig w hP.oof _
  | succ f ih =>
    obtain ⟨ihQ, ihC, ihD, ihB, ihG⟩ := ih
    refine ⟨?_, ?_, ?_, ?_, ?_⟩
    · -- query
      intro P hP name args K1 K2 hK w
      rw [query, query]
      refine below_andThen (matchDynamic_below P hP f name args K1 K2 hK w) (fun w' => ?_)
      split
      · exact Or.inr rfl
      · split
        · exact Or.inr rfl
        · exact ihC P hP _ args K1 K2 hK w'
    · -- runChain
      intro P hP ds args K1 K2 hK w
      cases ds with
      | nil => rw [runChain, runChain]; exact Or.inr rfl
      | cons d ds =>
        rw [runChain, runChain]
        exact below_andThen (ihD P hP d args K1 K2 hK w) (fun w' => ihC P hP ds args K1 K2 hK w')
    · -- runDef
      intro P hP d args K1 K2 hK w
      cases d with
      | prolog p mode =>
        simp only [runDef]
        have hq : QBelowP (UpP P) (query cfg f) (query cfg (f+1)) := fun name args => ihQ (UpP P) (UpP_ok P) name args
        cases mode with
        | compiled =>
          simp only
          apply below_leaveFrame hP
          exact runClauses_below (UpP P) _ _ (fun cc => runClauseCompiled_below (UpP P) (UpP_ok P) f _ _ hq cc args) _ _ _ (below_wrapK hK) w
        | reference =>
          simp only
          apply below_leaveFrame hP
          exact runClauses_below (UpP P) _ _ (fun c => runClauseRef_below (UpP P) (UpP_ok P) f _ _ hq c args) _ _ _ (below_wrapK hK) w
        | refbody =>
          simp only
          apply below_leaveFrame hP
          exact runClauses_below (UpP P) _ _ (fun (x : ClauseCode × Clause) => runClauseRefBody_below (UpP P) (UpP_ok P) f _ _ hq x.1 x.2.body args) _ _ _ (below_wrapK hK) w
      | py p => rw [runDef, runDef]; exact runPy_below P hP f _ args _ _ K1 K2 hK w
      | builtin b => rw [runDef, runDef]; exact ihB P hP b args K1 K2 hK w
    · -- runBuiltin
      intro P hP b args K1 K2 hK w
      simp only [runBuiltin]
      split
      · -- "="
        exact unify_below P hP f _ _ K1 K2 hK w
      · -- "\\="
        rename_i a b
        have h := ihQ P hP "=" [a, b] (fun w' => (w', some .stop)) (fun w' => (w', some .stop)) (fun _ => Or.inr rfl) w
        rcases belowCases h with ⟨w', s, e, hs⟩ | e
        · rw [e]
          have : s ≠ .stop := fun h => hP.stop (h ▸ hs)
          cases s <;> first | exact BelowP.sig w' hs _ | exact absurd rfl this
        · rw [← e]
          rcases query cfg f "=" [a, b] (fun w' => (w', some Sig.stop)) w with ⟨w1, o⟩
          cases o with
          | none => exact hK w1
          | some s => cases s <;> exact Or.inr rfl
      · -- call
        exact ihG P hP _ _ K1 K2 hK w
      · -- once
        exact onceGen_below P hP _ _ (ihG (UpP P) (UpP_ok P) _ _) K1 K2 hK w
      · -- findall
        rename_i tmpl g bag
        have h := ihG P hP g [] _ _ (findallCollect_below P hP f tmpl) { w with acc := [] :: w.acc }
        rcases belowCases h with ⟨w', s, e, hs⟩ | e
        · rw [e]; exact Or.inl ⟨s, rfl, hs⟩
        · rw [← e]
          rcases callGoal cfg f g [] (findallCollect f tmpl) { w with acc := [] :: w.acc } with ⟨w1, o⟩
          cases o with
          | none => exact unify_below P hP f _ _ K1 K2 hK _
          | some s => exact Or.inr rfl
      · -- assertz
        rename_i t
        rcases factNameArgs_below f w t with e | e
        · rw [e]; exact BelowP.sig w hP.oof _
        · rw [← e]
          cases factNameArgs f w t with
          | error s => exact Or.inr rfl
          | ok na =>
            obtain ⟨name, as⟩ := na
            simp only
            rcases assertFact_below f name as true w with e' | e'
            · rw [e']; exact BelowP.sig w hP.oof _
            · rw [← e']
              rcases assertFact f name as true w with ⟨w1, o⟩
              cases o with
              | none => exact hK w1
              | some s => exact Or.inr rfl
      · -- asserta
        rename_i t
        rcases factNameArgs_below f w t with e | e
        · rw [e]; exact BelowP.sig w hP.oof _
        · rw [← e]
          cases factNameArgs f w t with
          | error s => exact Or.inr rfl
          | ok na =>
            obtain ⟨name, as⟩ := na
            simp only
            rcases assertFact_below f name as false w with e' | e'
            · rw [e']; exact BelowP.sig w hP.oof _
            · rw [← e']
              rcases assertFact f name as false w with ⟨w1, o⟩
              cases o with
              | none => exact hK w1
              | some s => exact Or.inr rfl
      · -- retract
        rename_i t
        rcases factNameArgs_below f w t with e | e
        · rw [e]; exact BelowP.sig w hP.oof _
        · rw [← e]
          cases factNameArgs f w t with
          | error s => exact Or.inr rfl
          | ok na =>
            obtain ⟨name, as⟩ := na
            exact retractLoop_below P hP f name as _ K1 K2 hK w
      · -- retractall
        rename_i t
        rcases factNameArgs_below f w t with e | e
        · rw [e]; exact BelowP.sig w hP.oof _
        · rw [← e]
          cases factNameArgs f w t with
          | error s => exact Or.inr rfl
          | ok na =>
            obtain ⟨name, as⟩ := na
            simp only
            rcases retractAllLoop_below P hP f as (w.facts name as.length) [] w with ⟨w', s, e', hs⟩ | e'
            · rw [e']; exact BelowP.sig w' hs _
            · rw [← e']
              rcases retractAllLoop f as (w.facts name as.length) [] w with ⟨w1, (s | keep)⟩
              · exact Or.inr rfl
              · exact hK _
      · -- wrong number of arguments
        exact Or.inr rfl
    · -- callGoal
      intro P hP g extra K1 K2 hK w
      rw [callGoal, callGoal]
      cases h : walk w.b (f+1) g with
      | none => exact BelowP.sig w hP.oof _
      | some a =>
        rw [walk_mono _ _ _ _ h]
        cases a with
        | var n => exact Or.inr rfl
        | atom s => exact ihQ P hP _ _ K1 K2 hK w
        | int i => exact Or.inr rfl
        | fn name as => exact ihQ P hP _ _ K1 K2 hK w

/-! ### the statements for the plain `oof` -/

theorem oofOnly_ok : OofLike (fun s => s = Sig.oof) where
  oof := rfl
  ret := by intro h; cases h
  brk := by intro l h; cases h
  commit := by intro d h; cases h
  stop := by intro h; cases h

theorem below_iff (r r' : R) : Below r r' ↔ BelowP (fun s => s = Sig.oof) r r' := by
  constructor
  · rintro (h | h)
    · exact Or.inl ⟨_, h, rfl⟩
    · exact Or.inr h
  · rintro (⟨s, h, rfl⟩ | h)
    · exact Or.inl h
    · exact Or.inr h

/-- **The engine is monotone in the fuel.** -/
theorem query_fuel_mono (cfg : Cfg) (f : Nat) (name : String) (args : List Term) :
    GenBelow (query cfg f name args) (query cfg (f + 1) name args) := by
  intro K1 K2 hK w
  exact (below_iff _ _).mpr
    ((allBelow cfg f).1 _ oofOnly_ok name args K1 K2 (fun w' => (below_iff _ _).mp (hK w')) w)

/-- A query that does not run out of fuel gives the identical result at the next fuel … -/
theorem query_fuel_stable (cfg : Cfg) (f : Nat) (name : String) (args : List Term) (k : K) (w : World)
    (h : (query cfg f name args k w).2 ≠ some .oof) :
    query cfg (f + 1) name args k w = query cfg f name args k w := by
  rcases query_fuel_mono cfg f name args k k (fun _ => Or.inr rfl) w with h' | h'
  · exact absurd h' h
  · exact h'.symm

/-- … and at every larger fuel. -/
theorem query_fuel_stable_le (cfg : Cfg) (f f' : Nat) (hle : f ≤ f') (name : String) (args : List Term) (k : K) (w : World)
    (h : (query cfg f name args k w).2 ≠ some .oof) :
    query cfg f' name args k w = query cfg f name args k w := by
  induction hle with
  | refl => rfl
  | @step n _ ih =>
    have h' : (query cfg n name args k w).2 ≠ some .oof := by rw [ih]; exact h
    rw [query_fuel_stable cfg n name args k w h', ih]

end Yld

namespace Yld

/-! ### At the API: `YP.query` / `evaluate_bounded` with the recording consumer -/

theorem topConsumer_below (f : Nat) (args : List Term) (sched : Sched) :
    KBelow (topConsumer f args sched) (topConsumer (f + 1) args sched) := by
  intro w
  unfold topConsumer
  cases h : args.mapM (resolve w.b f) with
  | none => exact Or.inl rfl
  | some vs =>
    have := mapM_opt_mono (g := resolve w.b f) (g' := resolve w.b (f+1)) args vs
      (fun t _ a ha => resolve_mono w.b f t a ha) h
    rw [this]
    exact Or.inr rfl

/-- **A search that completes within the limit is independent of the limit**: if a query run with
    limit `f` and the recording consumer (all answers, stop after k, raise at k) does not end by
    running out of the limit, the run with limit `f+1` is the same run — the same answers in the
    same order, the same final store and bindings, the same ending. -/
theorem engine_query_fuel_stable (e : Engine) (mode : Mode) (f : Nat) (name : String) (args : List Term) (sched : Sched)
    (h : (e.query mode f name args sched).2.ending ≠ some .oof) :
    e.query mode (f + 1) name args sched = e.query mode f name args sched := by
  unfold Engine.query at h ⊢
  simp only [Bool.false_eq_true, if_false] at h ⊢
  cases sched with
  | all =>
    simp only at h ⊢
    have hb := query_fuel_mono { blacklist := e.blacklist, defs := e.defs, mode := mode } f name args
      _ _ (topConsumer_below f args .all) { e.w with acc := [] :: e.w.acc, cyc := false }
    rcases hb with hb | hb
    · exact absurd hb h
    · rw [hb]
  | stop k =>
    cases k with
    | zero => rfl
    | succ k =>
      simp only at h ⊢
      have hb := query_fuel_mono { blacklist := e.blacklist, defs := e.defs, mode := mode } f name args
        _ _ (topConsumer_below f args (.stop (k+1))) { e.w with acc := [] :: e.w.acc, cyc := false }
      rcases hb with hb | hb
      · exact absurd hb h
      · rw [hb]
  | raise k =>
    cases k with
    | zero => rfl
    | succ k =>
      simp only at h ⊢
      have hb := query_fuel_mono { blacklist := e.blacklist, defs := e.defs, mode := mode } f name args
        _ _ (topConsumer_below f args (.raise (k+1))) { e.w with acc := [] :: e.w.acc, cyc := false }
      rcases hb with hb | hb
      · exact absurd hb h
      · rw [hb]

end Yld
