/-
  Interleaving, stage 4: the builtins and the whole engine, by induction on the fuel.
  Both sides run the same definitions with the same fuel; the definitions may be of any mode.
-/
import Yld.Proofs.IlClause
set_option linter.unusedSimpArgs false
set_option linter.unusedVariables false
namespace Yld

/-- `call/N` respects the relation -/
def CallIl (F : Nat → Prop) (d : Nat) (cg : Term → List Term → Gen) : Prop :=
  ∀ (g : Term) (extra : List Term) (ρ : Nat → Nat) (w1 w2 : World) (k1 k2 : K), IlEnv F ρ d w1 w2 → Own w1.next g →
    OwnL w1.next extra → IlK F ρ w1.next d k1 k2 →
    IlRes F ρ w1.next d (cg g extra k1 w1) (cg (g.rename ρ) (extra.map (Term.rename ρ)) k2 w2)

theorem forall2_map_rename (ρ : Nat → Nat) : ∀ (args : List Term),
    Forall₂ (fun a b => b = Term.rename ρ a) args (args.map (Term.rename ρ))
  | [] => .nil
  | a :: as => .cons rfl (forall2_map_rename ρ as)

theorem forall2_eq_map_rename {ρ : Nat → Nat} {as bs : List Term}
    (h : Forall₂ (fun a b => b = Term.rename ρ a) as bs) : bs = as.map (Term.rename ρ) := by
  induction h with
  | nil => rfl
  | cons e _ ih => rw [e, ih]; rfl

section
variable {F : Nat → Prop}

theorem ilK_probe {d : Nat} (ρ : Nat → Nat) (n : Nat) (s : Sig) :
    IlK F ρ n d (fun w' => (w', some s)) (fun w' => (w', some s)) := fun ρ' v1 v2 _ _ he => IlRes.same he _

theorem neq_il {d : Nat} {ρ : Nat → Nat} {n : Nat} {k1 k2 : K} {r1 r2 : R} (hk : IlK F ρ n d k1 k2)
    (hr : IlRes F ρ n d r1 r2) :
    IlRes F ρ n d
      (match (generalizing := false) r1 with
        | (w', some .stop) => (w', none)
        | (w', none) => k1 w'
        | r => r)
      (match (generalizing := false) r2 with
        | (w', some .stop) => (w', none)
        | (w', none) => k2 w'
        | r => r) := by
  obtain ⟨v1, v2, o, ρ', rfl, rfl, hag, hn, he⟩ := ilCases hr
  cases o with
  | none => exact (hk ρ' v1 v2 hag hn he).weaken hag hn
  | some s =>
    cases s with
    | stop => exact hr.mapSig _
    | _ => exact hr

theorem findall_il {d : Nat} (f : Nat) {cg : Term → List Term → Gen} (hG : CallIl F (d+1) cg) {ρ : Nat → Nat}
    {w1 w2 : World} {tmpl g bag : Term} {k1 k2 : K} (h : IlEnv F ρ d w1 w2) (ht : Own w1.next tmpl) (hg : Own w1.next g)
    (hb : Own w1.next bag) (hk : IlK F ρ w1.next d k1 k2) :
    IlRes F ρ w1.next d
      (match cg g [] (findallCollect f tmpl) { w1 with acc := [] :: w1.acc } with
        | (w', none) => unify f bag (mkList (w'.acc.headD [])) k1 { w' with acc := w'.acc.tail }
        | (w', s) => ({ w' with acc := w'.acc.tail }, s))
      (match cg (g.rename ρ) [] (findallCollect f (tmpl.rename ρ)) { w2 with acc := [] :: w2.acc } with
        | (w', none) => unify f (bag.rename ρ) (mkList (w'.acc.headD [])) k2 { w' with acc := w'.acc.tail }
        | (w', s) => ({ w' with acc := w'.acc.tail }, s)) := by
  have hr := hG g [] ρ { w1 with acc := [] :: w1.acc } { w2 with acc := [] :: w2.acc } _ _ h.push hg (ownL_nil _)
    (findallCollect_il f ht)
  simp only [List.map_nil] at hr
  generalize cg g [] (findallCollect f tmpl) { w1 with acc := [] :: w1.acc } = r1 at hr
  generalize cg (g.rename ρ) [] (findallCollect f (tmpl.rename ρ)) { w2 with acc := [] :: w2.acc } = r2 at hr
  obtain ⟨v1, v2, o, ρ', rfl, rfl, hag, hn, he⟩ := ilCases hr
  obtain ⟨hp, hfr⟩ := he.pop
  cases o with
  | some s => exact ⟨rfl, ρ', hag, hn, hp⟩
  | none =>
    simp only
    have hu := unify_il f bag (mkList (v1.acc.headD [])) ρ' { v1 with acc := v1.acc.tail } { v2 with acc := v2.acc.tail }
      k1 k2 hp (hb.mono hn) (own_mkList hfr.2) (hk.mono hag hn)
    rw [rename_agree hag hb, mkList_rename, ← hfr.1] at hu
    exact hu.weaken hag hn

theorem assert_il {d : Nat} (f : Nat) (app : Bool) {ρ : Nat → Nat} {w1 w2 : World} {t : Term} {k1 k2 : K}
    (h : IlEnv F ρ d w1 w2) (ht : Own w1.next t) (hk : IlK F ρ w1.next d k1 k2) :
    IlRes F ρ w1.next d
      (match factNameArgs f w1 t with
        | .error s => (w1, some s)
        | .ok (name, as) =>
            match assertFact f name as app w1 with
            | (w', none) => k1 w'
            | r => r)
      (match factNameArgs f w2 (t.rename ρ) with
        | .error s => (w2, some s)
        | .ok (name, as) =>
            match assertFact f name as app w2 with
            | (w', none) => k2 w'
            | r => r) := by
  rcases factNameArgs_il h f ht with ⟨s, e1, e2⟩ | ⟨g, as, e1, e2, ho⟩
  · rw [e1, e2]; exact IlRes.same h _
  · rw [e1, e2]
    simp only
    exact il_andThen (assertFact_il f g app h ho) hk

theorem retract_il {d : Nat} (f : Nat) {ρ : Nat → Nat} {w1 w2 : World} {t : Term} {k1 k2 : K}
    (h : IlEnv F ρ d w1 w2) (ht : Own w1.next t) (hk : IlK F ρ w1.next d k1 k2) :
    IlRes F ρ w1.next d
      (match factNameArgs f w1 t with
        | .error s => (w1, some s)
        | .ok (name, as) => retractLoop f name as (w1.facts name as.length) k1 w1)
      (match factNameArgs f w2 (t.rename ρ) with
        | .error s => (w2, some s)
        | .ok (name, as) => retractLoop f name as (w2.facts name as.length) k2 w2) := by
  rcases factNameArgs_il h f ht with ⟨s, e1, e2⟩ | ⟨g, as, e1, e2, ho⟩
  · rw [e1, e2]; exact IlRes.same h _
  · rw [e1, e2]
    simp only
    rw [List.length_map, facts_eq h.db]
    exact retractLoop_il f g _ (facts_closed h.closed _ _) as ρ w1 w2 k1 k2 h ho hk

theorem retractall_il {d : Nat} (f : Nat) {ρ : Nat → Nat} {w1 w2 : World} {t : Term} {k1 k2 : K}
    (h : IlEnv F ρ d w1 w2) (ht : Own w1.next t) (hk : IlK F ρ w1.next d k1 k2) :
    IlRes F ρ w1.next d
      (match factNameArgs f w1 t with
        | .error s => (w1, some s)
        | .ok (name, as) =>
            match retractAllLoop f as (w1.facts name as.length) [] w1 with
            | (w', .ok keep) => k1 (w'.setFacts name as.length keep)
            | (w', .error s) => (w', some s))
      (match factNameArgs f w2 (t.rename ρ) with
        | .error s => (w2, some s)
        | .ok (name, as) =>
            match retractAllLoop f as (w2.facts name as.length) [] w2 with
            | (w', .ok keep) => k2 (w'.setFacts name as.length keep)
            | (w', .error s) => (w', some s)) := by
  rcases factNameArgs_il h f ht with ⟨s, e1, e2⟩ | ⟨g, as, e1, e2, ho⟩
  · rw [e1, e2]; exact IlRes.same h _
  · rw [e1, e2]
    simp only
    rw [List.length_map, facts_eq h.db]
    have hcl := facts_closed h.closed g as.length
    have hr := retractAllLoop_il f (w1.facts g as.length) hcl [] ρ w1 w2 as h ho
    cases hx1 : retractAllLoop f as (w1.facts g as.length) [] w1 with
    | mk v1 x1 =>
      cases hx2 : retractAllLoop f (as.map (Term.rename ρ)) (w1.facts g as.length) [] w2 with
      | mk v2 x2 =>
        rw [hx1, hx2] at hr
        obtain ⟨e, ρ', hag, hn, he⟩ := hr
        simp only at e hag hn he
        subst e
        cases x2 with
        | error s => exact ⟨rfl, ρ', hag, hn, he⟩
        | ok keep =>
          simp only
          obtain ⟨sub, hk', hsl⟩ := retractAll_keeps_sublist f as _ [] w1 v1 keep hx1
          have hkeep : ∀ c ∈ keep, FactClosed c := by
            intro c hc
            rw [hk'] at hc
            exact hcl c (hsl.subset (by simpa using hc))
          have := hk ρ' _ _ hag (by rw [setFacts_next]; exact hn) (he.setFacts g as.length hkeep)
          rw [setFacts_next] at this
          exact this.weaken hag hn

/-- **The builtins**, given `query` and `call` one level below. -/
theorem builtin_il (cfg : Cfg) (f : Nat) (ihQ : ∀ d name, ArgsIl F d (query cfg f name))
    (ihG : ∀ d, CallIl F d (callGoal cfg f)) (d : Nat) (b : String) : ArgsIl F d (runBuiltin cfg (f+1) b) := by
  intro args ρ w1 w2 k1 k2 h ha hk
  have hmap := forall2_map_rename ρ args
  generalize args.map (Term.rename ρ) = args2 at hmap
  simp only [runBuiltin]
  split
  case h_1 =>
    cases hmap with
    | cons h1 hmap =>
      cases hmap with
      | cons h2 hmap =>
        cases hmap; subst h1 h2
        simp only
        obtain ⟨ha1, ha⟩ := ownL_cons.mp ha
        obtain ⟨ha2, _⟩ := ownL_cons.mp ha
        exact unify_il f _ _ ρ w1 w2 k1 k2 h ha1 ha2 hk
  case h_2 =>
    cases hmap with
    | cons h1 hmap =>
      cases hmap with
      | cons h2 hmap =>
        cases hmap; subst h1 h2
        simp only
        exact neq_il hk (ihQ d "=" _ ρ w1 w2 _ _ h ha (ilK_probe ρ _ .stop))
  case h_3 =>
    cases hmap with
    | cons h1 hmap =>
      subst h1
      simp only
      obtain ⟨ha1, ha⟩ := ownL_cons.mp ha
      have e := forall2_eq_map_rename hmap
      subst e
      exact ihG d _ _ ρ w1 w2 k1 k2 h ha1 ha hk
  case h_4 =>
    cases hmap with
    | cons h1 hmap =>
      cases hmap; subst h1
      simp only
      obtain ⟨ha1, _⟩ := ownL_cons.mp ha
      exact onceGen_il (fun k1' k2' hk' => ihG d _ [] ρ w1 w2 k1' k2' h ha1 (ownL_nil _) hk') hk
  case h_5 =>
    cases hmap with
    | cons h1 hmap =>
      cases hmap with
      | cons h2 hmap =>
        cases hmap with
        | cons h3 hmap =>
          cases hmap; subst h1 h2 h3
          simp only
          obtain ⟨ha1, ha⟩ := ownL_cons.mp ha
          obtain ⟨ha2, ha⟩ := ownL_cons.mp ha
          obtain ⟨ha3, _⟩ := ownL_cons.mp ha
          exact findall_il f (ihG (d+1)) h ha1 ha2 ha3 hk
  case h_6 =>
    cases hmap with
    | cons h1 hmap =>
      cases hmap; subst h1
      simp only
      exact assert_il f true h (ownL_cons.mp ha).1 hk
  case h_7 =>
    cases hmap with
    | cons h1 hmap =>
      cases hmap; subst h1
      simp only
      exact assert_il f false h (ownL_cons.mp ha).1 hk
  case h_8 =>
    cases hmap with
    | cons h1 hmap =>
      cases hmap; subst h1
      simp only
      exact retract_il f h (ownL_cons.mp ha).1 hk
  case h_9 =>
    cases hmap with
    | cons h1 hmap =>
      cases hmap; subst h1
      simp only
      exact retractall_il f h (ownL_cons.mp ha).1 hk
  case h_10 =>
    rename_i h1 h2 h3 h4 h5 h6 h7 h8 h9
    split
    case h_10 => exact IlRes.same h _
    case h_1 =>
      cases hmap with
      | cons _ hmap => cases hmap with | cons _ hmap => cases hmap; exact (h1 _ _ rfl rfl).elim
    case h_2 =>
      cases hmap with
      | cons _ hmap => cases hmap with | cons _ hmap => cases hmap; exact (h2 _ _ rfl rfl).elim
    case h_3 =>
      cases hmap with
      | cons _ hmap => exact (h3 _ _ rfl rfl).elim
    case h_4 =>
      cases hmap with
      | cons _ hmap => cases hmap; exact (h4 _ rfl rfl).elim
    case h_5 =>
      cases hmap with
      | cons _ hmap =>
        cases hmap with
        | cons _ hmap => cases hmap with | cons _ hmap => cases hmap; exact (h5 _ _ _ rfl rfl).elim
    case h_6 =>
      cases hmap with
      | cons _ hmap => cases hmap; exact (h6 _ rfl rfl).elim
    case h_7 =>
      cases hmap with
      | cons _ hmap => cases hmap; exact (h7 _ rfl rfl).elim
    case h_8 =>
      cases hmap with
      | cons _ hmap => cases hmap; exact (h8 _ rfl rfl).elim
    case h_9 =>
      cases hmap with
      | cons _ hmap => cases hmap; exact (h9 _ rfl rfl).elim

/-! ### the engine -/

def AllIl (cfg : Cfg) (F : Nat → Prop) (f : Nat) : Prop :=
  (∀ d name, ArgsIl F d (query cfg f name)) ∧
  (∀ d (chain : List Def), (∀ x ∈ chain, DefRowsClosed x) → ArgsIl F d (runChain cfg f chain)) ∧
  (∀ d (x : Def), DefRowsClosed x → ArgsIl F d (runDef cfg f x)) ∧
  (∀ d b, ArgsIl F d (runBuiltin cfg f b)) ∧
  (∀ d, CallIl F d (callGoal cfg f))

theorem allIl (cfg : Cfg) (hdefs : DefsRowsClosed cfg.defs) : ∀ f, AllIl cfg F f := by
  intro f
  induction f with
  | zero =>
    refine ⟨?_, ?_, ?_, ?_, ?_⟩
    · intro d name args ρ w1 w2 k1 k2 h _ _; rw [query, query]; exact IlRes.same h _
    · intro d chain _ args ρ w1 w2 k1 k2 h _ _; rw [runChain, runChain]; exact IlRes.same h _
    · intro d x _ args ρ w1 w2 k1 k2 h _ _; rw [runDef, runDef]; exact IlRes.same h _
    · intro d b args ρ w1 w2 k1 k2 h _ _; rw [runBuiltin, runBuiltin]; exact IlRes.same h _
    · intro d g extra ρ w1 w2 k1 k2 h _ _ _; rw [callGoal, callGoal]; exact IlRes.same h _
  | succ f ih =>
    obtain ⟨ihQ, ihC, ihD, ihB, ihG⟩ := ih
    refine ⟨?_, ?_, ?_, ?_, ?_⟩
    · -- query
      intro d name args ρ w1 w2 k1 k2 h ha hk
      rw [query, query]
      have hm := matchDynamic_il f name args ρ w1 w2 k1 k2 h ha hk
      obtain ⟨v1, v2, o, ρ', e1, e2, hag, hn, he⟩ := ilCases hm
      rw [e1, e2] at hm
      simp only [e1, e2, List.length_map]
      cases o with
      | some s => exact hm
      | none =>
        simp only
        split
        · exact hm
        · cases hch : (cfg.defs.get (predKey name args.length)).orElse (fun _ => cfg.defs.get (variadicKey name)) with
          | none => exact hm
          | some chain =>
            simp only
            have hmem : ∃ key, (key, chain) ∈ cfg.defs := by
              cases h1 : cfg.defs.get (predKey name args.length) with
              | some c1 =>
                rw [h1] at hch; simp [Option.orElse] at hch; subst hch
                exact ⟨_, get_mem cfg.defs _ _ h1⟩
              | none =>
                rw [h1] at hch; simp [Option.orElse] at hch
                exact ⟨_, get_mem cfg.defs _ _ hch⟩
            obtain ⟨key, hmk⟩ := hmem
            have := ihC d chain (fun x hx => hdefs _ hmk x hx) args ρ' v1 v2 k1 k2 he (ha.mono hn) (hk.mono hag hn)
            rw [map_rename_agree hag ha] at this
            exact this.weaken hag hn
    · -- runChain
      intro d chain hok args ρ w1 w2 k1 k2 h ha hk
      cases chain with
      | nil => simp only [runChain]; exact IlRes.same h none
      | cons x rest =>
        simp only [runChain]
        exact il_andThen (ihD d x (hok x (by simp)) args ρ w1 w2 k1 k2 h ha hk)
          ((ihC d rest (fun y hy => hok y (by simp [hy]))).asK ha hk)
    · -- runDef
      intro d x hok args ρ w1 w2 k1 k2 h ha hk
      have hq : IlQ F (query cfg f) := fun d name => ihQ d name
      cases x with
      | prolog p mode =>
        simp only [runDef]
        cases mode with
        | compiled =>
          simp only
          exact il_leaveFrame (runClauses_il (fun cc args => runClauseCompiled f (query cfg f) cc args)
            (fun cc => runClauseCompiled_il f _ hq cc) _ args ρ w1 w2 _ _ h ha (il_wrapK hk))
        | reference =>
          simp only
          exact il_leaveFrame (runClauses_il (fun c args => runClauseRef f (query cfg f) c args)
            (fun c => runClauseRef_il f _ hq c) _ args ρ w1 w2 _ _ h ha (il_wrapK hk))
        | refbody =>
          simp only
          exact il_leaveFrame (runClauses_il
            (fun (x : ClauseCode × Clause) args => runClauseRefBody f (query cfg f) x.1 x.2.body args)
            (fun x => runClauseRefBody_il f _ hq x.1 x.2.body) _ args ρ w1 w2 _ _ h ha (il_wrapK hk))
      | py p =>
        simp only [runDef]
        exact runPy_il f p.raiseAt p.rows hok 0 args ρ w1 w2 k1 k2 h ha hk
      | builtin b =>
        simp only [runDef]
        exact ihB d b args ρ w1 w2 k1 k2 h ha hk
    · -- runBuiltin
      exact builtin_il cfg f ihQ ihG
    · -- callGoal
      intro d g extra ρ w1 w2 k1 k2 h hg hx hk
      rw [callGoal, callGoal, walk_il h _ g hg]
      cases hw : walk w1.b (f+1) g with
      | none => exact IlRes.same h _
      | some a =>
        have ho := walk_own h _ g a hg hw
        simp only [Option.map]
        cases a with
        | var x => simp only [rename_var]; exact IlRes.same h _
        | atom s => simp only [rename_atom]; exact ihQ d s extra ρ w1 w2 k1 k2 h hx hk
        | int i => simp only [rename_int]; exact IlRes.same h _
        | fn name as =>
          simp only [rename_fn]
          rw [← List.map_append]
          exact ihQ d name (as ++ extra) ρ w1 w2 k1 k2 h (ownL_append (own_fn.mp ho) hx) hk

/-- **The general theorem.**  Run a query in two worlds of which the second is the first seen through an
    injective renaming `ρ` of cells, plus foreign cells (`IlEnv`), with consumers that simulate each
    other modulo such environments (`IlK`: whenever they are called in related worlds, under any
    extension of `ρ`, they answer with the same signal and leave related worlds — the consumer of side 2
    may for instance allocate cells and rebind foreign cells).  Then the two runs end with the same
    signal and leave related worlds: same fact store, same stamp, same ghost flag, related stacks of
    result lists, and the cells of side 1 correspond to their images under an extension of `ρ` that is
    `ρ` on the cells that existed at the start. -/
theorem query_env (cfg : Cfg) (hdefs : DefsRowsClosed cfg.defs) (F : Nat → Prop) (f : Nat) (name : String)
    (args : List Term) (d : Nat) (ρ : Nat → Nat) (w1 w2 : World) (k1 k2 : K) (h : IlEnv F ρ d w1 w2)
    (ha : OwnL w1.next args) (hk : IlK F ρ w1.next d k1 k2) :
    IlRes F ρ w1.next d (query cfg f name args k1 w1) (query cfg f name (args.map (Term.rename ρ)) k2 w2) :=
  (allIl cfg hdefs f).1 d name args ρ w1 w2 k1 k2 h ha hk

end

end Yld
