/-
  Completeness for consumers that record (C01, completeness at the API), stage 2: the top-level
  consumer of the API is such a consumer.

  `Covered inst w`: one of the answers on top of the stack of result lists of `w` has the instance
  `inst`.  This is a property of `acc` only; `topConsumer … .all` keeps it (the top list only grows,
  `topConsumer_ext`), and called at a world whose heap has a solution `θ'` equal to `θ` on the cells of
  the goal it either runs out of fuel (`resolve`) or records `$ans(canonVars vs)`, `vs` the resolved
  arguments: `vs[θ'] = args[θ'] = args[θ]` (`resolve_subst`), and `canonVars` is a renaming that `θ'`
  can be read through (`canonVars_cover`).
-/
import Yld.Proofs.LcRecord
import Yld.Proofs.LgApi
import Yld.Proofs.Prefix
set_option linter.unusedSimpArgs false
set_option linter.unusedVariables false
namespace Yld
namespace Lg

/-- one of the recorded answers has the instance `inst` -/
def Covered (inst : List Term) (w : World) : Prop :=
  ∃ ans ∈ w.acc.headD [], ∃ ts, ans = .fn "$ans" ts ∧ ∃ ρ : Nat → Term, ts.map (Term.subst ρ) = inst

theorem covered_accOnly (inst : List Term) : AccOnly (Covered inst) := by
  intro w w' h hp
  unfold Covered at hp ⊢
  rw [h]; exact hp

/-- every instance of the resolved terms is an instance of their canonical form -/
theorem canonVars_cover (vs : List Term) (θ : Val) :
    ∃ ρ : Val, (canonVars vs).1.map (Term.subst ρ) = vs.map (Term.subst θ) := by
  refine ⟨fun i => θ (((vs.map Term.vars).flatten.eraseDups).getD i 0), ?_⟩
  rw [canonVars_subst]
  apply List.map_congr_left
  intro v hv
  apply subst_congr
  intro x hx
  have hm : x ∈ (vs.map Term.vars).flatten.eraseDups :=
    List.mem_eraseDups.mpr (List.mem_flatten.mpr ⟨v.vars, List.mem_map.mpr ⟨v, hv, rfl⟩, hx⟩)
  have hlt := List.idxOf_lt_length_of_mem hm
  show θ (((vs.map Term.vars).flatten.eraseDups).getD (((vs.map Term.vars).flatten.eraseDups).idxOf x) 0) = θ x
  rw [List.getD_eq_getElem?_getD, List.getElem?_eq_getElem hlt]
  simp

/-- what the collecting consumer records where the instance `θ` of the goal is reached -/
theorem topConsumer_covers (f : Nat) (args : List Term) (θ θ' : Val) (n : Nat) (ha : OwnL n args)
    (hag : ∀ x, x < n → θ' x = θ x) (w : World) (hs : Solves θ' w.b) :
    Done (Covered (args.map (Term.subst θ))) (topConsumer f args .all w) := by
  unfold topConsumer
  cases hm : args.mapM (resolve w.b f) with
  | none => exact Done.of_sig _ _
  | some vs =>
    obtain ⟨ρ, hρ⟩ := canonVars_cover vs θ'
    have e1 : args.map (Term.subst θ') = vs.map (Term.subst θ') := mapM_resolve_subst hs args vs hm
    have e2 : args.map (Term.subst θ') = args.map (Term.subst θ) :=
      List.map_congr_left (fun t ht => subst_congr t (fun x hx => hag x (ha t ht x hx)))
    have e : (canonVars vs).1.map (Term.subst ρ) = args.map (Term.subst θ) := by rw [hρ, ← e1, e2]
    simp only
    refine Or.inr ?_
    cases hacc : w.acc with
    | nil => exact ⟨_, by simp, _, rfl, ρ, e⟩
    | cons top rest => exact ⟨_, by simp, _, rfl, ρ, e⟩

theorem topConsumer_keeps (f : Nat) (args : List Term) (sched : Sched) (inst : List Term) :
    KRelP (KeepRel (Covered inst)) (topConsumer f args sched) := by
  intro w ⟨ans, hans, h⟩
  exact ⟨ans, (LevelPre.headD (topConsumer_ext f args sched w)).subset hans, h⟩

theorem topConsumer_recs (f : Nat) (args : List Term) (θ : Val) (n : Nat) (ha : OwnL n args) :
    Recs (Covered (args.map (Term.subst θ))) θ n (topConsumer f args .all) :=
  ⟨⟨(topConsumer_qk f args .all).b, (topConsumer_qk f args .all).db, (topConsumer_qk f args .all).next, False.elim⟩,
   topConsumer_keeps f args .all _,
   fun w' _ _ ⟨θ', hag, hs⟩ => topConsumer_covers f args θ θ' n ha hag w' hs⟩

/-- **Completeness of the recorded answers, for the ranked meaning of goals**: a run of the collecting
    consumer that ends normally has recorded an answer of which `args[θ]` is an instance. -/
theorem answers_complete {U : String → Bool} {cfg : Cfg} {preds : List Pred} (hc : HC U cfg preds)
    (hnc : ∀ p ∈ preds, ∀ c ∈ p.clauses, nocut c.body = true) (f : Nat) {name : String} (hU : U name = true)
    (args : List Term) (w0 : World) (hg : Good False w0) (ha : OwnL w0.next args) (θ : Val) (hθ : Solves θ w0.b)
    (r : Nat) (hr : HN preds r name (args.map (Term.subst θ)))
    (hend : (query cfg f name args (topConsumer f args .all) w0).2 = none) :
    Covered (args.map (Term.subst θ)) (query cfg f name args (topConsumer f args .all) w0).1 := by
  rcases query_rec_all hc hnc (covered_accOnly _) r f name hU args w0 θ _ hg ha hθ hr
    (topConsumer_recs f args θ w0.next ha) with h | h
  · exact absurd hend h
  · exact h

end Lg
end Yld
