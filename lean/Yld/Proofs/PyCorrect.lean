/-
  Theorem B: the Python statements printed for a piece of the compiler's IR run, under the
  semantics of `Yld.Model.Py`, exactly as `exec` runs the IR. In particular the flag protocol
  (`cutIf<n> = True; doBreak = True; break` … `if cutIf<n>: doBreak = False` … `if doBreak: break`)
  implements "leave the breakable block labelled n" for every nesting of blocks and loops.
-/
import Yld.Model.Py
import Yld.Proofs.CompCorrect
import Yld.Proofs.Parametric
import Std.Data.String.ToNat
namespace Yld

/-! ### Unfolding lemmas for the Python semantics -/

section unfold
variable (q : Q) (u : Term → Term → Gen) (k : K) (σ : PyLoc) (w : World)

theorem pyStmts_nil : pyStmts q u [] k σ w = (σ, w, .norm) := by rw [pyStmts]
theorem pyStmts_nil' : pyStmts q u [] k σ w = (σ, w, .norm) := by rw [pyStmts]

theorem pyStmts_cons (s : PStmt) (ss : List PStmt) :
    pyStmts q u (s :: ss) k σ w = seqPy (fun σ' w' => pyStmts q u ss k σ' w') (pyStmt q u s k σ w) := by
  rw [pyStmts]

theorem pyStmts_append (a b : List PStmt) :
    pyStmts q u (a ++ b) k σ w = seqPy (fun σ' w' => pyStmts q u b k σ' w') (pyStmts q u a k σ w) := by
  induction a generalizing σ w with
  | nil => simp [pyStmts_nil]
  | cons s ss ih =>
    rw [List.cons_append, pyStmts_cons, pyStmts_cons]
    rcases pyStmt q u s k σ w with ⟨σ', w', c⟩
    cases c <;> simp [ih]

theorem py_assign_fls (x : String) : pyStmt q u (.assign x .fls) k σ w = ((σ.1, σ.2.set x false), w, .norm) := by rw [pyStmt]; rfl
theorem py_assign_tru (x : String) : pyStmt q u (.assign x .tru) k σ w = ((σ.1, σ.2.set x true), w, .norm) := by rw [pyStmt]; rfl
theorem py_if_name (x : String) (body : List PStmt) :
    pyStmt q u (.ifS (.name x) body) k σ w = ifFlag (σ.2.get x) (pyStmts q u body k σ w) σ w := by rw [pyStmt]
theorem py_yield (e : PExpr) : pyStmt q u (.yieldS e) k σ w = yieldPy σ (k w) := by rw [pyStmt]
theorem py_return : pyStmt q u .returnS k σ w = (σ, w, .ret) := by rw [pyStmt]
theorem py_break : pyStmt q u .breakS k σ w = (σ, w, .brk) := by rw [pyStmt]
theorem py_pass : pyStmt q u .passS k σ w = (σ, w, .norm) := by rw [pyStmt]
theorem py_for_one (v : String) (e : PExpr) (body : List PStmt) :
    pyStmt q u (.forIn v (.list [e]) body) k σ w = catchBreak (pyStmts q u body k σ w) := by rw [pyStmt]
theorem py_for_gen (v f : String) (args : List PExpr) (g : Gen) (h : loopGen q u σ.1 f args = some g) (body : List PStmt) :
    pyStmt q u (.forIn v (.call f args) body) k σ w =
      loopEnd (g (fun w1 => bodyAnswer (pyStmts q u body k w1.pop.1 w1.pop.2)) (w.push σ)) := by
  rw [pyStmt]; simp [h]
end unfold

/-! ### Flag names -/

theorem labelName_ne_doBreak (l : Nat) : labelName l ≠ "doBreak" := by
  intro h
  have := congrArg String.toList h
  simp [labelName, String.toList_append] at this

theorem labelName_inj {a b : Nat} (h : labelName a = labelName b) : a = b := by
  have h' := congrArg String.toList h
  simp only [labelName, String.toList_append, List.append_cancel_left_eq] at h'
  exact Nat.repr_injective (String.toList_inj.mp h')

@[simp] theorem PyFlags.get_set_same (σ : PyFlags) (x : String) (v : Bool) : (σ.set x v).get x = some v := by
  simp [PyFlags.get, PyFlags.set, List.lookup]
theorem PyFlags.get_set_other (σ : PyFlags) (x y : String) (v : Bool) (h : y ≠ x) : (σ.set x v).get y = σ.get y := by
  simp only [PyFlags.get, PyFlags.set, List.lookup]
  have : (y == x) = false := by simpa using h
  simp [this]

/-! ### Constructor expressions evaluate to the terms the IR semantics builds -/

theorem expr_fn' (f : String) (args : List STerm) :
    exprOfSTerm (.fn f args) = .call "functor" [.str f, .list (args.map exprOfSTerm)] := by
  simp [exprOfSTerm, List.map_attach_eq_pmap, List.pmap_eq_map]
theorem expr_numfn' (f : String) (args : List STerm) :
    exprOfSTerm (.numfn f args) = .call "functor" [.str f, .list (args.map exprOfSTerm)] := by
  simp [exprOfSTerm, List.map_attach_eq_pmap, List.pmap_eq_map]
theorem expr_list' (i : STerm) (is : List STerm) :
    exprOfSTerm (.list (i :: is)) = .call "makelist" [.list ((i :: is).map exprOfSTerm)] := by
  simp [exprOfSTerm, List.map_attach_eq_pmap, List.pmap_eq_map]
theorem eval_fn' (env : Env) (f : String) (args : List STerm) :
    STerm.eval env (.fn f args) = .fn f (args.map (STerm.eval env)) := by
  simp [STerm.eval, List.map_attach_eq_pmap, List.pmap_eq_map]
theorem eval_numfn' (env : Env) (f : String) (args : List STerm) :
    STerm.eval env (.numfn f args) = .fn f (args.map (STerm.eval env)) := by
  simp [STerm.eval, List.map_attach_eq_pmap, List.pmap_eq_map]
theorem eval_list' (env : Env) (items : List STerm) :
    STerm.eval env (.list items) = mkList (items.map (STerm.eval env)) := by
  simp [STerm.eval, List.map_attach_eq_pmap, List.pmap_eq_map]
theorem vars_fn' (f : String) (args : List STerm) : STerm.vars (.fn f args) = (args.map STerm.vars).flatten := by
  simp [STerm.vars, List.map_attach_eq_pmap, List.pmap_eq_map]
theorem vars_numfn' (f : String) (args : List STerm) : STerm.vars (.numfn f args) = (args.map STerm.vars).flatten := by
  simp [STerm.vars, List.map_attach_eq_pmap, List.pmap_eq_map]
theorem vars_list' (items : List STerm) : STerm.vars (.list items) = (items.map STerm.vars).flatten := by
  simp [STerm.vars, List.map_attach_eq_pmap, List.pmap_eq_map]

theorem evalExprs_nil (env : Env) : evalExprs env [] = some [] := by rw [evalExprs]
theorem evalExprs_cons (env : Env) (e : PExpr) (es : List PExpr) :
    evalExprs env (e :: es) = (do let t ← evalExpr env e; let ts ← evalExprs env es; pure (t :: ts)) := by rw [evalExprs]

/-- No clause variable is called `ATOM_NIL` (the compiler prefixes the source's names). -/
def STerm.noNil (t : STerm) : Prop := "ATOM_NIL" ∉ t.vars

theorem evalExpr_exprOfSTerm (env : Env) (t : STerm) (h : t.noNil) :
    evalExpr env (exprOfSTerm t) = some (t.eval env) := by
  induction t using STerm.rec (motive_2 := fun ts => (∀ t ∈ ts, STerm.noNil t) →
      evalExprs env (ts.map exprOfSTerm) = some (ts.map (STerm.eval env))) with
  | var n =>
    have : n ≠ "ATOM_NIL" := by intro e; apply h; simp [STerm.vars, e]
    simp [exprOfSTerm, evalExpr, STerm.eval, this]
  | atom s => simp [exprOfSTerm, evalExpr, STerm.eval]
  | num n => simp [exprOfSTerm, evalExpr, STerm.eval]
  | fn f args ih =>
    have h' : ∀ t ∈ args, STerm.noNil t := by
      intro t ht hm; apply h; rw [vars_fn']; exact List.mem_flatten.mpr ⟨_, List.mem_map.mpr ⟨t, ht, rfl⟩, hm⟩
    rw [expr_fn', eval_fn']; simp [evalExpr, ih h']
  | numfn f args ih =>
    have h' : ∀ t ∈ args, STerm.noNil t := by
      intro t ht hm; apply h; rw [vars_numfn']; exact List.mem_flatten.mpr ⟨_, List.mem_map.mpr ⟨t, ht, rfl⟩, hm⟩
    rw [expr_numfn', eval_numfn']; simp [evalExpr, ih h']
  | list items ih =>
    have h' : ∀ t ∈ items, STerm.noNil t := by
      intro t ht hm; apply h; rw [vars_list']; exact List.mem_flatten.mpr ⟨_, List.mem_map.mpr ⟨t, ht, rfl⟩, hm⟩
    cases items with
    | nil => simp [exprOfSTerm, evalExpr, STerm.eval, mkList]
    | cons i is =>
      rw [expr_list', eval_list']
      have := ih h'
      simp only [List.map_cons] at this
      simp [evalExpr, this]
  | lpair a b iha ihb =>
    have ha : a.noNil := by intro hm; apply h; simp [STerm.vars, hm]
    have hb : b.noNil := by intro hm; apply h; simp [STerm.vars, hm]
    simp [exprOfSTerm, evalExpr, STerm.eval, iha ha, ihb hb]
  | nil => simp [evalExprs_nil]
  | cons a as iha ihas =>
    rename_i hall
    simp only [List.map_cons, evalExprs_cons]
    rw [iha (hall a (by simp)), ihas (fun t ht => hall t (by simp [ht]))]
    rfl

theorem evalExprs_exprOfSTerm (env : Env) (ts : List STerm) (h : ∀ t ∈ ts, STerm.noNil t) :
    evalExprs env (ts.map exprOfSTerm) = some (ts.map (STerm.eval env)) := by
  induction ts with
  | nil => simp [evalExprs_nil]
  | cons a as ih =>
    simp only [List.map_cons, evalExprs_cons]
    rw [evalExpr_exprOfSTerm env a (h a (by simp)), ih (fun t ht => h t (by simp [ht]))]
    rfl

/-! ### The invariant of the flag protocol -/

/-- Between statements: no break is travelling, and the flag of every enclosing block is down.
    (PyFlags of blocks that were left may be stale `True`: they are reset before they are read.) -/
def Inv (Γ : List Nat) (σ : PyFlags) : Prop :=
  σ.get "doBreak" = some false ∧ ∀ l ∈ Γ, σ.get (labelName l) = some false

/-- A break travelling to the enclosing block `l`. -/
def BrkState (Γ : List Nat) (σ : PyFlags) (l : Nat) : Prop :=
  σ.get "doBreak" = some true ∧ σ.get (labelName l) = some true ∧
    ∀ l' ∈ Γ, l' ≠ l → σ.get (labelName l') = some false

/-- Reasons that pass through a function body unchanged: the caller's, and faults. -/
def Passes (s : Sig) : Prop := (∃ t, s = .up t) ∨ s = .oof ∨ (∃ e, s = .exn e) ∨ s = .stop

/-- How the end of a Python statement list corresponds to the end of the IR's run. -/
inductive SimC (Γ : List Nat) (env : Env) (σ : PyLoc) : Ctl → Option Sig → Prop
  | norm : σ.1 = env → Inv Γ σ.2 → SimC Γ env σ .norm none
  | brk (l : Nat) : σ.1 = env → l ∈ Γ → BrkState Γ σ.2 l → SimC Γ env σ .brk (some (.brk l))
  | ret : SimC Γ env σ .ret (some .ret)
  | sig (s : Sig) : Passes s → SimC Γ env σ (.sig s) (some s)

/-- The variables that hold terms are not assigned by the statements of a body (`env` stays). -/
def SimB (Γ : List Nat) (env : Env) (p : PyR) (r : R) : Prop := p.2.1 = r.1 ∧ SimC Γ env p.1 p.2.2 r.2

/-! ### The callee of a loop cannot see the caller's local variables -/

inductive OptF (ν : PyLoc → Prop) (ρ : PyLoc → Sig → Sig → Prop) (σ : PyLoc) : Option Sig → Option Sig → Prop
  | none : ν σ → OptF ν ρ σ none none
  | some (a b : Sig) : ρ σ a b → OptF ν ρ σ (some a) (some b)

/-- Two runs that differ by one extra frame of flags on top of `World.py`. -/
def RelF (ν : PyLoc → Prop) (ρ : PyLoc → Sig → Sig → Prop) (r1 r2 : R) : Prop :=
  ∃ σ', r1.1 = r2.1.push σ' ∧ OptF ν ρ σ' r1.2 r2.2

def OwnSig (s : Sig) : Prop := s = .oof ∨ (∃ e, s = .exn e) ∨ s = .stop

/-- A generator that does not look at its consumer's frame: run with an extra frame of flags that
    only the consumer touches, it does what it does without it, hands the frame from one resumption
    to the next as the consumer left it, and passes the consumer's reasons on as they are. For a
    Python generator this is lexical scoping of local variables. -/
def FrameLocal (g : Gen) : Prop :=
  ∀ (ν : PyLoc → Prop) (ρ : PyLoc → Sig → Sig → Prop), (∀ σ s, ν σ → OwnSig s → ρ σ s s) →
    ∀ K1 K2 : K, (∀ w σ, ν σ → RelF ν ρ (K1 (w.push σ)) (K2 w)) →
      ∀ w σ, ν σ → RelF ν ρ (g K1 (w.push σ)) (g K2 w)

/-- What the loop body tells the generator vs. what the IR's body tells it. -/
inductive LoopRel (Γ : List Nat) (env : Env) (σ : PyLoc) : Sig → Sig → Prop
  | brk (l : Nat) : σ.1 = env → l ∈ Γ → BrkState Γ σ.2 l → LoopRel Γ env σ pyBreak (.brk l)
  | ret : LoopRel Γ env σ .ret .ret
  | pass (s : Sig) : Passes s → LoopRel Γ env σ s s

theorem Passes.ne_pyBreak {s : Sig} (h : Passes s) : s ≠ pyBreak := by
  rcases h with ⟨t, rfl⟩ | rfl | ⟨e, rfl⟩ | rfl <;> simp [pyBreak]
theorem Passes.ne_ret {s : Sig} (h : Passes s) : s ≠ .ret := by
  rcases h with ⟨t, rfl⟩ | rfl | ⟨e, rfl⟩ | rfl <;> simp

section loops
variable (q : Q) (u : Term → Term → Gen)

theorem pyStmts_breakCode (k : K) (σ : PyLoc) (w : World) :
    pyStmts q u breakCode k σ w = ifFlag (σ.2.get "doBreak") (σ, w, .brk) σ w := by
  simp only [breakCode, pyStmts_cons, pyStmts_nil, py_if_name, py_break]
  cases h : σ.2.get "doBreak" with
  | none => simp [ifFlag]
  | some b => cases b <;> simp

/-- A `for` loop over a generator, followed by `if doBreak: break`. -/
theorem loop_correct (Γ : List Nat) (env : Env) (g : Gen) (hg : FrameLocal g) (body : List PStmt) (k K2 : K)
    (hbody : ∀ σ w, σ.1 = env → Inv Γ σ.2 → SimB Γ env (pyStmts q u body k σ w) (K2 w))
    (σ : PyLoc) (w : World) (he : σ.1 = env) (hσ : Inv Γ σ.2) :
    SimB Γ env (seqPy (fun σ' w' => pyStmts q u breakCode k σ' w')
              (loopEnd (g (fun w1 => bodyAnswer (pyStmts q u body k w1.pop.1 w1.pop.2)) (w.push σ))))
      (g K2 w) := by
  have hK : ∀ w σ, (σ.1 = env ∧ Inv Γ σ.2) →
      RelF (fun σ => σ.1 = env ∧ Inv Γ σ.2) (LoopRel Γ env)
        ((fun w1 => bodyAnswer (pyStmts q u body k w1.pop.1 w1.pop.2)) (w.push σ)) (K2 w) := by
    intro w σ hσ
    have hb := hbody σ w hσ.1 hσ.2
    simp only [World.pop_push]
    generalize pyStmts q u body k σ w = p at hb ⊢
    generalize K2 w = r at hb ⊢
    obtain ⟨σ', w', c⟩ := p
    obtain ⟨w2, s2⟩ := r
    obtain ⟨hw, hc⟩ := hb
    change w' = w2 at hw
    change SimC Γ env σ' c s2 at hc
    subst hw
    cases hc with
    | norm he hi => exact ⟨σ', rfl, .none ⟨he, hi⟩⟩
    | brk l he hl hs' => exact ⟨σ', rfl, .some _ _ (.brk l he hl hs')⟩
    | ret => exact ⟨σ', rfl, .some _ _ .ret⟩
    | sig s hp' => exact ⟨σ', rfl, .some _ _ (.pass s hp')⟩
  have hρ : ∀ σ s, (σ.1 = env ∧ Inv Γ σ.2) → OwnSig s → LoopRel Γ env σ s s := by
    intro σ s _ hs
    refine .pass s ?_
    rcases hs with h | h | h
    · exact Or.inr (Or.inl h)
    · exact Or.inr (Or.inr (Or.inl h))
    · exact Or.inr (Or.inr (Or.inr h))
  obtain ⟨σ', hw, ho⟩ := hg (fun σ => σ.1 = env ∧ Inv Γ σ.2) (LoopRel Γ env) hρ
    (fun w1 => bodyAnswer (pyStmts q u body k w1.pop.1 w1.pop.2)) K2 hK w σ ⟨he, hσ⟩
  generalize g (fun w1 => bodyAnswer (pyStmts q u body k w1.pop.1 w1.pop.2)) (w.push σ) = r1 at hw ho
  generalize g K2 w = r2 at hw ho
  obtain ⟨w1, s1⟩ := r1
  obtain ⟨w2, s2⟩ := r2
  simp only at hw ho
  subst hw
  cases ho with
  | none hi =>
    simp only [loopEnd, World.pop_push, seqPy_norm, pyStmts_breakCode, hi.2.1, ifFlag_false]
    exact ⟨rfl, .norm hi.1 hi.2⟩
  | some a b hab =>
    cases hab with
    | brk l he' hl hs =>
      simp only [loopEnd, World.pop_push, if_true, seqPy_norm, pyStmts_breakCode, hs.1, ifFlag_true]
      exact ⟨rfl, .brk l he' hl hs⟩
    | ret =>
      have : (Sig.ret = pyBreak) = False := by simp [pyBreak]
      simp only [loopEnd, World.pop_push, this, if_false, if_true, seqPy_ret]
      exact ⟨rfl, .ret⟩
    | pass _ hp =>
      simp only [loopEnd, World.pop_push, if_neg hp.ne_pyBreak, if_neg hp.ne_ret, seqPy_sig]
      exact ⟨rfl, .sig _ hp⟩
end loops

/-! ### Well-formed IR: every `brk l` is inside its `block l`, nested blocks have different labels -/

mutual
def WFC (Γ : List Nat) : Code → Prop
  | .foreach _ args body => (∀ a ∈ args, STerm.noNil a) ∧ WFL Γ body
  | .block l body => l ∉ Γ ∧ WFL (l :: Γ) body
  | .brk l => l ∈ Γ
  | .yieldF => True
  | .yieldT => True
  | .ret => True
def WFL (Γ : List Nat) : List Code → Prop
  | [] => True
  | c :: cs => WFC Γ c ∧ WFL Γ cs
end

theorem WFL_nil (Γ : List Nat) : WFL Γ [] = True := by rw [WFL]
theorem WFL_cons (Γ : List Nat) (c : Code) (cs : List Code) : WFL Γ (c :: cs) = (WFC Γ c ∧ WFL Γ cs) := by rw [WFL]
theorem WFC_foreach (Γ : List Nat) (n : String) (args : List STerm) (body : List Code) :
    WFC Γ (.foreach n args body) = ((∀ a ∈ args, STerm.noNil a) ∧ WFL Γ body) := by rw [WFC]
theorem WFC_block (Γ : List Nat) (l : Nat) (body : List Code) :
    WFC Γ (.block l body) = (l ∉ Γ ∧ WFL (l :: Γ) body) := by rw [WFC]
theorem WFC_brk (Γ : List Nat) (l : Nat) : WFC Γ (.brk l) = (l ∈ Γ) := by rw [WFC]

theorem WFL_append (Γ : List Nat) (a b : List Code) : WFL Γ (a ++ b) ↔ WFL Γ a ∧ WFL Γ b := by
  induction a with
  | nil => simp [WFL_nil]
  | cons c cs ih => simp [WFL_cons, ih, and_assoc]

theorem stmtsOfCode_nil (lvl : Nat) : stmtsOfCode lvl [] = [] := by rw [stmtsOfCode]
theorem stmtsOfCode_cons (lvl : Nat) (c : Code) (cs : List Code) :
    stmtsOfCode lvl (c :: cs) = stmtOfCode lvl c ++ stmtsOfCode lvl cs := by rw [stmtsOfCode]

theorem stmtOfCode_block_nil (lvl l : Nat) :
    stmtOfCode lvl (.block l []) =
      [.assign (labelName l) .fls] ++ [] ++ [.ifS (.name (labelName l)) [.assign "doBreak" .fls]] ++ breakCode := by
  simp [stmtOfCode]
theorem stmtOfCode_block_cons (lvl l : Nat) (c : Code) (cs : List Code) :
    stmtOfCode lvl (.block l (c :: cs)) =
      [.assign (labelName l) .fls] ++ [.forIn "_" (.list [.int 1]) (stmtsOfCode lvl (c :: cs))] ++
        [.ifS (.name (labelName l)) [.assign "doBreak" .fls]] ++ breakCode := by
  simp [stmtOfCode]
theorem stmtOfCode_foreach_nil (lvl : Nat) (name : String) (args : List STerm) :
    stmtOfCode lvl (.foreach name args []) =
      [.forIn ("l" ++ toString (lvl + 1)) (.call "query" [.str name, .list (args.map exprOfSTerm)]) [.passS]] ++ breakCode := by
  simp [stmtOfCode]
theorem stmtOfCode_foreach_cons (lvl : Nat) (name : String) (args : List STerm) (c : Code) (cs : List Code) :
    stmtOfCode lvl (.foreach name args (c :: cs)) =
      [.forIn ("l" ++ toString (lvl + 1)) (.call "query" [.str name, .list (args.map exprOfSTerm)]) (stmtsOfCode (lvl + 1) (c :: cs))] ++ breakCode := by
  simp [stmtOfCode]

theorem sim_seq {Γ : List Nat} {env : Env} {p : PyR} {r : R} (h : SimB Γ env p r) {f : PyLoc → World → PyR} {f2 : World → R}
    (hf : ∀ σ w, σ.1 = env → Inv Γ σ.2 → SimB Γ env (f σ w) (f2 w)) : SimB Γ env (seqPy f p) (andThenR f2 r) := by
  obtain ⟨σ, w, c⟩ := p
  obtain ⟨w2, s2⟩ := r
  obtain ⟨hw, hc⟩ := h
  change w = w2 at hw
  change SimC Γ env σ c s2 at hc
  subst hw
  cases hc with
  | norm he hi => simpa using hf σ w he hi
  | brk l he hl hs => exact ⟨rfl, .brk l he hl hs⟩
  | ret => exact ⟨rfl, .ret⟩
  | sig s hp => exact ⟨rfl, .sig s hp⟩

theorem Inv.tail {l : Nat} {Γ : List Nat} {σ : PyFlags} (h : Inv (l :: Γ) σ) : Inv Γ σ :=
  ⟨h.1, fun l' hl' => h.2 l' (List.mem_cons_of_mem _ hl')⟩

section main
variable (q : Q) (u : Term → Term → Gen)

theorem loopGen_query (env : Env) (name : String) (args : List STerm) (h : ∀ a ∈ args, STerm.noNil a) :
    loopGen q u env "query" [.str name, .list (args.map exprOfSTerm)] = some (q name (args.map (STerm.eval env))) := by
  simp [loopGen, evalExprs_exprOfSTerm env args h]

/-- **Theorem B (bodies).** The statements printed for well-formed IR simulate the IR: same calls
    to the predicates with the same consumer in the same worlds, same outcome; a structured exit
    `brk l` of the IR is a Python `break` travelling with `doBreak` and `cutIf<l>` raised and the
    flags of the other enclosing blocks down; between statements all of them are down; the
    variables that hold terms are not touched. -/
theorem py_code_correct (hq : ∀ n a, FrameLocal (q n a)) :
    (∀ c, ∀ Γ lvl k (σ : PyLoc) w, WFC Γ c → External k → Inv Γ σ.2 →
        SimB Γ σ.1 (pyStmts q u (stmtOfCode lvl c) k σ w) (exec q σ.1 c k w)) ∧
    (∀ cs, ∀ Γ lvl k (σ : PyLoc) w, WFL Γ cs → External k → Inv Γ σ.2 →
        SimB Γ σ.1 (pyStmts q u (stmtsOfCode lvl cs) k σ w) (execList q σ.1 cs k w)) := by
  have key : ∀ c, ∀ Γ lvl k (σ : PyLoc) w, WFC Γ c → External k → Inv Γ σ.2 →
      SimB Γ σ.1 (pyStmts q u (stmtOfCode lvl c) k σ w) (exec q σ.1 c k w) := by
    intro c
    induction c using Code.rec (motive_2 := fun cs => ∀ Γ lvl k (σ : PyLoc) w, WFL Γ cs → External k → Inv Γ σ.2 →
        SimB Γ σ.1 (pyStmts q u (stmtsOfCode lvl cs) k σ w) (execList q σ.1 cs k w)) with
    | yieldF =>
      intro Γ lvl k σ w _ hk hσ
      rw [stmtOfCode, exec_yieldF]
      simp only [pyStmts_cons, pyStmts_nil', py_yield]
      have hkw := hk w
      generalize k w = r at hkw
      obtain ⟨w', s'⟩ := r
      rcases hkw with h | ⟨s, h⟩ <;> simp only at h <;> subst h
      · exact ⟨rfl, .norm rfl hσ⟩
      · exact ⟨rfl, .sig _ (Or.inl ⟨s, rfl⟩)⟩
    | yieldT =>
      intro Γ lvl k σ w _ hk hσ
      rw [stmtOfCode, exec_yieldT]
      simp only [pyStmts_cons, pyStmts_nil', py_yield]
      have hkw := hk w
      generalize k w = r at hkw
      obtain ⟨w', s'⟩ := r
      rcases hkw with h | ⟨s, h⟩ <;> simp only at h <;> subst h
      · exact ⟨rfl, .norm rfl hσ⟩
      · exact ⟨rfl, .sig _ (Or.inl ⟨s, rfl⟩)⟩
    | ret =>
      intro Γ lvl k σ w _ _ _
      rw [stmtOfCode, exec_ret]
      simp only [pyStmts_cons, py_return, seqPy_ret]
      exact ⟨rfl, .ret⟩
    | brk l =>
      intro Γ lvl k σ w hwf _ hσ
      rw [WFC_brk] at hwf
      rw [stmtOfCode, exec_brk]
      simp only [pyStmts_cons, py_assign_tru, py_break, seqPy_norm, seqPy_brk]
      refine ⟨rfl, .brk l rfl hwf ⟨by simp, ?_, ?_⟩⟩
      · simp only; rw [PyFlags.get_set_other _ _ _ _ (labelName_ne_doBreak l)]; simp
      · intro l' hl' hne
        simp only
        rw [PyFlags.get_set_other _ _ _ _ (labelName_ne_doBreak l'),
          PyFlags.get_set_other _ _ _ _ (fun h => hne (labelName_inj h))]
        exact hσ.2 l' hl'
    | block l body ih =>
      intro Γ lvl k σ w hwf hk hσ
      rw [WFC_block] at hwf
      obtain ⟨hl, hwf⟩ := hwf
      have hσ1 : Inv (l :: Γ) (σ.2.set (labelName l) false) := by
        refine ⟨?_, ?_⟩
        · rw [PyFlags.get_set_other _ _ _ _ (labelName_ne_doBreak l).symm]; exact hσ.1
        · intro l' hl'
          rcases List.mem_cons.mp hl' with rfl | h
          · simp
          · rw [PyFlags.get_set_other _ _ _ _ (fun e => hl (by have := labelName_inj e; subst this; exact h))]
            exact hσ.2 l' h
      rw [exec_block]
      have hb := ih (l :: Γ) lvl k (σ.1, σ.2.set (labelName l) false) w hwf hk hσ1
      -- what follows the block's loop: `if cutIf_l: doBreak = False`, `if doBreak: break`
      have tail : ∀ (p : PyR) (r : R), SimB (l :: Γ) σ.1 p r →
          SimB Γ σ.1 (seqPy (fun σ' w' => pyStmts q u
                  ([.ifS (.name (labelName l)) [.assign "doBreak" .fls]] ++ breakCode) k σ' w') (catchBreak p))
            (catchBrk l r) := by
        intro p r hpr
        obtain ⟨σ', w', c⟩ := p
        obtain ⟨w2, s2⟩ := r
        obtain ⟨hw, hc⟩ := hpr
        change w' = w2 at hw
        change SimC (l :: Γ) σ.1 σ' c s2 at hc
        subst hw
        cases hc with
        | norm he hi =>
          have h1 : σ'.2.get (labelName l) = some false := hi.2 l (by simp)
          simp only [catchBreak_norm, seqPy_norm, List.cons_append, List.nil_append, pyStmts_cons, py_if_name, h1,
            ifFlag_false, pyStmts_breakCode, hi.1, catchBrk_none]
          exact ⟨rfl, .norm he hi.tail⟩
        | brk l' he hl' hs =>
          by_cases e : l' = l
          · subst e
            simp only [catchBreak_brk, seqPy_norm, List.cons_append, List.nil_append, pyStmts_cons, py_if_name, hs.2.1,
              ifFlag_true, py_assign_fls, pyStmts_nil', pyStmts_breakCode, PyFlags.get_set_same, ifFlag_false,
              catchBrk_brk, if_true]
            refine ⟨rfl, .norm he ⟨by simp, ?_⟩⟩
            intro l'' hl''
            simp only
            rw [PyFlags.get_set_other _ _ _ _ (labelName_ne_doBreak l'')]
            exact hs.2.2 l'' (List.mem_cons_of_mem _ hl'') (fun e => hl (e ▸ hl''))
          · have h1 : σ'.2.get (labelName l) = some false := hs.2.2 l (by simp) (fun h => e h.symm)
            simp only [catchBreak_brk, seqPy_norm, List.cons_append, List.nil_append, pyStmts_cons, py_if_name, h1,
              ifFlag_false, pyStmts_breakCode, hs.1, ifFlag_true, catchBrk_brk, if_neg e]
            refine ⟨rfl, .brk l' he ?_ ⟨hs.1, hs.2.1, ?_⟩⟩
            · rcases List.mem_cons.mp hl' with h | h
              · exact absurd h e
              · exact h
            · intro l'' hl'' hne; exact hs.2.2 l'' (List.mem_cons_of_mem _ hl'') hne
        | ret =>
          simp only [catchBreak_ret, seqPy_ret, catchBrk]
          exact ⟨rfl, .ret⟩
        | sig s hp =>
          have : catchBrk l (w', some s) = (w', some s) := by
            rcases hp with ⟨t, rfl⟩ | rfl | ⟨e, rfl⟩ | rfl <;> rfl
          simp only [catchBreak_sig, seqPy_sig, this]
          exact ⟨rfl, .sig s hp⟩
      cases body with
      | nil =>
        have := tail ((σ.1, σ.2.set (labelName l) false), w, .norm) (w, none) ⟨rfl, .norm rfl hσ1⟩
        rw [stmtOfCode_block_nil]
        simpa [execList_nil, pyStmts_cons, py_assign_fls] using this
      | cons c cs =>
        have := tail _ _ hb
        rw [stmtOfCode_block_cons]
        simpa [pyStmts_cons, py_assign_fls, py_for_one, pyStmts_append] using this
    | foreach name args body ih =>
      intro Γ lvl k σ w hwf hk hσ
      rw [WFC_foreach] at hwf
      obtain ⟨hargs, hwf⟩ := hwf
      rw [exec_foreach]
      cases body with
      | nil =>
        rw [stmtOfCode_foreach_nil, List.cons_append, List.nil_append, pyStmts_cons,
          py_for_gen q u k σ w _ _ _ _ (loopGen_query q u σ.1 name args hargs)]
        apply loop_correct q u Γ σ.1 _ (hq name _) _ k (fun w' => execList q σ.1 [] k w') _ σ w rfl hσ
        intro σ1 w1 he1 hσ1
        simp only [pyStmts_cons, py_pass, seqPy_norm, pyStmts_nil', execList_nil]
        exact ⟨rfl, .norm he1 hσ1⟩
      | cons c cs =>
        rw [stmtOfCode_foreach_cons, List.cons_append, List.nil_append, pyStmts_cons,
          py_for_gen q u k σ w _ _ _ _ (loopGen_query q u σ.1 name args hargs)]
        apply loop_correct q u Γ σ.1 _ (hq name _) _ k (fun w' => execList q σ.1 (c :: cs) k w') _ σ w rfl hσ
        intro σ1 w1 he1 hσ1
        have := ih Γ (lvl + 1) k σ1 w1 hwf hk hσ1
        rwa [he1] at this
    | nil =>
      rename_i Γ lvl k σ w _ _ hσ
      rw [stmtsOfCode_nil, pyStmts_nil', execList_nil]
      exact ⟨rfl, .norm rfl hσ⟩
    | cons c cs ihc ihcs =>
      rename_i Γ lvl k σ w hwf hk hσ
      rw [WFL_cons] at hwf
      rw [stmtsOfCode_cons, pyStmts_append, execList_cons]
      exact sim_seq (ihc Γ lvl k σ w hwf.1 hk hσ) (fun σ' w' he' hσ' => by
        have := ihcs Γ lvl k σ' w' hwf.2 hk hσ'
        rwa [he'] at this)
  refine ⟨key, ?_⟩
  intro cs
  induction cs with
  | nil =>
    intro Γ lvl k σ w _ _ hσ
    rw [stmtsOfCode_nil, pyStmts_nil', execList_nil]
    exact ⟨rfl, .norm rfl hσ⟩
  | cons c cs ih =>
    intro Γ lvl k σ w hwf hk hσ
    rw [WFL_cons] at hwf
    rw [stmtsOfCode_cons, pyStmts_append, execList_cons]
    exact sim_seq (key c Γ lvl k σ w hwf.1 hk hσ) (fun σ' w' he' hσ' => by
      have := ih Γ lvl k σ' w' hwf.2 hk hσ'
      rwa [he'] at this)
end main

/-! ### What the compiler produces is well-formed -/

/-- A body (or a pending right-hand side on the compiler's stack) whose `$CUTIF` markers refer to
    enclosing blocks, and whose terms use no variable called `ATOM_NIL`. -/
def BOK (Γ : List Nat) : Body → Prop
  | .cutif l => l ∈ Γ
  | .conj a b => BOK Γ a ∧ BOK Γ b
  | .disj a b => BOK Γ a ∧ BOK Γ b
  | .ite a b => BOK Γ a ∧ BOK Γ b
  | .neg a => BOK Γ a
  | .call _ args => ∀ a ∈ args, STerm.noNil a
  | .tru => True
  | .fail => True
  | .cut => True

theorem BOK.mono {Γ Γ' : List Nat} (h : ∀ l ∈ Γ, l ∈ Γ') : ∀ b, BOK Γ b → BOK Γ' b := by
  intro b
  induction b with
  | cutif l => exact h l
  | conj a b iha ihb => exact fun hb => ⟨iha hb.1, ihb hb.2⟩
  | disj a b iha ihb => exact fun hb => ⟨iha hb.1, ihb hb.2⟩
  | ite a b iha ihb => exact fun hb => ⟨iha hb.1, ihb hb.2⟩
  | neg a iha => exact iha
  | call n args => exact id
  | tru => exact id
  | fail => exact id
  | cut => exact id

theorem WFL_single (Γ : List Nat) (c : Code) : WFL Γ [c] ↔ WFC Γ c := by simp [WFL_cons, WFL_nil]

theorem WFL_block_intro {Γ : List Nat} {n : Nat} (hΓ : ∀ l ∈ Γ, l ≤ n) {body : List Code}
    (h : WFL ((n + 1) :: Γ) body) : WFL Γ [Code.block (n + 1) body] := by
  rw [WFL_single, WFC_block]
  exact ⟨fun hm => by have := hΓ _ hm; omega, h⟩

theorem le_cons {Γ : List Nat} {n m : Nat} (hΓ : ∀ l ∈ Γ, l ≤ n) (hm : n + 1 ≤ m) : ∀ l ∈ (n + 1) :: Γ, l ≤ m := by
  intro l hl
  rcases List.mem_cons.mp hl with rfl | h
  · exact hm
  · have := hΓ l h; omega

theorem BOK.up {Γ : List Nat} (l : Nat) {b : Body} (h : BOK Γ b) : BOK (l :: Γ) b :=
  BOK.mono (fun _ h => List.mem_cons_of_mem _ h) b h

theorem comp_wf (b : Body) (ks : List Body) (n : Nat) :
    ∀ Γ, (∀ l ∈ Γ, l ≤ n) → BOK Γ b → (∀ k ∈ ks, BOK Γ k) → WFL Γ (comp b ks n).1 ∧ n ≤ (comp b ks n).2 := by
  fun_induction comp b ks n <;> intro Γ hΓ hb hks
  case case1 => simp [WFL_cons, WFL_nil, WFC]
  case case2 n k ks ih => exact ih Γ hΓ (hks k (by simp)) (fun x hx => hks x (by simp [hx]))
  case case3 => simp [WFL_nil]
  case case4 => simp [WFL_cons, WFL_nil, WFC]
  case case5 n k ks c n' hx ih =>
    have := ih Γ hΓ (hks k (by simp)) (fun x hx => hks x (by simp [hx]))
    rw [hx] at this
    exact ⟨(WFL_append _ _ _).mpr ⟨this.1, by simp [WFL_cons, WFL_nil, WFC]⟩, this.2⟩
  case case6 n l => exact ⟨by simp only [WFL_cons, WFL_nil, WFC_brk, WFC]; exact ⟨trivial, hb, trivial⟩, Nat.le_refl _⟩
  case case7 n l k ks c n' hx ih =>
    have := ih Γ hΓ (hks k (by simp)) (fun x hx => hks x (by simp [hx]))
    rw [hx] at this
    exact ⟨(WFL_append _ _ _).mpr ⟨this.1, by simp only [WFL_cons, WFL_nil, WFC_brk]; exact ⟨hb, trivial⟩⟩, this.2⟩
  case case8 n name args =>
    refine ⟨?_, Nat.le_refl _⟩
    simp only [WFL_cons, WFL_nil, WFC_foreach, WFC, and_true]
    exact hb
  case case9 n name args k ks c n' hx ih =>
    have := ih Γ hΓ (hks k (by simp)) (fun x hx => hks x (by simp [hx]))
    rw [hx] at this
    refine ⟨?_, this.2⟩
    simp only [WFL_cons, WFL_nil, WFC_foreach, and_true]
    exact ⟨hb, this.1⟩
  case case10 n a b ks ih =>
    exact ih Γ hΓ hb.1 (fun x hx => by rcases List.mem_cons.mp hx with rfl | h; exact hb.2; exact hks x h)
  case case11 n c t e ks l c1 n1 hx1 c2 n2 hx2 ih1 ih2 =>
    have h1 := ih1 ((n + 1) :: Γ) (le_cons hΓ (Nat.le_refl _)) (hb.1.1.up _) (fun x hx => by
      rcases List.mem_cons.mp hx with rfl | h
      · simp only [BOK, List.mem_cons]; exact Or.inl rfl
      · rcases List.mem_cons.mp h with rfl | h
        · exact hb.1.2.up _
        · exact (hks x h).up _)
    rw [hx1] at h1
    have h2 := ih2 ((n + 1) :: Γ) (le_cons hΓ h1.2) (hb.2.up _) (fun x hx => (hks x hx).up _)
    rw [hx2] at h2
    exact ⟨WFL_block_intro hΓ ((WFL_append _ _ _).mpr ⟨h1.1, h2.1⟩), by have := h1.2; have := h2.2; simp only at *; omega⟩
  case case12 n a b ks hne c1 n1 hx1 c2 n2 hx2 ih1 ih2 =>
    have h1 := ih1 Γ hΓ hb.1 hks
    rw [hx1] at h1
    have h2 := ih2 Γ (fun l hl => Nat.le_trans (hΓ l hl) h1.2) hb.2 hks
    rw [hx2] at h2
    exact ⟨(WFL_append _ _ _).mpr ⟨h1.1, h2.1⟩, Nat.le_trans h1.2 h2.2⟩
  case case13 n c t l c1 n1 hx1 ih1 =>
    have h1 := ih1 ((n + 1) :: Γ) (le_cons hΓ (Nat.le_refl _)) (hb.1.up _) (fun x hx => by
      simp only [List.mem_cons, List.not_mem_nil, or_false] at hx
      rcases hx with rfl | rfl | rfl
      · simp only [BOK, List.mem_cons]; exact Or.inl rfl
      · exact hb.2.up _
      · simp [BOK])
    rw [hx1] at h1
    exact ⟨WFL_block_intro hΓ h1.1, by have := h1.2; simp only at *; omega⟩
  case case14 n c t k ks l c1 n1 hx1 ih1 =>
    have h1 := ih1 ((n + 1) :: Γ) (le_cons hΓ (Nat.le_refl _)) (hb.1.up _) (fun x hx => by
      rcases List.mem_cons.mp hx with rfl | h
      · simp only [BOK, List.mem_cons]; exact Or.inl rfl
      · rcases List.mem_cons.mp h with rfl | h
        · exact hb.2.up _
        · exact (hks x h).up _)
    rw [hx1] at h1
    exact ⟨WFL_block_intro hΓ h1.1, by have := h1.2; simp only at *; omega⟩
  case case15 n a l c1 n1 hx1 ih1 =>
    have h1 := ih1 ((n + 1) :: Γ) (le_cons hΓ (Nat.le_refl _)) (BOK.up _ hb) (fun x hx => by
      simp only [List.mem_cons, List.not_mem_nil, or_false] at hx
      rcases hx with rfl | rfl | rfl
      · simp only [BOK, List.mem_cons]; exact Or.inl rfl
      · simp [BOK]
      · simp [BOK])
    rw [hx1] at h1
    exact ⟨WFL_block_intro hΓ ((WFL_append _ _ _).mpr ⟨h1.1, by simp [WFL_cons, WFL_nil, WFC]⟩), by have := h1.2; simp only at *; omega⟩
  case case16 n a k ks l c1 n1 hx1 c2 n2 hx2 ih1 ih2 =>
    have h1 := ih1 ((n + 1) :: Γ) (le_cons hΓ (Nat.le_refl _)) (BOK.up _ hb) (fun x hx => by
      rcases List.mem_cons.mp hx with rfl | h
      · simp only [BOK, List.mem_cons]; exact Or.inl rfl
      · rcases List.mem_cons.mp h with rfl | h
        · simp [BOK]
        · exact (hks x h).up _)
    rw [hx1] at h1
    have h2 := ih2 ((n + 1) :: Γ) (le_cons hΓ h1.2) ((hks k (by simp)).up _) (fun x hx => (hks x (by simp [hx])).up _)
    rw [hx2] at h2
    exact ⟨WFL_block_intro hΓ ((WFL_append _ _ _).mpr ⟨h1.1, h2.1⟩), by have := h1.2; have := h2.2; simp only at *; omega⟩

theorem BOK_nil_src : ∀ b, BOK [] b → Src b := by
  intro b
  induction b with
  | cutif l => intro h; simp [BOK] at h
  | conj a b iha ihb => exact fun h => ⟨iha h.1, ihb h.2⟩
  | disj a b iha ihb => exact fun h => ⟨iha h.1, ihb h.2⟩
  | ite a b iha ihb => exact fun h => ⟨iha h.1, ihb h.2⟩
  | neg a iha => exact iha
  | call n args => intro _; trivial
  | tru => intro _; trivial
  | fail => intro _; trivial
  | cut => intro _; trivial

/-- **Theorems A and B together.** For every clause body of the source language (any nesting of
    `,` `;` `->` `\+` `!`), the Python text the compiler prints for it — loops, flags, breaks —
    run under the Python semantics calls the consumer exactly as the reference semantics of the body
    does: same worlds at each answer, same final world, same outcome, and all flags down when it
    falls through. -/
theorem py_body_correct (q : Q) (u : Term → Term → Gen) (hq : ∀ n a, FrameLocal (q n a)) (hp : Parametric q)
    (b : Body) (hb : BOK [] b) (n : Nat) (k : K) (hk : External k) (σ : PyLoc) (hσ : Inv [] σ.2) (w : World) :
    SimB [] σ.1 (pyStmts q u (stmtsOfCode 0 (comp b [] n).1) k σ w) (solve q σ.1 0 b k w) := by
  have hwf := (comp_wf b [] n [] (by simp) hb (by simp)).1
  have := (py_code_correct q u hq).2 (comp b [] n).1 [] 0 k σ w hwf hk hσ
  rwa [compile_body_correct q hp σ.1 b (BOK_nil_src b hb) n k hk w] at this

end Yld
