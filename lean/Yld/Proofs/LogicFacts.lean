/-
  The logical reading with dynamic facts (C01, C07): the store as unit clauses.

  `Yld.Proofs.Logic` reads a Horn program logically under the hypothesis that the fact store is empty.
  An engine usually holds facts (`assert_fact` from Python, `assertz` earlier on). Horn bodies cannot
  change the store, so during a Horn query it is a constant, and its facts are simply further unit
  clauses — of any name, including names that also have clauses, and tried first (which the logical
  reading does not see). `HoldsF db preds` is `Holds preds` with one more rule: every instance of a
  stored fact holds. The theorems of `Logic`/`LogicComplete`, for any store.

  STATEMENTS AND DEFINITIONS IN THIS FILE ARE FIXED (see the task description); proofs to be supplied.
-/
import Yld.Proofs.Logic
import Yld.Proofs.LogicComplete
import Yld.Proofs.LgFSound
import Yld.Proofs.LgFApi
import Yld.Proofs.LgFRecord
import Yld.Proofs.LgFRecApi
namespace Yld

/-- the facts stored under name/arity, as `World.facts` looks them up -/
def dbFacts (db : List ((String × Nat) × List Fact)) (name : String) (arity : Nat) : List Fact :=
  (db.lookup (name, arity)).getD []

mutual
/-- the declarative meaning of program + store -/
inductive HoldsF (db : List ((String × Nat) × List Fact)) (preds : List Pred) : String → List Term → Prop
  | eq (a : Term) : HoldsF db preds "=" [a, a]
  /-- every instance of a stored fact (τ instantiates its private variables `0 … nvars-1`) -/
  | fact (name : String) (c : Fact) (τ : Nat → Term) : c ∈ dbFacts db name c.args.length →
      HoldsF db preds name (c.args.map (Term.subst τ))
  | clause (p : Pred) (c : Clause) (σ : CVal) : p ∈ preds → c ∈ p.clauses →
      BHoldsF db preds σ c.body → HoldsF db preds p.name (c.head.map (STerm.inst σ))
inductive BHoldsF (db : List ((String × Nat) × List Fact)) (preds : List Pred) : CVal → Body → Prop
  | tru (σ : CVal) : BHoldsF db preds σ .tru
  | cut (σ : CVal) : BHoldsF db preds σ .cut
  | call (σ : CVal) (name : String) (args : List STerm) :
      HoldsF db preds name (args.map (STerm.inst σ)) → BHoldsF db preds σ (.call name args)
  | conj (σ : CVal) (a b : Body) : BHoldsF db preds σ a → BHoldsF db preds σ b → BHoldsF db preds σ (.conj a b)
  | disjL (σ : CVal) (a b : Body) : BHoldsF db preds σ a → BHoldsF db preds σ (.disj a b)
  | disjR (σ : CVal) (a b : Body) : BHoldsF db preds σ b → BHoldsF db preds σ (.disj a b)
end

/-- a consumer that leaves bindings, counter and store as a generator expects -/
abbrev QuietF := Quiet

def GoalHoldsF (db : List ((String × Nat) × List Fact)) (preds : List Pred) (name : String) (args : List Term) (w' : World) : Prop :=
  ∀ θ, Solves θ w'.b → HoldsF db preds name (args.map (Term.subst θ))


/-! ### The bridge to the development in `Yld.Proofs.LgF*`

The proofs are in `LgFBase` (worlds whose store is a constant `D` of closed facts), `LgFSound`
(soundness for an abstract meaning of goals closed under `=`, the clauses and the facts of `D`;
`matchFact`/`matchAll`/`matchDynamic`), `LgFApi` (the recorded answers), `LgFRecord` (completeness for the
ranked meaning `HN D preds r`, recording consumers), `LgFRecApi` (the collecting consumer). Here the
parameters are instantiated with `HoldsF`; see `LOGIC_FACTS_REPORT.md`. -/

theorem bholdsF_of_bsem (db : List ((String × Nat) × List Fact)) (preds : List Pred) {ι : STerm → Term}
    (h : Lg.IsInst ι) : ∀ b : Body, Lg.bsem (HoldsF db preds) ι b → BHoldsF db preds (fun v => ι (.var v)) b
  | .tru, _ => .tru _
  | .cut, _ => .cut _
  | .call name args, x => by
    refine .call _ name args ?_
    have e : args.map (STerm.inst fun v => ι (.var v)) = args.map ι :=
      List.map_congr_left (fun t _ => (isInst_eq_inst h t).symm)
    rw [e]; exact x
  | .conj a b, x => .conj _ a b (bholdsF_of_bsem db preds h a x.1) (bholdsF_of_bsem db preds h b x.2)
  | .disj a b, x => x.elim (fun y => .disjL _ a b (bholdsF_of_bsem db preds h a y))
      (fun y => .disjR _ a b (bholdsF_of_bsem db preds h b y))
  | .fail, x => x.elim
  | .ite _ _, x => x.elim
  | .neg _, x => x.elim
  | .cutif _, x => x.elim

/-- `HoldsF` is closed under `=`, under the clauses and under the facts of the store -/
theorem sem_holdsF (D : CDb) (preds : List Pred) : Lg.F.Sem D preds (HoldsF D.db preds) where
  eq a := .eq a
  clause p hp c hc ι hι hb := by
    have e : c.head.map ι = c.head.map (STerm.inst fun v => ι (.var v)) :=
      List.map_congr_left (fun t _ => isInst_eq_inst hι t)
    rw [e]
    exact .clause p c _ hp hc (bholdsF_of_bsem D.db preds hι c.body hb)
  fact name c τ hc := .fact name c τ hc

/-- a derivation has a height -/
theorem holdsF_hn (D : CDb) (preds : List Pred) {name : String} {args : List Term}
    (h : HoldsF D.db preds name args) : ∃ r, Lg.F.HN D preds r name args := by
  refine HoldsF.rec (motive_1 := fun name args _ => ∃ r, Lg.F.HN D preds r name args)
    (motive_2 := fun σ b _ => ∃ r, Lg.bsem (Lg.F.HN D preds r) (STerm.inst σ) b)
    ?_ ?_ ?_ ?_ ?_ ?_ ?_ ?_ ?_ h
  · intro a; exact ⟨1, Or.inl ⟨rfl, a, rfl⟩⟩
  · intro name c τ hc; exact ⟨1, Or.inr (Or.inl ⟨c, τ, hc, rfl⟩)⟩
  · intro p c σ hp hc _ ⟨r, hr⟩
    exact ⟨r+1, Or.inr (Or.inr ⟨p, hp, c, hc, STerm.inst σ, inst_isInst σ, rfl, rfl, hr⟩)⟩
  · intro σ; exact ⟨0, trivial⟩
  · intro σ; exact ⟨0, trivial⟩
  · intro σ name args _ ⟨r, hr⟩; exact ⟨r, hr⟩
  · intro σ a b _ _ ⟨r1, h1⟩ ⟨r2, h2⟩
    exact ⟨max r1 r2, Lg.bsem_mono (Lg.F.HN_mono preds (Nat.le_max_left _ _)) _ a h1,
      Lg.bsem_mono (Lg.F.HN_mono preds (Nat.le_max_right _ _)) _ b h2⟩
  · intro σ a b _ ⟨r, hr⟩; exact ⟨r, Or.inl hr⟩
  · intro σ a b _ ⟨r, hr⟩; exact ⟨r, Or.inr hr⟩

/-- **Soundness with a store.** Whatever facts the store holds (closed facts, as `assertFact` stores
    them), `query` for a goal of the Horn fragment calls its consumer only in worlds where the goal
    follows from program and store. -/
theorem query_sound_facts (cfg : Cfg) (preds : List Pred) (h : HornCfg cfg preds) (f : Nat) (name : String) (args : List Term)
    (hname : userName name = true) (w : World) (hcl : DbClosed w.db) (hsc : w.Scoped)
    (hargs : ∀ t ∈ args, ∀ x ∈ t.vars, x < w.next)
    (k1 k2 : K) (hq1 : Quiet k1) (hq2 : Quiet k2)
    (hk : ∀ w', GoalHoldsF w.db preds name args w' → k1 w' = k2 w') :
    query cfg f name args k1 w = query cfg f name args k2 w :=
  Lg.F.query_sound_all (D := ⟨w.db, hcl⟩) h.hc (sem_holdsF ⟨w.db, hcl⟩ preds) False f name hname args w
    ⟨rfl, hsc, False.elim⟩ hargs k1 k2 hq1.qk hq2.qk (fun w' hw' => hk w' hw'.2)

/-- **Soundness with a store, at the API.** -/
theorem answers_are_consequences_facts (e : Engine) (hwf : e.WF) (preds : List Pred)
    (h : HornCfg { blacklist := e.blacklist, defs := e.defs, mode := .reference } preds)
    (f : Nat) (name : String) (args : List Term) (hname : userName name = true) (hargs : ArgsScoped e args) (sched : Sched)
    (hc : (e.query .reference f name args sched).2.cyc = false) :
    ∀ ans ∈ (e.query .reference f name args sched).2.answers,
      ∃ ts, ans = .fn "$ans" ts ∧ ∀ ρ : Nat → Term, HoldsF e.w.db preds name (ts.map (Term.subst ρ)) := by
  have hg : Lg.F.Good ⟨e.w.db, hwf.closed⟩ True { e.w with acc := [] :: e.w.acc, cyc := false } :=
    ⟨rfl, hwf.inScope, fun _ _ => hwf.solvable⟩
  have sem := sem_holdsF ⟨e.w.db, hwf.closed⟩ preds
  intro ans hans
  unfold Engine.query at hc hans
  simp only [Bool.false_eq_true, if_false] at hc hans
  cases sched with
  | all => exact Lg.F.answers_sound h.hc sem f hname args .all _ hg hargs rfl hc ans hans
  | stop k =>
    cases k with
    | zero => simp at hans
    | succ k => exact Lg.F.answers_sound h.hc sem f hname args (.stop (k+1)) _ hg hargs rfl hc ans hans
  | raise k =>
    cases k with
    | zero => simp at hans
    | succ k => exact Lg.F.answers_sound h.hc sem f hname args (.raise (k+1)) _ hg hargs rfl hc ans hans

/-- **Completeness with a store (no cut), at the generator level.** -/
theorem query_complete_facts (cfg : Cfg) (preds : List Pred) (h : HornCfg cfg preds)
    (hnocut : ∀ p ∈ preds, ∀ c ∈ p.clauses, c.body.cutFree = true)
    (f : Nat) (name : String) (args : List Term) (hname : userName name = true)
    (w : World) (hcl : DbClosed w.db) (hsc : w.Scoped) (hargs : ∀ t ∈ args, ∀ x ∈ t.vars, x < w.next)
    (θ : Nat → Term) (hθ : Solves θ w.b) (hh : HoldsF w.db preds name (args.map (Term.subst θ))) :
    (query cfg f name args (waitFor θ w.next) w).2 ≠ none := by
  obtain ⟨r, hr⟩ := holdsF_hn ⟨w.db, hcl⟩ preds hh
  have e : ∀ w', (waitFor θ w.next w').1 = w' := by
    intro w'; unfold waitFor; split <;> rfl
  have hw : Lg.F.Recs ⟨w.db, hcl⟩ (fun _ => False) θ w.next (waitFor θ w.next) := by
    refine ⟨⟨fun w' => by rw [e], fun w' => by rw [e], fun w' => by rw [e]; exact Nat.le_refl _, False.elim⟩,
      fun _ h => h, ?_⟩
    intro w' _ _ hex
    refine Or.inl ?_
    unfold waitFor
    rw [if_pos hex]
    simp
  rcases Lg.F.query_rec_all h.hc (fun p hp c hc => by rw [← cutFree_eq_nocut]; exact hnocut p hp c hc)
    (P := fun _ => False) (fun _ _ _ h => h) r f name hname args w θ _ ⟨rfl, hsc, False.elim⟩ hargs hθ hr hw with h | h
  · exact h
  · exact h.elim

/-- **Completeness with a store, at the API.** -/
theorem answers_cover_all_consequences_facts (e : Engine) (hwf : e.WF) (preds : List Pred)
    (h : HornCfg { blacklist := e.blacklist, defs := e.defs, mode := .reference } preds)
    (hnocut : ∀ p ∈ preds, ∀ c ∈ p.clauses, c.body.cutFree = true)
    (f : Nat) (name : String) (args : List Term) (hname : userName name = true) (hargs : ArgsScoped e args)
    (hend : (e.query .reference f name args .all).2.ending = none)
    (θ : Nat → Term) (hθ : Solves θ e.w.b) (hh : HoldsF e.w.db preds name (args.map (Term.subst θ))) :
    ∃ ans ∈ (e.query .reference f name args .all).2.answers,
      ∃ ts, ans = .fn "$ans" ts ∧ ∃ ρ : Nat → Term, ts.map (Term.subst ρ) = args.map (Term.subst θ) := by
  obtain ⟨r, hr⟩ := holdsF_hn ⟨e.w.db, hwf.closed⟩ preds hh
  have hg : Lg.F.Good ⟨e.w.db, hwf.closed⟩ False { e.w with acc := [] :: e.w.acc, cyc := false } :=
    ⟨rfl, hwf.inScope, False.elim⟩
  unfold Engine.query at hend ⊢
  simp only [Bool.false_eq_true, if_false] at hend ⊢
  exact Lg.F.answers_complete h.hc (fun p hp c hc => by rw [← cutFree_eq_nocut]; exact hnocut p hp c hc) f hname
    args _ hg hargs θ hθ r hr hend

/-- With an empty store `HoldsF` is `Holds`. -/
theorem holdsF_nil (preds : List Pred) (name : String) (args : List Term) :
    HoldsF [] preds name args ↔ Holds preds name args := by
  constructor
  · intro h
    refine HoldsF.rec (motive_1 := fun name args _ => Holds preds name args)
      (motive_2 := fun σ b _ => BHolds preds σ b) ?_ ?_ ?_ ?_ ?_ ?_ ?_ ?_ ?_ h
    · intro a; exact .eq a
    · intro name c τ hc; simp [dbFacts] at hc
    · intro p c σ hp hc _ hb; exact .clause p c σ hp hc hb
    · intro σ; exact .tru σ
    · intro σ; exact .cut σ
    · intro σ name args _ hh; exact .call σ name args hh
    · intro σ a b _ _ ha hb; exact .conj σ a b ha hb
    · intro σ a b _ ha; exact .disjL σ a b ha
    · intro σ a b _ hb; exact .disjR σ a b hb
  · intro h
    refine Holds.rec (motive_1 := fun name args _ => HoldsF [] preds name args)
      (motive_2 := fun σ b _ => BHoldsF [] preds σ b) ?_ ?_ ?_ ?_ ?_ ?_ ?_ ?_ h
    · intro a; exact .eq a
    · intro p c σ hp hc _ hb; exact .clause p c σ hp hc hb
    · intro σ; exact .tru σ
    · intro σ; exact .cut σ
    · intro σ name args _ hh; exact .call σ name args hh
    · intro σ a b _ _ ha hb; exact .conj σ a b ha hb
    · intro σ a b _ ha; exact .disjL σ a b ha
    · intro σ a b _ hb; exact .disjR σ a b hb


/-! ### Non-vacuity: the program `app/3` of `Yld.Proofs.Logic` and a store with two facts

The engine holds the program `app/3` and, in its store, the ground fact `item(a)` and the *non-ground*
fact `app([b], Y, [b|Y])` (one private variable, cell 0 of the fact) — under the name of a predicate
that also has clauses. `app([a,b], [], [a,b])` follows from program and store by the second clause from
`app([b], [], [b])`, which is the instance `Y = []` of the stored fact: a derivation that uses both the
clause rule and the fact rule. The store is what `Engine.assertFact` builds (`factEngine_asserted`). -/

/-- `app([b], Y, [b|Y])`, `Y` the fact's variable 0 -/
def appFact : Fact :=
  { id := 1, nvars := 1, args := [mkList [.atom "b"], .var 0, .fn "." [.atom "b", .var 0]] }
def itemFact : Fact := { id := 0, nvars := 0, args := [.atom "a"] }
def factDb : List ((String × Nat) × List Fact) := [(("item", 1), [itemFact]), (("app", 3), [appFact])]

/-- the engine with the program `app/3` and the two facts -/
def factEngine : Engine := { appEngine with w := { appEngine.w with db := factDb, stamp := 2 } }
def factWorld : World := { next := 2, db := factDb }

/-- the store is the one `assert_fact("item", [a])`, `assert_fact("app", [[b], Y, [b|Y]])` (`Y` the
    caller's cell 7) build -/
theorem factEngine_asserted :
    (((appEngine.assertFact 5 "item" [.atom "a"] true).1.assertFact 5 "app"
        [mkList [.atom "b"], .var 7, .fn "." [.atom "b", .var 7]] true).1.w.db) = factEngine.w.db := by
  simp [Engine.assertFact, Yld.assertFact, resolve, canonVars, Term.vars, mkList, World.facts, World.setFacts,
    Term.rename, Bind.empty, List.mapM_cons, List.eraseDups_cons, appEngine, Engine.load, factEngine, factDb,
    appFact, itemFact]
  rfl

theorem itemFact_closed : FactClosed itemFact := by
  simp [FactClosed, itemFact, Term.vars]

theorem appFact_closed : FactClosed appFact := by
  simp [FactClosed, appFact, Term.vars, mkList]

theorem factDb_closed : DbClosed factDb := by
  intro kv hkv c hc
  simp only [factDb, List.mem_cons, List.not_mem_nil, or_false] at hkv
  rcases hkv with rfl | rfl
  · simp only [List.mem_singleton] at hc; subst hc; exact itemFact_closed
  · simp only [List.mem_singleton] at hc; subst hc; exact appFact_closed

theorem factEngine_wf : factEngine.WF :=
  ⟨fun x u h => (by cases h), fun ρ => ⟨ρ, fun x u h => (by cases h), fun _ _ => rfl⟩, factDb_closed,
    appEngine_wf.rows⟩

theorem factWorld_scoped : factWorld.Scoped := fun x u h => by cases h

/-- `app([b], [], [b])` is the instance `Y = []` of the stored fact -/
theorem appFact_instance : HoldsF factDb [appPred] "app" [mkList [.atom "b"], .atom "[]", mkList [.atom "b"]] := by
  have h := HoldsF.fact (db := factDb) (preds := [appPred]) "app" appFact (fun _ => .atom "[]")
    (by show appFact ∈ [appFact]; exact List.mem_singleton.mpr rfl)
  simpa [appFact, Term.subst, mkList] using h

/-- `app([a,b], [], [a,b])` follows from program and store: the second clause with `H = a, T = [b],
    L = [], R = [b]`, then the stored fact -/
theorem appF_holds : HoldsF factDb [appPred] "app"
    [mkList [.atom "a", .atom "b"], .atom "[]", mkList [.atom "a", .atom "b"]] := by
  have h2 : HoldsF factDb [appPred] "app"
      (appClause2.head.map (STerm.inst fun v =>
        if v = "H" then .atom "a" else if v = "L" then .atom "[]" else mkList [.atom "b"])) := by
    refine .clause appPred appClause2 _ (by simp) (by simp [appPred]) (.call _ _ _ ?_)
    simpa [STerm.inst, mkList] using appFact_instance
  simpa [appClause2, STerm.inst, mkList] using h2

/-- `item(a)` holds by the fact rule alone -/
theorem item_holds : HoldsF factDb [appPred] "item" [.atom "a"] := by
  have h := HoldsF.fact (db := factDb) (preds := [appPred]) "item" itemFact (fun _ => .atom "[]")
    (by show itemFact ∈ [itemFact]; exact List.mem_singleton.mpr rfl)
  simpa [itemFact, Term.subst] using h

/-- the goal `app(X, Y, [a,b])`, `X` and `Y` the cells 0 and 1 -/
def appGoalF : List Term := [.var 0, .var 1, mkList [.atom "a", .atom "b"]]
/-- the instance `X = [a,b], Y = []` -/
def appθF : Nat → Term := fun x => if x = 0 then mkList [.atom "a", .atom "b"] else .atom "[]"

theorem appGoalF_scoped : ∀ t ∈ appGoalF, ∀ x ∈ t.vars, x < factWorld.next := by
  simp [appGoalF, factWorld, Term.vars, mkList]
theorem appθF_solves : Solves appθF factWorld.b := fun x u h => by cases h
theorem appGoalF_holds : HoldsF factWorld.db [appPred] "app" (appGoalF.map (Term.subst appθF)) := by
  show HoldsF factDb _ _ _
  simpa [appGoalF, appθF, Term.subst, mkList] using appF_holds

/-- soundness applies to the concrete program, store and goal -/
example (f : Nat) (k1 k2 : K) (hq1 : Quiet k1) (hq2 : Quiet k2)
    (hk : ∀ w', GoalHoldsF factDb [appPred] "app" appGoalF w' → k1 w' = k2 w') :
    query appCfg f "app" appGoalF k1 factWorld = query appCfg f "app" appGoalF k2 factWorld :=
  query_sound_facts appCfg [appPred] app_hornCfg f "app" appGoalF (by decide) factWorld factDb_closed
    factWorld_scoped appGoalF_scoped k1 k2 hq1 hq2 hk

/-- completeness applies: the search for `app(X,Y,[a,b])` does not end normally without having reached
    `X = [a,b], Y = []` — an instance whose derivation goes through the stored fact -/
example (f : Nat) : (query appCfg f "app" appGoalF (waitFor appθF factWorld.next) factWorld).2 ≠ none :=
  query_complete_facts appCfg [appPred] app_hornCfg app_nocut f "app" appGoalF (by decide) factWorld factDb_closed
    factWorld_scoped appGoalF_scoped appθF appθF_solves appGoalF_holds

/-- a goal for a name that has facts only: `item(X)`, instance `X = a` -/
example (f : Nat) : (query appCfg f "item" [.var 0] (waitFor (fun _ => .atom "a") factWorld.next) factWorld).2 ≠ none :=
  query_complete_facts appCfg [appPred] app_hornCfg app_nocut f "item" [.var 0] (by decide) factWorld factDb_closed
    factWorld_scoped (by simp [factWorld, Term.vars]) (fun _ => .atom "a") (fun x u h => by cases h)
    (by show HoldsF factDb _ _ _; simpa [Term.subst] using item_holds)

theorem appGoalF_argsScoped : ArgsScoped factEngine appGoalF := by
  simp [ArgsScoped, appGoalF, factEngine, appEngine, Engine.load, Term.vars, mkList]

/-- … and through the API: every recorded answer is a consequence of program and store in all its
    instances; a completed enumeration has recorded an answer of which `app([a,b],[],[a,b])` is an instance -/
example (f : Nat) (sched : Sched) (hc : (factEngine.query .reference f "app" appGoalF sched).2.cyc = false) :
    ∀ ans ∈ (factEngine.query .reference f "app" appGoalF sched).2.answers,
      ∃ ts, ans = .fn "$ans" ts ∧ ∀ ρ : Nat → Term, HoldsF factDb [appPred] "app" (ts.map (Term.subst ρ)) :=
  answers_are_consequences_facts factEngine factEngine_wf [appPred] app_hornCfg f "app" appGoalF (by decide)
    appGoalF_argsScoped sched hc

example (f : Nat) (hend : (factEngine.query .reference f "app" appGoalF .all).2.ending = none) :
    ∃ ans ∈ (factEngine.query .reference f "app" appGoalF .all).2.answers,
      ∃ ts, ans = .fn "$ans" ts ∧ ∃ ρ : Nat → Term, ts.map (Term.subst ρ) = appGoalF.map (Term.subst appθF) :=
  answers_cover_all_consequences_facts factEngine factEngine_wf [appPred] app_hornCfg app_nocut f "app" appGoalF
    (by decide) appGoalF_argsScoped hend appθF (fun x u h => by cases h) appGoalF_holds

#eval (factEngine.query .reference 12 "app" appGoalF .all).2.ending
#eval (factEngine.query .reference 12 "app" appGoalF .all).2.answers

#print axioms query_sound_facts
#print axioms answers_are_consequences_facts
#print axioms query_complete_facts
#print axioms answers_cover_all_consequences_facts
#print axioms holdsF_nil

end Yld
