/-
  The logical reading of Horn programs (C01), stage 4: completeness for programs without cut.

  `HN preds r` is the meaning of goals stratified by the height `r` of the derivation.  By induction
  on `r`, for every fuel: if an instance `θ` of the goal is in `HN preds r` and the consumer waits for
  `θ` (`Waits`: quiet, and triggered in every good world reached whose heap has a solution that is `θ`
  on the cells that existed at the start), the run of `query` does not end with `none`.

  Clause selection: the clauses before the one of the derivation end abnormally (then so does the
  run), or normally with the world restored.  For the clause of the derivation the solution is
  extended to the fresh cells by the valuation of the derivation (`extθ`); head unification cannot
  fail on a heap that has this solution, and yields on a heap that still has it.  What leaves the frame
  is never swallowed by `leaveFrame`: in a body without cut the only signals are the consumer's
  (wrapped in `up`) and faults (`Hard`).
-/
import Yld.Proofs.LgSound
import Yld.Proofs.ActPrologue
set_option linter.unusedSimpArgs false
set_option linter.unusedVariables false
namespace Yld
namespace Lg

/-! ### the ranked meaning of goals -/

/-- derivable with a derivation of height at most `r` -/
def HN (preds : List Pred) : Nat → String → List Term → Prop
  | 0, _, _ => False
  | r+1, name, args => (name = "=" ∧ ∃ a, args = [a, a]) ∨
      ∃ p ∈ preds, ∃ c ∈ p.clauses, ∃ ι : STerm → Term, IsInst ι ∧ p.name = name ∧ args = c.head.map ι ∧
        bsem (HN preds r) ι c.body

theorem HN_succ (preds : List Pred) : ∀ r name args, HN preds r name args → HN preds (r+1) name args := by
  intro r
  induction r with
  | zero => intro name args h; exact h.elim
  | succ r ih =>
    intro name args h
    rcases h with h | ⟨p, hp, c, hc, ι, hι, hn, ha, hb⟩
    · exact Or.inl h
    · exact Or.inr ⟨p, hp, c, hc, ι, hι, hn, ha, bsem_mono ih ι c.body hb⟩

theorem HN_mono (preds : List Pred) {r r' : Nat} (h : r ≤ r') : ∀ name args, HN preds r name args → HN preds r' name args := by
  induction h with
  | refl => intro _ _ x; exact x
  | step _ ih => intro name args x; exact HN_succ preds _ name args (ih name args x)

/-! ### what the definitions of `=` and of a program predicate run -/

theorem qtail_chain {cfg : Cfg} {f : Nat} {name : String} {args : List Term} {ds : List Def}
    (hbl : cfg.blacklist.contains name = false)
    (hl : (cfg.defs.get (predKey name args.length)).orElse (fun _ => cfg.defs.get (variadicKey name)) = some ds)
    (k : K) (w : World) : qtail cfg f name args k w = runChain cfg f ds args k w := by
  simp only [qtail, hbl, hl, Bool.false_eq_true, if_false]

theorem tail_eq {U : String → Bool} {cfg : Cfg} {preds : List Pred} (hc : HC U cfg preds) (f : Nat) (a b : Term) :
    (∀ k w, qtail cfg f "=" [a, b] k w = (w, some .oof)) ∨ ∃ n, ∀ k w, qtail cfg f "=" [a, b] k w = unify n a b k w := by
  have hq : ∀ k w, qtail cfg f "=" [a, b] k w = runChain cfg f [.builtin "="] [a, b] k w :=
    qtail_chain hc.eqVisible.1 (by
      show (cfg.defs.get (predKey "=" 2)).orElse _ = _
      rw [hc.eqVisible.2]; rfl)
  match f with
  | 0 => exact Or.inl (fun k w => by rw [hq]; simp only [runChain])
  | 1 => exact Or.inl (fun k w => by rw [hq, runChain_single]; simp only [runDef])
  | 2 => exact Or.inl (fun k w => by rw [hq, runChain_single, runDef_builtin]; simp only [runBuiltin])
  | n+3 => exact Or.inr ⟨n, fun k w => by rw [hq, runChain_single, runDef_builtin, runBuiltin_eq]⟩

theorem tail_user {U : String → Bool} {cfg : Cfg} {preds : List Pred} (hc : HC U cfg preds) (f : Nat) (p : Pred)
    (hp : p ∈ preds) (args : List Term) (hlen : args.length = p.arity) :
    (∀ k w, qtail cfg f p.name args k w = (w, some .oof)) ∨
    ∃ n, ∀ k w, qtail cfg f p.name args k w =
      leaveFrame (runClauses (fun c => runClauseRef n (query cfg n) c args) p.clauses (wrapK k) w) := by
  have hq : ∀ k w, qtail cfg f p.name args k w = runChain cfg f [.prolog p .reference] args k w :=
    qtail_chain (hc.visible p hp) (by rw [hlen, hc.user p hp]; rfl)
  match f with
  | 0 => exact Or.inl (fun k w => by rw [hq]; simp only [runChain])
  | 1 => exact Or.inl (fun k w => by rw [hq, runChain_single]; simp only [runDef])
  | n+2 => exact Or.inr ⟨n, fun k w => by rw [hq, runChain_single, runDef_ref]⟩

/-! ### signals that leave a frame -/

/-- not one of the private signals that `leaveFrame` turns into a normal end -/
def Hard : Sig → Prop
  | .ret | .brk _ | .commit _ => False
  | _ => True

def HardRel (s _s' : Sig) : Prop := Hard s

theorem hardRel_faults : FaultRefl HardRel := ⟨trivial, fun _ => trivial, trivial⟩

/-- every reason the consumer gives is `Hard` -/
def HardK (k : K) : Prop := ∀ w s, (k w).2 = some s → Hard s

theorem hardK_wrapK (k : K) : HardK (wrapK k) := by
  intro w s h
  unfold wrapK at h
  cases hk : k w with
  | mk w' o =>
    rw [hk] at h
    cases o with
    | none => cases h
    | some s' => simp only [Option.some.injEq] at h; subst h; trivial

theorem hardK_krel {k : K} (h : HardK k) : KRel HardRel k k := by
  intro w
  refine ⟨rfl, ?_⟩
  cases hh : (k w).2 with
  | none => trivial
  | some s => exact h w s hh

theorem hard_of_rel {r : R} (h : RelR HardRel r r) : ∀ s, r.2 = some s → Hard s := by
  intro s hs
  have := h.2
  rw [hs] at this
  exact this

theorem leaveFrame_hard {w : World} {s : Sig} (h : Hard s) : (leaveFrame (w, some s)).2 ≠ none := by
  cases s <;> first | exact h.elim | (simp [leaveFrame])

/-- bodies of the Horn fragment without cut pass every reason on (no `BodyOK` needed) -/
theorem solve_par_horn {U : String → Bool} (ρ : Sig → Sig → Prop) (q : Q) (hq : QPar ρ q) (env : Env) :
    ∀ (b : Body) (d : Nat), hornBy U b = true → nocut b = true → GenPar ρ (solve q env d b)
  | .tru, d, _, _ => by intro K1 K2 hK w; simp only [solve]; exact hK w
  | .fail, d, _, _ => by intro K1 K2 hK w; simp only [solve]; exact relNone w
  | .cut, d, _, h => by simp [nocut] at h
  | .call name args, d, _, _ => by intro K1 K2 hK w; simp only [solve]; exact hq name _ K1 K2 hK w
  | .conj a b, d, h, h' => by
    intro K1 K2 hK w
    simp only [hornBy, nocut, Bool.and_eq_true] at h h'
    simp only [solve]
    exact solve_par_horn ρ q hq env a d h.1 h'.1 _ _ (fun w' => solve_par_horn ρ q hq env b d h.2 h'.2 K1 K2 hK w') w
  | .disj a b, d, h, h' => by
    intro K1 K2 hK w
    simp only [hornBy, nocut, Bool.and_eq_true] at h h'
    rw [solve_disj_eq q env d a b K1 w (horn_not_ite h.1), solve_disj_eq q env d a b K2 w (horn_not_ite h.1)]
    exact seq_rel (solve_par_horn ρ q hq env a d h.1 h'.1 K1 K2 hK w)
      (fun w' => solve_par_horn ρ q hq env b d h.2 h'.2 K1 K2 hK w')
  | .ite _ _, _, h, _ => by simp [hornBy] at h
  | .neg _, _, h, _ => by simp [hornBy] at h
  | .cutif _, _, h, _ => by simp [hornBy] at h

/-- a clause without cut, run with a consumer whose reasons are hard, ends normally or with a hard reason -/
theorem runClauseRef_hard {U : String → Bool} (cfg : Cfg) (m : Nat) (c : Clause) (hb : hornBy U c.body = true)
    (hnc : nocut c.body = true) (args : List Term) (k : K) (hk : HardK k) (w : World) :
    ∀ s, (runClauseRef m (query cfg m) c args k w).2 = some s → Hard s := by
  apply hard_of_rel
  unfold runClauseRef
  simp only
  exact unifyHead_par HardRel hardRel_faults m _ args _
    (solve_par_horn HardRel _ (fun name args => query_parametric cfg m HardRel hardRel_faults name args) _ _ 0 hb hnc)
    _ k k (hardK_krel hk) _

/-! ### consumers that wait for an instance -/

/-- `k` is quiet and is triggered in every good world, with at least `n` cells, whose heap has a
    solution that is `θ` below `n` -/
structure Waits (θ : Val) (n : Nat) (k : K) : Prop where
  qk : QK False k
  trig : ∀ w', Good False w' → n ≤ w'.next → (∃ θ', (∀ x, x < n → θ' x = θ x) ∧ Solves θ' w'.b) → (k w').2 ≠ none

theorem Waits.mono {θ θ' : Val} {n n' : Nat} {k : K} (h : Waits θ n k) (hn : n ≤ n') (hθ : ∀ x, x < n → θ' x = θ x) :
    Waits θ' n' k :=
  ⟨h.qk, fun w' hg hn' ⟨θ'', ha, hs⟩ => h.trig w' hg (Nat.le_trans hn hn')
    ⟨θ'', fun x hx => (ha x (Nat.lt_of_lt_of_le hx hn)).trans (hθ x hx), hs⟩⟩

theorem Waits.wrapK {θ : Val} {n : Nat} {k : K} (h : Waits θ n k) : Waits θ n (wrapK k) := by
  refine ⟨h.qk.wrapK, fun w' hg hn hex => ?_⟩
  have := h.trig w' hg hn hex
  unfold Yld.wrapK
  cases hk : k w' with
  | mk w'' o =>
    rw [hk] at this
    cases o with
    | none => exact absurd rfl this
    | some s => simp

/-! ### the solution, extended to the fresh cells of a clause -/

/-- `θ`, and on the cells `base … base + |names| - 1` the values the instance function gives to the
    clause's variables -/
def extθ (θ : Val) (base : Nat) (names : List String) (ι : STerm → Term) : Val := fun x =>
  if base ≤ x ∧ x < base + names.length then ι (.var (names.getD (x - base) "")) else θ x

theorem extθ_below (θ : Val) (base : Nat) (names : List String) (ι : STerm → Term) {x : Nat} (h : x < base) :
    extθ θ base names ι x = θ x := by
  unfold extθ
  rw [if_neg (fun hc => by omega)]

theorem extθ_fresh (θ : Val) (base : Nat) (names : List String) (ι : STerm → Term) {v : String} (h : v ∈ names) :
    extθ θ base names ι (base + names.idxOf v) = ι (.var v) := by
  have hlt := List.idxOf_lt_length_of_mem h
  unfold extθ
  rw [if_pos ⟨Nat.le_add_right _ _, by omega⟩, Nat.add_sub_cancel_left,
    List.getD_eq_getElem?_getD, List.getElem?_eq_getElem hlt]
  simp

section complete
variable {U : String → Bool} {cfg : Cfg} {preds : List Pred} (hc : HC U cfg preds)
variable (hnc : ∀ p ∈ preds, ∀ c ∈ p.clauses, nocut c.body = true)

/-- the statement for goals with a derivation of height at most `r`, at every fuel -/
def QComp (U : String → Bool) (cfg : Cfg) (preds : List Pred) (r : Nat) : Prop :=
  ∀ f name, U name = true → ∀ args w θ k, Good False w → OwnL w.next args → Solves θ w.b →
    HN preds r name (args.map (Term.subst θ)) → Waits θ w.next k → (query cfg f name args k w).2 ≠ none

theorem length_two {α : Type} : ∀ {l : List α}, l.length = 2 → ∃ x y, l = [x, y]
  | [x, y], _ => ⟨x, y, rfl⟩

theorem andThenR_ne_none {f : World → R} {r : R} (h : r.2 ≠ none) : (andThenR f r).2 ≠ none := by
  obtain ⟨w, o⟩ := r
  cases o with
  | none => exact absurd rfl h
  | some s => simp

include hc in
theorem solve_complete (r f : Nat) (hq : QComp U cfg preds r) :
    ∀ (b : Body) (d : Nat), hornBy U b = true → nocut b = true → ∀ (env : Env) (w : World) (θ : Val) (k : K),
      Good False w → EnvOwn w.next env → Solves θ w.b →
      bsem (HN preds r) (fun t => (t.eval env).subst θ) b → Waits θ w.next k →
      (solve (query cfg f) env d b k w).2 ≠ none
  | .tru, d, _, _ => by
    intro env w θ k hg he hθ _ hk
    simp only [solve]
    exact hk.trig w hg (Nat.le_refl _) ⟨θ, fun _ _ => rfl, hθ⟩
  | .fail, d, _, _ => by intro env w θ k hg he hθ hb hk; exact hb.elim
  | .cut, d, _, h => by simp [nocut] at h
  | .call name args, d, hh, _ => by
    intro env w θ k hg he hθ hb hk
    simp only [solve]
    refine hq f name (by simpa [hornBy] using hh) _ w θ k hg (evalArgs_own he args) hθ ?_ hk
    rw [List.map_map]
    exact hb
  | .conj a b, d, hh, hn => by
    intro env w θ k hg he hθ hb hk
    simp only [hornBy, nocut, Bool.and_eq_true] at hh hn
    simp only [solve]
    refine solve_complete r f hq a d hh.1 hn.1 env w θ _ hg he hθ hb.1
      ⟨solve_qkGen hc False f env b d hh.2 k hk.qk, ?_⟩
    intro w' hg' hn' ⟨θ', hag, hs'⟩
    refine solve_complete r f hq b d hh.2 hn.2 env w' θ' k hg' (he.mono hn') hs' ?_ (hk.mono hn' hag)
    refine bsem_congr (isInst_eval env θ) (isInst_eval env θ') b (fun v _ => ?_) hb.2
    simp only [STerm.eval]
    exact subst_congr _ (fun x hx => (hag x (get_own he v x hx)).symm)
  | .disj a b, d, hh, hn => by
    intro env w θ k hg he hθ hb hk
    simp only [hornBy, nocut, Bool.and_eq_true] at hh hn
    rw [solve_disj_eq _ env d a b k w (horn_not_ite hh.1)]
    rcases hb with hb | hb
    · exact andThenR_ne_none (solve_complete r f hq a d hh.1 hn.1 env w θ k hg he hθ hb hk)
    · have hst : Step False w (solve (query cfg f) env d a k w).1 := (solve_qkGen hc False f env a d hh.1 k hk.qk).step hg
      have hbb : (solve (query cfg f) env d a k w).1.b = w.b := (solve_qkGen hc False f env a d hh.1 k hk.qk).b w
      revert hst hbb
      generalize solve (query cfg f) env d a k w = ra
      obtain ⟨w1, o⟩ := ra
      intro hst hbb
      cases o with
      | some s => simp
      | none =>
        simp only [andThenR_none]
        exact solve_complete r f hq b d hh.2 hn.2 env w1 θ k hst.good (he.mono hst.next) (hbb ▸ hθ) hb
          (hk.mono hst.next (fun _ _ => rfl))
  | .ite _ _, _, h, _ => by simp [hornBy] at h
  | .neg _, _, h, _ => by simp [hornBy] at h
  | .cutif _, _, h, _ => by simp [hornBy] at h

/-- head unification cannot fail on a heap that has a solution unifying the heads -/
theorem unifyHead_complete (fuel : Nat) (env : Env) (args : List Term) (g : Gen) (n : Nat) (θ : Val) (k : K)
    (hg : ∀ w, Good False w → w.next = n → Solves θ w.b → (g k w).2 ≠ none) :
    ∀ (us : List (Nat × STerm)) (w : World), Good False w → w.next = n → Solves θ w.b →
      (∀ p ∈ us, Own n (args.getD p.1 (.atom "$noarg")) ∧ Own n (p.2.eval env)) →
      (∀ p ∈ us, (args.getD p.1 (.atom "$noarg")).subst θ = (p.2.eval env).subst θ) →
      (unifyHead fuel env args us g k w).2 ≠ none := by
  intro us
  induction us with
  | nil => intro w hw hn hθ _ _; simp only [unifyHead]; exact hg w hw hn hθ
  | cons u us ih =>
    obtain ⟨i, t⟩ := u
    intro w hw hn hθ hown heq
    simp only [unifyHead]
    have ho := hown (i, t) List.mem_cons_self
    cases unify_gshape (cm := False) fuel (args.getD i (.atom "$noarg")) (t.eval env) hw (hn ▸ ho.1) (hn ▸ ho.2) with
    | oof r hr hk => rw [hk, hr]; simp
    | fail r hr hk hno => exact absurd (heq (i, t) List.mem_cons_self) (hno θ hθ)
    | once pre post hk hu =>
      rw [hk]
      exact ih pre hu.good (hu.next.trans hn) ((hu.sol θ).mpr ⟨hθ, heq (i, t) List.mem_cons_self⟩)
        (fun p hp => hown p (List.mem_cons_of_mem _ hp)) (fun p hp => heq p (List.mem_cons_of_mem _ hp))

include hc in
/-- the clause of the derivation -/
theorem runClauseRef_complete (r f : Nat) (hq : QComp U cfg preds r) (c : Clause) (args : List Term) (w : World)
    (θ : Val) (k : K) (ι : STerm → Term) (hι : IsInst ι) (hg : Good False w) (ha : OwnL w.next args)
    (hθ : Solves θ w.b) (hlen : c.head.length = args.length) (hb : hornBy U c.body = true)
    (hn : nocut c.body = true) (hargs : args.map (Term.subst θ) = c.head.map ι)
    (hbody : bsem (HN preds r) ι c.body) (hk : Waits θ w.next k) :
    (runClauseRef f (query cfg f) c args k w).2 ≠ none := by
  unfold runClauseRef
  simp only
  generalize hnm : dedup ((c.head.map STerm.vars).flatten ++ c.body.vars) = names
  rw [allocVars_eq]
  simp only [List.nil_append]
  -- the solution on the fresh cells
  have hmem : ∀ v, v ∈ names ↔ v ∈ (c.head.map STerm.vars).flatten ++ c.body.vars := by
    intro v; rw [← hnm]; exact (dedup_spec _).2 v
  have hθ1 : Solves (extθ θ w.next names ι) w.b :=
    solves_agree hg.sc hθ (fun x hx => extθ_below θ w.next names ι hx)
  have henv : EnvOwn (w.next + names.length) (freshAssoc names w.next) := by
    have := allocVars_envOwn names [] w (fun p hp => by cases hp)
    rw [allocVars_eq] at this
    simpa using this
  have hvar : ∀ v ∈ names, ((freshAssoc names w.next).get v).subst (extθ θ w.next names ι) = ι (.var v) := by
    intro v hv
    rw [freshAssoc_get names w.next v hv]
    simp only [Term.subst]
    exact extθ_fresh θ w.next names ι hv
  have hterm : ∀ t : STerm, (∀ v ∈ t.vars, v ∈ names) →
      (t.eval (freshAssoc names w.next)).subst (extθ θ w.next names ι) = ι t := by
    intro t ht
    refine IsInst.ext (isInst_eval (freshAssoc names w.next) (extθ θ w.next names ι)) hι t (fun v hv => ?_)
    simp only [STerm.eval]
    exact hvar v (ht v hv)
  have hg1 : Good False { w with next := w.next + names.length } :=
    ⟨hg.db, hg.sc.of_b rfl (Nat.le_add_right _ _), False.elim⟩
  refine unifyHead_complete f (freshAssoc names w.next) args _ (w.next + names.length) (extθ θ w.next names ι) k ?_
    _ _ hg1 rfl hθ1 ?_ ?_
  · -- the body
    intro w2 hw2 hn2 hs2
    refine solve_complete hc r f hq c.body 0 hb hn _ w2 _ k hw2 (hn2 ▸ henv) hs2 ?_ ?_
    · refine bsem_congr hι (isInst_eval _ _) c.body (fun v hv => ?_) hbody
      simp only [STerm.eval]
      exact (hvar v ((hmem v).mpr (List.mem_append_right _ hv))).symm
    · exact hk.mono (by rw [hn2]; exact Nat.le_add_right _ _) (fun x hx => extθ_below θ w.next names ι hx)
  · intro p hp
    refine ⟨?_, eval_own henv _⟩
    rw [List.getD_eq_getElem?_getD]
    cases hi : args[p.1]? with
    | none => exact own_atom _ _
    | some a => exact (ha a (List.mem_of_getElem? hi)).mono (Nat.le_add_right _ _)
  · intro p hp
    obtain ⟨q, hq', rfl⟩ := List.mem_map.mp hp
    obtain ⟨t, i⟩ := q
    have hti : c.head[i]? = some t := List.mk_mem_zipIdx_iff_getElem?.mp hq'
    have hi : i < c.head.length := by
      rcases Nat.lt_or_ge i c.head.length with h | h
      · exact h
      · rw [List.getElem?_eq_none h] at hti; cases hti
    have hi' : i < args.length := hlen ▸ hi
    have ht : t = c.head[i] := by rw [List.getElem?_eq_getElem hi] at hti; exact (Option.some.inj hti).symm
    simp only [List.getD_eq_getElem?_getD, List.getElem?_eq_getElem hi', Option.getD_some]
    rw [hterm t (fun v hv => (hmem v).mpr (List.mem_append_left _ (by
      simp only [List.mem_flatten, List.mem_map]
      exact ⟨t.vars, ⟨t, List.mem_of_getElem? hti, rfl⟩, hv⟩)))]
    have e1 : (args[i]).subst (extθ θ w.next names ι) = (args[i]).subst θ :=
      subst_congr _ (fun x hx => extθ_below θ w.next names ι (ha _ (List.getElem_mem hi') x hx))
    rw [e1, ht]
    have := congrArg (fun l => l[i]?) hargs
    simp only [List.getElem?_map, List.getElem?_eq_getElem hi, List.getElem?_eq_getElem hi', Option.map_some] at this
    exact Option.some.inj this

include hc hnc in
/-- the clauses of the predicate: those before the clause of the derivation do not end the search normally
    before it is reached -/
theorem runClauses_complete (r f : Nat) (hq : QComp U cfg preds r) (p : Pred) (hp : p ∈ preds) (args : List Term)
    (hpa : p.arity = args.length) (c : Clause) (θ : Val) (n0 : Nat) (k : K) (hkh : HardK k)
    (ι : STerm → Term) (hι : IsInst ι) (hargs : args.map (Term.subst θ) = c.head.map ι)
    (hbody : bsem (HN preds r) ι c.body) (hk : Waits θ n0 k) (ha : OwnL n0 args) :
    ∀ (cs : List Clause), (∀ c' ∈ cs, c' ∈ p.clauses) → c ∈ cs → ∀ (w : World), Good False w → n0 ≤ w.next →
      Solves θ w.b →
      ∃ s, (runClauses (fun c => runClauseRef f (query cfg f) c args) cs k w).2 = some s ∧ Hard s := by
  intro cs
  induction cs with
  | nil => intro _ hc' ; cases hc'
  | cons c' cs ih =>
    intro hsub hmem w hg hn hθ
    have hc'p := hsub c' List.mem_cons_self
    have hsh := (hc.shape p hp).2.2 c' hc'p
    have hnc' := hnc p hp c' hc'p
    rw [runClauses_cons_eq]
    have hhard := runClauseRef_hard cfg f c' hsh.2 hnc' args k hkh w
    have hqk := runClauseRef_qkGen hc False f c' hsh.2 args k hk.qk
    have hst : Step False w (runClauseRef f (query cfg f) c' args k w).1 := hqk.step hg
    have hbb : (runClauseRef f (query cfg f) c' args k w).1.b = w.b := hqk.b w
    have hfirst : c' = c → (runClauseRef f (query cfg f) c' args k w).2 ≠ none := by
      intro e
      subst e
      exact runClauseRef_complete hc r f hq c' args w θ k ι hι hg (ha.mono hn) hθ (hsh.1.trans hpa) hsh.2 hnc' hargs
        hbody (hk.mono hn (fun _ _ => rfl))
    revert hhard hst hbb hfirst
    generalize runClauseRef f (query cfg f) c' args k w = r1
    obtain ⟨w1, o⟩ := r1
    intro hhard hst hbb hfirst
    cases o with
    | some s => exact ⟨s, rfl, hhard s rfl⟩
    | none =>
      simp only [andThenR_none]
      rcases List.mem_cons.mp hmem with e | hm
      · exact absurd rfl (hfirst e.symm)
      · exact ih (fun c'' h'' => hsub c'' (List.mem_cons_of_mem _ h'')) hm w1 hst.good (Nat.le_trans hn hst.next)
          (hbb ▸ hθ)

include hc hnc in
/-- **Completeness, for the ranked meaning of goals.** -/
theorem query_complete_all : ∀ r, QComp U cfg preds r := by
  intro r
  induction r with
  | zero => intro f name hU args w θ k hg ha hθ hh hk; exact hh.elim
  | succ r ih =>
    intro f name hU args w θ k hg ha hθ hh hk
    cases f with
    | zero => simp [query]
    | succ f =>
      rw [query_succ_nil _ _ _ _ _ _ hg.db]
      rcases hh with ⟨hn, a, hargs⟩ | ⟨p, hp, c, hcm, ι, hι, hn, hargs, hbody⟩
      · -- `=`
        subst hn
        have hlen2 : args.length = 2 := by
          have := congrArg List.length hargs
          simpa using this
        obtain ⟨x, y, rfl⟩ := length_two hlen2
        simp only [List.map_cons, List.map_nil, List.cons.injEq, and_true] at hargs
        have hxy : x.subst θ = y.subst θ := hargs.1.trans hargs.2.symm
        rcases tail_eq hc f x y with h | ⟨n, h⟩
        · rw [h]; simp
        · rw [h]
          cases unify_gshape (cm := False) n x y hg (ha x (by simp)) (ha y (by simp)) with
          | oof r1 hr hk1 => rw [hk1, hr]; simp
          | fail r1 hr hk1 hno => exact absurd hxy (hno θ hθ)
          | once pre post hk1 hu =>
            rw [hk1]
            exact hk.trig pre hu.good (Nat.le_of_eq hu.next.symm) ⟨θ, fun _ _ => rfl, (hu.sol θ).mpr ⟨hθ, hxy⟩⟩
      · -- a clause of the program
        subst hn
        have hsh := (hc.shape p hp).2.2 c hcm
        have hlen : args.length = p.arity := by
          have := congrArg List.length hargs
          simp only [List.length_map] at this
          rw [this]; exact hsh.1
        rcases tail_user hc f p hp args hlen with h | ⟨n, h⟩
        · rw [h]; simp
        · rw [h]
          obtain ⟨s, hs, hhard⟩ := runClauses_complete hc hnc r n ih p hp args hlen.symm c θ w.next (wrapK k)
            (hardK_wrapK k) ι hι hargs hbody hk.wrapK ha p.clauses (fun _ h => h) hcm w hg (Nat.le_refl _) hθ
          revert hs
          generalize runClauses (fun c => runClauseRef n (query cfg n) c args) p.clauses (wrapK k) w = rr
          obtain ⟨w2, o⟩ := rr
          intro hs
          simp only at hs
          subst hs
          exact leaveFrame_hard hhard

end complete

end Lg
end Yld
