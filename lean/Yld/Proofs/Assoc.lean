/-
  Association lists with "replace in place or append" update (eval_context, _predicates_store).
  Helper lemmas, not property statements.
-/
namespace Yld.Assoc

variable {κ : Type} [BEq κ] [LawfulBEq κ] {β : Type}

def upd (d : List (κ × β)) (key : κ) (v : β) : List (κ × β) :=
  if d.any (·.1 == key) then d.map fun (k, x) => if k == key then (k, v) else (k, x)
  else d ++ [(key, v)]

theorem lookup_map_set (key : κ) (v : β) (d : List (κ × β)) (h : d.any (·.1 == key) = true) :
    List.lookup key (d.map fun (k, x) => if k == key then (k, v) else (k, x)) = some v := by
  induction d with
  | nil => simp at h
  | cons p ps ih =>
    obtain ⟨k, x⟩ := p
    by_cases hk : k = key
    · subst hk; simp
    · have h1 : (k == key) = false := by simpa using hk
      have h2 : (key == k) = false := by simpa using (fun e => hk e.symm)
      simp only [List.map_cons, h1, Bool.false_eq_true, if_false, List.lookup_cons, h2]
      apply ih
      simpa [h1] using h

theorem lookup_map_other (key key' : κ) (v : β) (d : List (κ × β)) (hne : key' ≠ key) :
    List.lookup key' (d.map fun (k, x) => if k == key then (k, v) else (k, x)) = List.lookup key' d := by
  induction d with
  | nil => rfl
  | cons p ps ih =>
    obtain ⟨k, x⟩ := p
    by_cases hk : k = key
    · subst hk
      have : (key' == k) = false := by simpa using hne
      simp only [List.map_cons, beq_self_eq_true, if_true, List.lookup_cons, this]
      exact ih
    · have h1 : (k == key) = false := by simpa using hk
      simp only [List.map_cons, h1, Bool.false_eq_true, if_false, List.lookup_cons]
      cases (key' == k)
      · exact ih
      · rfl

theorem lookup_append_new (key : κ) (v : β) (d : List (κ × β)) (h : d.any (·.1 == key) = false) :
    List.lookup key (d ++ [(key, v)]) = some v := by
  induction d with
  | nil => simp
  | cons p ps ih =>
    obtain ⟨k, x⟩ := p
    simp only [List.any_cons, Bool.or_eq_false_iff] at h
    have h2 : (key == k) = false := by
      have : k ≠ key := by simpa using h.1
      simpa using (fun e => this e.symm)
    simp only [List.cons_append, List.lookup_cons, h2]
    exact ih h.2

theorem lookup_append_other (key key' : κ) (v : β) (d : List (κ × β)) (hne : key' ≠ key) :
    List.lookup key' (d ++ [(key, v)]) = List.lookup key' d := by
  induction d with
  | nil =>
    have : (key' == key) = false := by simpa using hne
    simp [List.lookup, this]
  | cons p ps ih =>
    obtain ⟨k, x⟩ := p
    simp only [List.cons_append, List.lookup_cons]
    cases (key' == k)
    · exact ih
    · rfl

theorem lookup_upd_same (d : List (κ × β)) (key : κ) (v : β) : List.lookup key (upd d key v) = some v := by
  unfold upd
  split
  · rename_i h; exact lookup_map_set key v d h
  · rename_i h; exact lookup_append_new key v d (Bool.eq_false_iff.mpr h)

theorem lookup_upd_other (d : List (κ × β)) (key key' : κ) (v : β) (hne : key' ≠ key) :
    List.lookup key' (upd d key v) = List.lookup key' d := by
  unfold upd
  split
  · exact lookup_map_other key key' v d hne
  · exact lookup_append_other key key' v d hne

end Yld.Assoc
