/-
  Negation as failure against the logical reading (C06), stage 0: a unary pass over the Horn part of
  the engine for *what an outcome may carry*.

  `A s c` — the reason `s` is allowed in an outcome whose world has ghost flag `c`.  `A` always allows
  `oof` (the engine's own fault) and is monotone in the flag.  If every outcome of the consumer is
  allowed (`KOK A k`), so is every outcome of a generator of the Horn fragment run with it (`GOK A g`):
  the generators hand the consumer's reason back untouched (parametricity, in unary form), raise no
  reason of their own but `oof` — and, inside a clause, `ret` for a cut, which ends at the frame —
  and never reset the flag.  Inside a frame the consumer's reasons travel as `up _` (`Up A`).

  Two instances are used in `LgNaf`: `A s _ := s = commit d ∨ s = oof` (what comes back from the search
  under `\+` is the private signal of `\+` or a fault), and `A s c := s = oof ∨ (s = commit d ∧ c = true)`
  (a consumer that only signals in flagged worlds: a signal comes back in a flagged world only).
-/
import Yld.Proofs.LgSound
set_option linter.unusedSimpArgs false
set_option linter.unusedVariables false
set_option linter.unusedSectionVars false
namespace Yld
namespace Lg
namespace N

/-- the reasons allowed in an outcome, given the ghost flag of its world -/
structure SigA (A : Sig → Bool → Prop) : Prop where
  oof : ∀ c, A .oof c
  mono : ∀ s, A s false → A s true

/-- the outcome carries no reason, or an allowed one -/
def ROK (A : Sig → Bool → Prop) (r : R) : Prop := ∀ s, r.2 = some s → A s r.1.cyc
def KOK (A : Sig → Bool → Prop) (k : K) : Prop := ∀ w, ROK A (k w)
def GOK (A : Sig → Bool → Prop) (g : Gen) : Prop := ∀ k, KOK A k → KOK A (g k)

variable {A : Sig → Bool → Prop}

theorem ROK.none (w : World) : ROK A (w, none) := fun s h => by cases h

theorem ROK.oof (hA : SigA A) (w : World) : ROK A (w, some .oof) := by
  intro s h
  simp only [Option.some.injEq] at h
  subst h
  exact hA.oof _

/-- the flag may rise -/
theorem ROK.rise (hA : SigA A) {w w' : World} {o : Option Sig} (h : ROK A (w, o))
    (hc : w.cyc = true → w'.cyc = true) : ROK A (w', o) := by
  intro s hs
  have h1 : A s w.cyc := h s hs
  show A s w'.cyc
  cases hw : w.cyc with
  | true => rw [hc hw]; rw [hw] at h1; exact h1
  | false =>
    rw [hw] at h1
    cases hw' : w'.cyc with
    | false => exact h1
    | true => exact hA.mono s h1

theorem andThenR_ok {f : World → R} (hf : ∀ w, ROK A (f w)) {r : R} (h : ROK A r) : ROK A (andThenR f r) := by
  obtain ⟨w', o⟩ := r
  cases o with
  | none => rw [andThenR_none]; exact hf w'
  | some s => rw [andThenR_some]; exact h

section pass
variable (hA : SigA A)
include hA

theorem bindGen_ok (x : Nat) (t : Term) : GOK A (bindGen x t) := by
  intro k hk w
  unfold bindGen
  have h := hk { w with b := bind w.b x t }
  revert h
  generalize k { w with b := bind w.b x t } = r
  obtain ⟨w', o⟩ := r
  intro h
  exact h

theorem unifyList_ok (u : Term → Term → Gen) (hu : ∀ a b, GOK A (u a b)) :
    ∀ as bs, GOK A (unifyList u as bs) := by
  intro as
  induction as with
  | nil =>
    intro bs k hk w
    cases bs with
    | nil => simpa [unifyList] using hk w
    | cons b bs => simp only [unifyList]; exact ROK.none _
  | cons a as ih =>
    intro bs k hk w
    cases bs with
    | nil => simp only [unifyList]; exact ROK.none _
    | cons b bs =>
      simp only [unifyList]
      exact hu a b _ (fun w' => ih bs k hk w') w

theorem unify_ok (f : Nat) : ∀ t1 t2, GOK A (unify f t1 t2) := by
  induction f with
  | zero => intro t1 t2 k _ w; rw [unify]; exact ROK.oof hA _
  | succ f ih =>
    intro t1 t2 k hk w
    rw [unify]
    cases h1 : walk w.b (f+1) t1 with
    | none => exact ROK.oof hA _
    | some a1 =>
      cases h2 : walk w.b (f+1) t2 with
      | none => exact ROK.oof hA _
      | some a2 =>
        simp only
        cases a1 <;> cases a2 <;> simp only
        all_goals first
          | exact ROK.none _
          | exact bindGen_ok hA _ _ k hk _
          | (split
             · first | exact hk w | exact unifyList_ok hA (unify f) ih _ _ k hk w
             · first | exact ROK.none _ | exact bindGen_ok hA _ _ k hk _)

theorem matchFact_ok (f : Nat) (fact : Fact) (args : List Term) : GOK A (matchFact f fact args) := by
  intro k hk w
  unfold matchFact
  simp only
  split
  · exact unifyList_ok hA _ (unify_ok hA f) _ _ k hk _
  · exact ROK.none _

theorem matchAll_ok (f : Nat) (args : List Term) : ∀ cs, GOK A (matchAll f args cs) := by
  intro cs
  induction cs with
  | nil => intro k _ w; simp only [matchAll]; exact ROK.none _
  | cons c cs ih =>
    intro k hk w
    simp only [matchAll]
    exact andThenR_ok (fun w' => ih k hk w') (matchFact_ok hA f c args k hk w)

theorem matchDynamic_ok (f : Nat) (name : String) (args : List Term) : GOK A (matchDynamic f name args) := by
  intro k hk w
  unfold matchDynamic
  exact matchAll_ok hA f args _ k hk w

theorem unifyHead_ok (fuel : Nat) (env : Env) (args : List Term) (g : Gen) (hg : GOK A g) :
    ∀ us, GOK A (unifyHead fuel env args us g) := by
  intro us
  induction us with
  | nil => simpa [unifyHead] using hg
  | cons u us ih =>
    obtain ⟨i, t⟩ := u
    intro k hk w
    simp only [unifyHead]
    exact unify_ok hA fuel _ _ _ (fun w' => ih k hk w') w

/-- Horn bodies: the only reason of their own is `ret` (cut) -/
theorem solve_ok (hret : ∀ c, A .ret c) {U : String → Bool} (q : Q)
    (hq : ∀ name, U name = true → ∀ args, GOK A (q name args)) (env : Env) :
    ∀ (b : Body) (d : Nat), hornBy U b = true → GOK A (solve q env d b)
  | .tru, d, _ => by intro k hk w; simp only [solve]; exact hk w
  | .fail, d, _ => by intro k _ w; simp only [solve]; exact ROK.none _
  | .cut, d, _ => by
    intro k hk w
    simp only [solve]
    have h := hk w
    revert h
    generalize k w = r
    obtain ⟨w', o⟩ := r
    intro h
    cases o with
    | some s => exact h
    | none =>
      rw [thenSig_none]
      intro s hs
      simp only [Option.some.injEq] at hs
      subst hs
      exact hret _
  | .call name args, d, h => by
    intro k hk w; simp only [solve]
    exact hq name (by simpa [hornBy] using h) _ k hk w
  | .conj a b, d, h => by
    intro k hk w
    simp only [hornBy, Bool.and_eq_true] at h
    simp only [solve]
    exact solve_ok hret q hq env a d h.1 _ (fun w' => solve_ok hret q hq env b d h.2 k hk w') w
  | .disj a b, d, h => by
    intro k hk w
    simp only [hornBy, Bool.and_eq_true] at h
    rw [solve_disj_eq q env d a b k w (horn_not_ite h.1)]
    exact andThenR_ok (fun w' => solve_ok hret q hq env b d h.2 k hk w') (solve_ok hret q hq env a d h.1 k hk w)
  | .ite _ _, _, h => by simp [hornBy] at h
  | .neg _, _, h => by simp [hornBy] at h
  | .cutif _, _, h => by simp [hornBy] at h

theorem runClauseRef_ok (hret : ∀ c, A .ret c) {U : String → Bool} (fuel : Nat) (q : Q)
    (hq : ∀ name, U name = true → ∀ args, GOK A (q name args)) (c : Clause) (hc : hornBy U c.body = true)
    (args : List Term) : GOK A (runClauseRef fuel q c args) := by
  intro k hk w
  unfold runClauseRef
  simp only
  exact unifyHead_ok hA fuel _ args _ (solve_ok hA hret q hq _ _ 0 hc) _ k hk _

omit hA in
theorem runClauses_ok {α : Type} (run : α → Gen) : ∀ cs : List α, (∀ c ∈ cs, GOK A (run c)) →
    GOK A (runClauses run cs) := by
  intro cs
  induction cs with
  | nil => intro _ k _ w; simp only [runClauses]; exact ROK.none _
  | cons c cs ih =>
    intro hrun k hk w
    rw [runClauses_cons_eq]
    exact andThenR_ok (fun w' => ih (fun c' hc' => hrun c' (List.mem_cons_of_mem _ hc')) k hk w')
      (hrun c List.mem_cons_self k hk w)

end pass

/-! ### frames -/

/-- inside a frame: the caller's reasons travel as `up _`; the frame's own are `ret` and `oof` -/
def Up (A : Sig → Bool → Prop) (s : Sig) (c : Bool) : Prop := s = .ret ∨ s = .oof ∨ ∃ a, s = .up a ∧ A a c

theorem sigA_up (hA : SigA A) : SigA (Up A) :=
  ⟨fun _ => Or.inr (Or.inl rfl), fun s h => by
    rcases h with h | h | ⟨a, e, h⟩
    · exact Or.inl h
    · exact Or.inr (Or.inl h)
    · exact Or.inr (Or.inr ⟨a, e, hA.mono a h⟩)⟩

theorem up_ret (c : Bool) : Up A .ret c := Or.inl rfl

theorem wrapK_ok {k : K} (hk : KOK A k) : KOK (Up A) (wrapK k) := by
  intro w
  have h := hk w
  unfold wrapK
  revert h
  generalize k w = r
  obtain ⟨w', o⟩ := r
  intro h
  cases o with
  | none => exact ROK.none _
  | some s =>
    intro s' hs'
    simp only [Option.some.injEq] at hs'
    subst hs'
    exact Or.inr (Or.inr ⟨s, rfl, h s rfl⟩)

theorem leaveFrame_ok (hA : SigA A) {r : R} (h : ROK (Up A) r) : ROK A (leaveFrame r) := by
  obtain ⟨w, o⟩ := r
  cases o with
  | none => exact ROK.none _
  | some s =>
    rcases h s rfl with e | e | ⟨a, e, ha⟩
    · subst e; exact ROK.none _
    · subst e; exact ROK.oof hA _
    · subst e
      intro s' hs'
      simp only [leaveFrame, Option.some.injEq] at hs'
      subst hs'
      exact ha

/-- **The pass.** Every goal of the Horn fragment, at every fuel, for every `A`. -/
theorem query_ok {U : String → Bool} {cfg : Cfg} {preds : List Pred} (hc : HC U cfg preds) :
    ∀ f (A : Sig → Bool → Prop), SigA A → ∀ name, U name = true → ∀ args, GOK A (query cfg f name args) := by
  intro f
  induction f using Nat.strongRecOn with
  | _ f ih =>
    intro A hA name hU args k hk w
    cases f with
    | zero => simp only [query]; exact ROK.oof hA _
    | succ f =>
      rw [query_succ]
      refine andThenR_ok (fun w1 => ?_) (matchDynamic_ok hA f name args k hk w)
      cases tailCase hc f hU args with
      | none h => rw [h]; exact ROK.none _
      | oof h => rw [h]; exact ROK.oof hA _
      | eq a b n _ _ _ h => rw [h]; exact unify_ok hA n a b k hk w1
      | user p n hp hpn hpa hf h =>
        rw [h]
        refine leaveFrame_ok hA ?_
        refine runClauses_ok _ _ (fun c hcm => ?_) _ (wrapK_ok hk) w1
        exact runClauseRef_ok (sigA_up hA) up_ret n _ (ih n (by omega) (Up A) (sigA_up hA)) c
          ((hc.shape p hp).2.2 c hcm).2 args

end N
end Lg
end Yld
