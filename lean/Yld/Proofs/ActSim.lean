/-
  Related worlds, related outcomes, related consumers; the outcome combinators; the simulation of
  two unification-like generators from their shapes.
-/
import Yld.Proofs.ActRel
set_option linter.unusedSimpArgs false
set_option linter.unusedVariables false
namespace Yld

def FactClosed (c : Fact) : Prop := ∀ t ∈ c.args, ∀ x ∈ t.vars, x < c.nvars
def DbClosed (db : List ((String × Nat) × List Fact)) : Prop := ∀ kv ∈ db, ∀ c ∈ kv.2, FactClosed c

/-- the result lists of the `findall`s in progress (innermost first); `ds` records the allocation
    counters at which each of them started -/
inductive FLRel (n1 n2 : Nat) : List (Nat × Nat) → List (List Term) → List (List Term) → Prop
  | nil : FLRel n1 n2 [] [] []
  | cons {lo1 lo2 : Nat} {l1 l2 : List Term} {ds : List (Nat × Nat)} {fl1 fl2 : List (List Term)} :
      FV lo1 lo2 l1 l2 n1 n2 → FLRel n1 n2 ds fl1 fl2 → FLRel n1 n2 ((lo1, lo2) :: ds) (l1 :: fl1) (l2 :: fl2)

theorem FLRel.mono {n1 n2 n1' n2' : Nat} {ds : List (Nat × Nat)} {fl1 fl2 : List (List Term)}
    (h : FLRel n1 n2 ds fl1 fl2) (e1 : n1 ≤ n1') (e2 : n2 ≤ n2') : FLRel n1' n2' ds fl1 fl2 := by
  induction h with
  | nil => exact .nil
  | cons h1 _ ih => exact .cons (h1.mono e1 e2) ih

/-- below the `findall` lists, the stacks are equal (the answers recorded at the top level) -/
def AccRel (ds : List (Nat × Nat)) (acc1 acc2 : List (List Term)) (n1 n2 : Nat) : Prop :=
  ∃ fl1 fl2 base, acc1 = fl1 ++ base ∧ acc2 = fl2 ++ base ∧ FLRel n1 n2 ds fl1 fl2

theorem AccRel.mono {ds : List (Nat × Nat)} {acc1 acc2 : List (List Term)} {n1 n2 n1' n2' : Nat}
    (h : AccRel ds acc1 acc2 n1 n2) (e1 : n1 ≤ n1') (e2 : n2 ≤ n2') : AccRel ds acc1 acc2 n1' n2' := by
  obtain ⟨fl1, fl2, base, h1, h2, h3⟩ := h
  exact ⟨fl1, fl2, base, h1, h2, h3.mono e1 e2⟩

structure WRel (S : Cpl) (ds : List (Nat × Nat)) (w1 w2 : World) : Prop where
  core : Core S w1.b w2.b w1.next w2.next
  solv1 : Solvable w1.b
  solv2 : Solvable w2.b
  cyc1 : w1.cyc = false
  cyc2 : w2.cyc = false
  db : w1.db = w2.db
  closed : DbClosed w1.db
  stamp : w1.stamp = w2.stamp
  acc : AccRel ds w1.acc w2.acc w1.next w2.next

/-- the outcomes of two related runs started from `w1`, `w2`: same reason, bindings restored,
    everything else related again -/
structure Proper (ds : List (Nat × Nat)) (w1 w2 : World) (r1 r2 : R) : Prop where
  sig : r1.2 = r2.2
  b1 : r1.1.b = w1.b
  b2 : r2.1.b = w2.b
  next1 : w1.next ≤ r1.1.next
  next2 : w2.next ≤ r2.1.next
  cyc1 : r1.1.cyc = false
  cyc2 : r2.1.cyc = false
  db : r1.1.db = r2.1.db
  closed : DbClosed r1.1.db
  stamp : r1.1.stamp = r2.1.stamp
  acc : AccRel ds r1.1.acc r2.1.acc r1.1.next r2.1.next

def EscP (P : Sig → Prop) (r : R) : Prop := ∃ s, r.2 = some s ∧ P s

/-- one of the runs is out of the comparison: out of fuel (or the wrapped form of it), or flagged -/
def Esc4 (P : Sig → Prop) (r1 r2 : R) : Prop := EscP P r1 ∨ EscP P r2 ∨ r1.1.cyc = true ∨ r2.1.cyc = true

def RSim (P : Sig → Prop) (ds : List (Nat × Nat)) (w1 w2 : World) (r1 r2 : R) : Prop :=
  Esc4 P r1 r2 ∨ Proper ds w1 w2 r1 r2

def KSim (P : Sig → Prop) (S : Cpl) (ds : List (Nat × Nat)) (K1 K2 : K) : Prop :=
  ∀ S', Sub S' S → ∀ w1 w2, WRel S' ds w1 w2 → RSim P ds w1 w2 (K1 w1) (K2 w2)

theorem KSim.sub {P : Sig → Prop} {S S' : Cpl} {ds : List (Nat × Nat)} {K1 K2 : K} (h : KSim P S ds K1 K2)
    (hs : Sub S' S) : KSim P S' ds K1 K2 := fun S'' h'' => h S'' (Sub.trans h'' hs)

theorem Proper.wrel {S : Cpl} {ds : List (Nat × Nat)} {w1 w2 : World} {r1 r2 : R} (hw : WRel S ds w1 w2)
    (h : Proper ds w1 w2 r1 r2) : WRel S ds r1.1 r2.1 :=
  ⟨by rw [h.b1, h.b2]; exact hw.core.mono h.next1 h.next2, by rw [h.b1]; exact hw.solv1, by rw [h.b2]; exact hw.solv2,
    h.cyc1, h.cyc2, h.db, h.closed, h.stamp, h.acc⟩

theorem Proper.rebase {ds : List (Nat × Nat)} {w1 w2 w1' w2' : World} {r1 r2 : R} (h : Proper ds w1' w2' r1 r2)
    (e1 : w1'.b = w1.b) (e2 : w2'.b = w2.b) (n1 : w1.next ≤ w1'.next) (n2 : w2.next ≤ w2'.next) :
    Proper ds w1 w2 r1 r2 :=
  ⟨h.sig, h.b1.trans e1, h.b2.trans e2, Nat.le_trans n1 h.next1, Nat.le_trans n2 h.next2, h.cyc1, h.cyc2, h.db,
    h.closed, h.stamp, h.acc⟩

theorem RSim.rebase {P : Sig → Prop} {ds : List (Nat × Nat)} {w1 w2 w1' w2' : World} {r1 r2 : R}
    (h : RSim P ds w1' w2' r1 r2)
    (e1 : w1'.b = w1.b) (e2 : w2'.b = w2.b) (n1 : w1.next ≤ w1'.next) (n2 : w2.next ≤ w2'.next) :
    RSim P ds w1 w2 r1 r2 := h.imp id (fun p => p.rebase e1 e2 n1 n2)

/-- the outcome "nothing happened" -/
theorem Proper.refl_none {S : Cpl} {ds : List (Nat × Nat)} {w1 w2 : World} (hw : WRel S ds w1 w2) (o : Option Sig) :
    Proper ds w1 w2 (w1, o) (w2, o) :=
  ⟨rfl, rfl, rfl, Nat.le_refl _, Nat.le_refl _, hw.cyc1, hw.cyc2, hw.db, hw.closed, hw.stamp, hw.acc⟩

theorem RSim.same {P : Sig → Prop} {S : Cpl} {ds : List (Nat × Nat)} {w1 w2 : World} (hw : WRel S ds w1 w2)
    (o : Option Sig) : RSim P ds w1 w2 (w1, o) (w2, o) := Or.inr (Proper.refl_none hw o)

theorem RSim.esc1 {P : Sig → Prop} {ds : List (Nat × Nat)} {w1 w2 : World} (w : World) {s : Sig} (hs : P s) (r2 : R) :
    RSim P ds w1 w2 (w, some s) r2 := Or.inl (Or.inl ⟨s, rfl, hs⟩)
theorem RSim.esc2 {P : Sig → Prop} {ds : List (Nat × Nat)} {w1 w2 : World} (r1 : R) (w : World) {s : Sig} (hs : P s) :
    RSim P ds w1 w2 r1 (w, some s) := Or.inl (Or.inr (Or.inl ⟨s, rfl, hs⟩))

/-! ### outcome combinators -/

/-- post-processing of the outcome that keeps the world and treats the reasons uniformly -/
theorem sim_post {P P' : Sig → Prop} {ds : List (Nat × Nat)} {w1 w2 : World} {r1 r2 : R} (φ : R → R)
    (hw : ∀ r, (φ r).1 = r.1) (hesc : ∀ r, EscP P r → EscP P' (φ r))
    (hsig : ∀ r1 r2 : R, r1.2 = r2.2 → (φ r1).2 = (φ r2).2) (h : RSim P ds w1 w2 r1 r2) :
    RSim P' ds w1 w2 (φ r1) (φ r2) := by
  rcases h with (h | h | h | h) | h
  · exact Or.inl (Or.inl (hesc _ h))
  · exact Or.inl (Or.inr (Or.inl (hesc _ h)))
  · exact Or.inl (Or.inr (Or.inr (Or.inl (by rw [hw]; exact h))))
  · exact Or.inl (Or.inr (Or.inr (Or.inr (by rw [hw]; exact h))))
  · refine Or.inr ⟨hsig _ _ h.sig, ?_, ?_, ?_, ?_, ?_, ?_, ?_, ?_, ?_, ?_⟩
    · rw [hw]; exact h.b1
    · rw [hw]; exact h.b2
    · rw [hw]; exact h.next1
    · rw [hw]; exact h.next2
    · rw [hw]; exact h.cyc1
    · rw [hw]; exact h.cyc2
    · rw [hw, hw]; exact h.db
    · rw [hw]; exact h.closed
    · rw [hw, hw]; exact h.stamp
    · rw [hw, hw]; exact h.acc

theorem sim_thenSig {P : Sig → Prop} {ds : List (Nat × Nat)} {w1 w2 : World} {r1 r2 : R} (s : Sig)
    (h : RSim P ds w1 w2 r1 r2) : RSim P ds w1 w2 (thenSig s r1) (thenSig s r2) := by
  refine sim_post (thenSig s) (thenSig_world s) ?_ ?_ h
  · rintro ⟨w, o⟩ ⟨s', e, hs'⟩
    simp only at e; subst e
    exact ⟨s', rfl, hs'⟩
  · rintro ⟨w, o⟩ ⟨w', o'⟩ e
    simp only at e; subst e
    cases o <;> rfl

theorem sim_catchBrk {P : Sig → Prop} (hP : OofLike P) {ds : List (Nat × Nat)} {w1 w2 : World} {r1 r2 : R} (l : Nat)
    (h : RSim P ds w1 w2 r1 r2) : RSim P ds w1 w2 (catchBrk l r1) (catchBrk l r2) := by
  refine sim_post (catchBrk l) (catchBrk_world l) ?_ ?_ h
  · rintro ⟨w, o⟩ ⟨s', e, hs'⟩
    simp only at e; subst e
    have : catchBrk l (w, some s') = (w, some s') := by
      cases s' <;> first | rfl | exact absurd hs' (hP.brk _)
    rw [this]; exact ⟨s', rfl, hs'⟩
  · rintro ⟨w, o⟩ ⟨w', o'⟩ e
    simp only at e; subst e
    cases o with
    | none => rfl
    | some s =>
      cases s <;> try rfl
      simp only [catchBrk_brk]
      split <;> rfl

theorem sim_leaveFrame {P : Sig → Prop} (hP : OofLike P) {ds : List (Nat × Nat)} {w1 w2 : World} {r1 r2 : R}
    (h : RSim (UpP P) ds w1 w2 r1 r2) : RSim P ds w1 w2 (leaveFrame r1) (leaveFrame r2) := by
  refine sim_post leaveFrame leaveFrame_world ?_ ?_ h
  · rintro ⟨w, o⟩ ⟨s', e, hs'⟩
    simp only at e; subst e
    cases hs' with
    | oof => exact ⟨.oof, rfl, hP.oof⟩
    | up h' => exact ⟨_, rfl, h'⟩
  · rintro ⟨w, o⟩ ⟨w', o'⟩ e
    simp only at e; subst e
    cases o with
    | none => rfl
    | some s => cases s <;> rfl

theorem sim_leaveOnce {P : Sig → Prop} (hP : OofLike P) {ds : List (Nat × Nat)} {w1 w2 : World} {r1 r2 : R}
    (h : RSim (UpP P) ds w1 w2 r1 r2) : RSim P ds w1 w2 (leaveOnce r1) (leaveOnce r2) := by
  refine sim_post leaveOnce leaveOnce_world ?_ ?_ h
  · rintro ⟨w, o⟩ ⟨s', e, hs'⟩
    simp only at e; subst e
    cases hs' with
    | oof => exact ⟨.oof, rfl, hP.oof⟩
    | up h' => exact ⟨_, rfl, h'⟩
  · rintro ⟨w, o⟩ ⟨w', o'⟩ e
    simp only at e; subst e
    cases o with
    | none => rfl
    | some s => cases s <;> rfl

theorem wrapK_world (k : K) (w : World) : (wrapK k w).1 = (k w).1 := by
  unfold wrapK
  rcases k w with ⟨w', o⟩
  cases o <;> rfl

def upR : R → R
  | (w', some s) => (w', some (Sig.up s))
  | r => r

theorem wrapK_eq_upR (k : K) (w : World) : wrapK k w = upR (k w) := by
  unfold wrapK upR
  rcases k w with ⟨w', o⟩
  cases o <;> rfl

theorem sim_wrapK {P : Sig → Prop} {S : Cpl} {ds : List (Nat × Nat)} {K1 K2 : K} (h : KSim P S ds K1 K2) :
    KSim (UpP P) S ds (wrapK K1) (wrapK K2) := by
  intro S' hs w1 w2 hw
  have h' := h S' hs w1 w2 hw
  rw [wrapK_eq_upR, wrapK_eq_upR]
  refine sim_post upR ?_ ?_ ?_ h'
  · rintro ⟨w, o⟩; cases o <;> rfl
  · rintro ⟨w, o⟩ ⟨s', e, hs'⟩
    simp only at e; subst e
    exact ⟨_, rfl, .up hs'⟩
  · rintro ⟨w, o⟩ ⟨w', o'⟩ e
    simp only at e; subst e
    cases o <;> rfl

/-- when the first part ended normally, the runs continue from related worlds -/
theorem sim_andThen {P : Sig → Prop} {S : Cpl} {ds : List (Nat × Nat)} {w1 w2 : World} {r1 r2 : R}
    {f1 f2 : World → R} (hw : WRel S ds w1 w2) (h : RSim P ds w1 w2 r1 r2)
    (hf : ∀ w1' w2', WRel S ds w1' w2' → RSim P ds w1' w2' (f1 w1') (f2 w2'))
    (c1 : CycMono f1) (c2 : CycMono f2) : RSim P ds w1 w2 (andThenR f1 r1) (andThenR f2 r2) := by
  obtain ⟨v1, o1⟩ := r1
  obtain ⟨v2, o2⟩ := r2
  rcases h with (h | h | h | h) | h
  · obtain ⟨s, e, hs⟩ := h
    simp only at e; subst e
    exact Or.inl (Or.inl ⟨s, rfl, hs⟩)
  · obtain ⟨s, e, hs⟩ := h
    simp only at e; subst e
    exact Or.inl (Or.inr (Or.inl ⟨s, rfl, hs⟩))
  · refine Or.inl (Or.inr (Or.inr (Or.inl ?_)))
    cases o1 with
    | none => exact c1 _ h
    | some s => exact h
  · refine Or.inl (Or.inr (Or.inr (Or.inr ?_)))
    cases o2 with
    | none => exact c2 _ h
    | some s => exact h
  · have e : o1 = o2 := h.sig
    subst e
    cases o1 with
    | none =>
      exact (hf v1 v2 (h.wrel hw)).rebase h.b1 h.b2 h.next1 h.next2
    | some s => exact Or.inr h

theorem sim_iteR {P : Sig → Prop} (hP : OofLike P) {S : Cpl} {ds : List (Nat × Nat)} {w1 w2 : World} {r1 r2 : R}
    {f1 f2 : World → R} (d : Nat) (hw : WRel S ds w1 w2) (h : RSim P ds w1 w2 r1 r2)
    (hf : ∀ w1' w2', WRel S ds w1' w2' → RSim P ds w1' w2' (f1 w1') (f2 w2'))
    (c1 : CycMono f1) (c2 : CycMono f2) : RSim P ds w1 w2 (iteR d f1 r1) (iteR d f2 r2) := by
  obtain ⟨v1, o1⟩ := r1
  obtain ⟨v2, o2⟩ := r2
  have keep : ∀ (f : World → R) (v : World) (s : Sig), P s → iteR d f (v, some s) = (v, some s) := by
    intro f v s hs
    cases s <;> first | rfl | exact absurd hs (hP.commit _)
  rcases h with (h | h | h | h) | h
  · obtain ⟨s, e, hs⟩ := h
    simp only at e; subst e
    rw [keep _ _ _ hs]
    exact Or.inl (Or.inl ⟨s, rfl, hs⟩)
  · obtain ⟨s, e, hs⟩ := h
    simp only at e; subst e
    rw [keep _ _ _ hs]
    exact Or.inl (Or.inr (Or.inl ⟨s, rfl, hs⟩))
  · exact Or.inl (Or.inr (Or.inr (Or.inl (iteR_cyc d f1 _ h c1))))
  · exact Or.inl (Or.inr (Or.inr (Or.inr (iteR_cyc d f2 _ h c2))))
  · have e : o1 = o2 := h.sig
    subst e
    cases o1 with
    | none => exact (hf v1 v2 (h.wrel hw)).rebase h.b1 h.b2 h.next1 h.next2
    | some s =>
      cases s with
      | commit d' =>
        simp only [iteR_commit]
        split
        · exact Or.inr ⟨rfl, h.b1, h.b2, h.next1, h.next2, h.cyc1, h.cyc2, h.db, h.closed, h.stamp, h.acc⟩
        · exact Or.inr h
      | _ => exact Or.inr h

/-! ### two unification-like generators, from their shapes -/

theorem core_eq_iff (w' w : World) :
    w'.core = w.core ↔ w'.next = w.next ∧ w'.db = w.db ∧ w'.stamp = w.stamp ∧ w'.acc = w.acc := by
  simp [World.core]

/-- worlds that differ from related worlds in the heap (and the flag) only -/
theorem WRel.of_core {S S' : Cpl} {ds : List (Nat × Nat)} {w1 w2 v1 v2 : World} (hw : WRel S ds w1 w2)
    (e1 : v1.core = w1.core) (e2 : v2.core = w2.core)
    (hcore : Core S' v1.b v2.b w1.next w2.next) (s1 : Solvable v1.b) (s2 : Solvable v2.b)
    (c1 : v1.cyc = false) (c2 : v2.cyc = false) : WRel S' ds v1 v2 := by
  obtain ⟨n1, d1, t1, a1⟩ := (core_eq_iff _ _).mp e1
  obtain ⟨n2, d2, t2, a2⟩ := (core_eq_iff _ _).mp e2
  refine ⟨by rw [n1, n2]; exact hcore, s1, s2, c1, c2, by rw [d1, d2]; exact hw.db, by rw [d1]; exact hw.closed,
    by rw [t1, t2]; exact hw.stamp, by rw [a1, a2, n1, n2]; exact hw.acc⟩

theorem Proper.of_core {S : Cpl} {ds : List (Nat × Nat)} {w1 w2 : World} {r1 r2 : R} (hw : WRel S ds w1 w2)
    (e1 : r1.1.core = w1.core) (e2 : r2.1.core = w2.core) (b1 : r1.1.b = w1.b) (b2 : r2.1.b = w2.b)
    (hs : r1.2 = r2.2) (c1 : r1.1.cyc = false) (c2 : r2.1.cyc = false) : Proper ds w1 w2 r1 r2 := by
  obtain ⟨n1, d1, t1, a1⟩ := (core_eq_iff _ _).mp e1
  obtain ⟨n2, d2, t2, a2⟩ := (core_eq_iff _ _).mp e2
  exact ⟨hs, b1, b2, by rw [n1]; exact Nat.le_refl _, by rw [n2]; exact Nat.le_refl _, c1, c2,
    by rw [d1, d2]; exact hw.db, by rw [d1]; exact hw.closed,
    by rw [t1, t2]; exact hw.stamp, by rw [a1, a2, n1, n2]; exact hw.acc⟩

/-- the outcome of the consumer at the yield, handed back through the `finally` blocks -/
theorem RSim.post {P : Sig → Prop} {ds : List (Nat × Nat)} {w1 w2 pre1 pre2 : World} {post1 post2 : World → World}
    {r1 r2 : R} (hp1 : PreOK w1 pre1) (hp2 : PreOK w2 pre2) (hq1 : PostOK w1 pre1 post1) (hq2 : PostOK w2 pre2 post2)
    (h : RSim P ds pre1 pre2 r1 r2) : RSim P ds w1 w2 (post1 r1.1, r1.2) (post2 r2.1, r2.2) := by
  rcases h with (h | h | h | h) | h
  · exact Or.inl (Or.inl h)
  · exact Or.inl (Or.inr (Or.inl h))
  · exact Or.inl (Or.inr (Or.inr (Or.inl (by show (post1 r1.1).cyc = true; rw [hq1.cyc]; exact h))))
  · exact Or.inl (Or.inr (Or.inr (Or.inr (by show (post2 r2.1).cyc = true; rw [hq2.cyc]; exact h))))
  · obtain ⟨n1, d1, t1, a1⟩ := (core_eq_iff _ _).mp (hq1.core r1.1)
    obtain ⟨n2, d2, t2, a2⟩ := (core_eq_iff _ _).mp (hq2.core r2.1)
    obtain ⟨m1, _, _, _⟩ := (core_eq_iff _ _).mp hp1.core
    obtain ⟨m2, _, _, _⟩ := (core_eq_iff _ _).mp hp2.core
    refine Or.inr ⟨h.sig, hq1.b _ h.b1, hq2.b _ h.b2, ?_, ?_, ?_, ?_, ?_, ?_, ?_, ?_⟩
    · show w1.next ≤ (post1 r1.1).next; rw [n1, ← m1]; exact h.next1
    · show w2.next ≤ (post2 r2.1).next; rw [n2, ← m2]; exact h.next2
    · show (post1 r1.1).cyc = false; rw [hq1.cyc]; exact h.cyc1
    · show (post2 r2.1).cyc = false; rw [hq2.cyc]; exact h.cyc2
    · show (post1 r1.1).db = (post2 r2.1).db; rw [d1, d2]; exact h.db
    · show DbClosed (post1 r1.1).db; rw [d1]; exact h.closed
    · show (post1 r1.1).stamp = (post2 r2.1).stamp; rw [t1, t2]; exact h.stamp
    · show AccRel ds (post1 r1.1).acc (post2 r2.1).acc (post1 r1.1).next (post2 r2.1).next
      rw [a1, a2, n1, n2]; exact h.acc

theorem solvable_nonempty {b : Bind} (h : Solvable b) : ∃ θ, Solves θ b := by
  obtain ⟨θ, hθ, _⟩ := h (fun _ => .atom "")
  exact ⟨θ, hθ⟩

/-- **Two unification-like generators on related worlds**: when the equations they impose cut
    corresponding sets of solutions out of the coupling (`S'`), they both yield — on worlds related
    by `S'` — or both do not. -/
theorem sim_shapes {P : Sig → Prop} (hP : OofLike P) {S S' : Cpl} {ds : List (Nat × Nat)} {w1 w2 : World}
    {g1 g2 : Gen} {U1 U2 : Val → Prop} {K1 K2 : K}
    (hw : WRel S ds w1 w2) (s1 : UShape U1 g1 w1) (s2 : UShape U2 g2 w2)
    (hsub : ∀ θ1 θ2, S' θ1 θ2 → S θ1 θ2 ∧ U1 θ1 ∧ U2 θ2)
    (htot1 : ∀ θ1, Solves θ1 w1.b → U1 θ1 → ∃ θ2, S' θ1 θ2)
    (htot2 : ∀ θ2, Solves θ2 w2.b → U2 θ2 → ∃ θ1, S' θ1 θ2)
    (hsupp : Supp S' w1.next w2.next)
    (hK : KSim P S' ds K1 K2) (c1 : CycMono K1) (c2 : CycMono K2) :
    RSim P ds w1 w2 (g1 K1 w1) (g2 K2 w2) := by
  cases s1 with
  | oof r1 hr1 hk1 => rw [hk1]; exact Or.inl (Or.inl ⟨_, hr1, hP.oof⟩)
  | fail r1 hr1 hk1 hno1 hc1 hb1 =>
    cases s2 with
    | oof r2 hr2 hk2 => rw [hk2]; exact Or.inl (Or.inr (Or.inl ⟨_, hr2, hP.oof⟩))
    | fail r2 hr2 hk2 hno2 hc2 hb2 =>
      rw [hk1, hk2]
      cases e1 : r1.1.cyc with
      | true => exact Or.inl (Or.inr (Or.inr (Or.inl e1)))
      | false =>
        cases e2 : r2.1.cyc with
        | true => exact Or.inl (Or.inr (Or.inr (Or.inr e2)))
        | false => exact Or.inr (Proper.of_core hw hc1 hc2 hb1 hb2 (hr1.trans hr2.symm) e1 e2)
    | once pre2 post2 hk2 hiff2 hpre2 hpost2 =>
      rw [hk2]
      cases e2 : pre2.cyc with
      | true =>
        refine Or.inl (Or.inr (Or.inr (Or.inr ?_)))
        show (post2 (K2 pre2).1).cyc = true
        rw [hpost2.cyc]; exact c2 _ e2
      | false =>
        exfalso
        obtain ⟨θ2, hθ2⟩ := solvable_nonempty (hpre2.solv e2 hw.solv2)
        obtain ⟨h2a, h2b⟩ := (hiff2 θ2).mp hθ2
        obtain ⟨θ1, hs'⟩ := htot2 θ2 h2a h2b
        obtain ⟨hs, hu1, _⟩ := hsub _ _ hs'
        exact hno1 θ1 (hw.core.sol1 _ _ hs) hu1
  | once pre1 post1 hk1 hiff1 hpre1 hpost1 =>
    cases s2 with
    | oof r2 hr2 hk2 => rw [hk2]; exact Or.inl (Or.inr (Or.inl ⟨_, hr2, hP.oof⟩))
    | fail r2 hr2 hk2 hno2 hc2 hb2 =>
      rw [hk1]
      cases e1 : pre1.cyc with
      | true =>
        refine Or.inl (Or.inr (Or.inr (Or.inl ?_)))
        show (post1 (K1 pre1).1).cyc = true
        rw [hpost1.cyc]; exact c1 _ e1
      | false =>
        exfalso
        obtain ⟨θ1, hθ1⟩ := solvable_nonempty (hpre1.solv e1 hw.solv1)
        obtain ⟨h1a, h1b⟩ := (hiff1 θ1).mp hθ1
        obtain ⟨θ2, hs'⟩ := htot1 θ1 h1a h1b
        obtain ⟨hs, _, hu2⟩ := hsub _ _ hs'
        exact hno2 θ2 (hw.core.sol2 _ _ hs) hu2
    | once pre2 post2 hk2 hiff2 hpre2 hpost2 =>
      rw [hk1, hk2]
      cases e1 : pre1.cyc with
      | true =>
        refine Or.inl (Or.inr (Or.inr (Or.inl ?_)))
        show (post1 (K1 pre1).1).cyc = true
        rw [hpost1.cyc]; exact c1 _ e1
      | false =>
        cases e2 : pre2.cyc with
        | true =>
          refine Or.inl (Or.inr (Or.inr (Or.inr ?_)))
          show (post2 (K2 pre2).1).cyc = true
          rw [hpost2.cyc]; exact c2 _ e2
        | false =>
          have hcore : Core S' pre1.b pre2.b w1.next w2.next := by
            refine ⟨?_, ?_, ?_, ?_, hsupp⟩
            · intro θ1 θ2 hs'
              obtain ⟨hs, hu1, _⟩ := hsub _ _ hs'
              exact (hiff1 θ1).mpr ⟨hw.core.sol1 _ _ hs, hu1⟩
            · intro θ1 θ2 hs'
              obtain ⟨hs, _, hu2⟩ := hsub _ _ hs'
              exact (hiff2 θ2).mpr ⟨hw.core.sol2 _ _ hs, hu2⟩
            · intro θ1 hθ1
              obtain ⟨ha, hb⟩ := (hiff1 θ1).mp hθ1
              exact htot1 θ1 ha hb
            · intro θ2 hθ2
              obtain ⟨ha, hb⟩ := (hiff2 θ2).mp hθ2
              exact htot2 θ2 ha hb
          have hw' : WRel S' ds pre1 pre2 :=
            hw.of_core hpre1.core hpre2.core hcore (hpre1.solv e1 hw.solv1) (hpre2.solv e2 hw.solv2) e1 e2
          exact RSim.post hpre1 hpre2 hpost1 hpost2 (hK S' (Sub.refl _) pre1 pre2 hw')

theorem TRelL.stable1 {S : Cpl} {n1 n2 : Nat} (hsupp : Supp S n1 n2) {l1 l2 : List Term}
    (hl : Forall₂ (TRel S) l1 l2) {θ1 θ2 θ1' : Val} (hs : S θ1 θ2) (e : ∀ x, x < n1 → θ1' x = θ1 x) :
    l1.map (Term.subst θ1') = l1.map (Term.subst θ1) := by
  induction hl with
  | nil => rfl
  | cons h _ ih => simp only [List.map_cons]; rw [h.stable1 hsupp hs e, ih]
theorem TRelL.stable2 {S : Cpl} {n1 n2 : Nat} (hsupp : Supp S n1 n2) {l1 l2 : List Term}
    (hl : Forall₂ (TRel S) l1 l2) {θ1 θ2 θ2' : Val} (hs : S θ1 θ2) (e : ∀ x, x < n2 → θ2' x = θ2 x) :
    l2.map (Term.subst θ2') = l2.map (Term.subst θ2) := by
  induction hl with
  | nil => rfl
  | cons h _ ih => simp only [List.map_cons]; rw [h.stable2 hsupp hs e, ih]

/-- equations between corresponding terms -/
theorem sim_eqs {P : Sig → Prop} (hP : OofLike P) {S : Cpl} {ds : List (Nat × Nat)} {w1 w2 : World}
    {g1 g2 : Gen} {L1 R1 L2 R2 : List Term} {K1 K2 : K} (hw : WRel S ds w1 w2)
    (s1 : UShape (fun θ => L1.map (Term.subst θ) = R1.map (Term.subst θ)) g1 w1)
    (s2 : UShape (fun θ => L2.map (Term.subst θ) = R2.map (Term.subst θ)) g2 w2)
    (hL : Forall₂ (TRel S) L1 L2) (hR : Forall₂ (TRel S) R1 R2)
    (hK : KSim P S ds K1 K2) (c1 : CycMono K1) (c2 : CycMono K2) :
    RSim P ds w1 w2 (g1 K1 w1) (g2 K2 w2) := by
  refine sim_shapes hP (S' := fun θ1 θ2 => S θ1 θ2 ∧ L1.map (Term.subst θ1) = R1.map (Term.subst θ1) ∧
      L2.map (Term.subst θ2) = R2.map (Term.subst θ2)) hw s1 s2 (fun _ _ h => h) ?_ ?_ ?_ (hK.sub (fun _ _ h => h.1)) c1 c2
  · intro θ1 hθ1 hu
    obtain ⟨θ2, hs⟩ := hw.core.tot1 θ1 hθ1
    exact ⟨θ2, hs, hu, by rw [← TRelL.map_eq hL hs, ← TRelL.map_eq hR hs]; exact hu⟩
  · intro θ2 hθ2 hu
    obtain ⟨θ1, hs⟩ := hw.core.tot2 θ2 hθ2
    exact ⟨θ1, hs, by rw [TRelL.map_eq hL hs, TRelL.map_eq hR hs]; exact hu, hu⟩
  · intro θ1 θ2 θ1' θ2' ⟨hs, hu1, hu2⟩ e1 e2
    refine ⟨hw.core.supp _ _ _ _ hs e1 e2, ?_, ?_⟩
    · rw [TRelL.stable1 hw.core.supp hL hs e1, TRelL.stable1 hw.core.supp hR hs e1]; exact hu1
    · rw [TRelL.stable2 hw.core.supp hL hs e2, TRelL.stable2 hw.core.supp hR hs e2]; exact hu2

theorem unify_sim {P : Sig → Prop} (hP : OofLike P) {S : Cpl} {ds : List (Nat × Nat)} {w1 w2 : World}
    (f1 f2 : Nat) {a1 b1 a2 b2 : Term} {K1 K2 : K} (hw : WRel S ds w1 w2) (ha : TRel S a1 a2) (hb : TRel S b1 b2)
    (hK : KSim P S ds K1 K2) (c1 : CycMono K1) (c2 : CycMono K2) :
    RSim P ds w1 w2 (unify f1 a1 b1 K1 w1) (unify f2 a2 b2 K2 w2) := by
  refine sim_eqs hP (L1 := [a1]) (R1 := [b1]) (L2 := [a2]) (R2 := [b2]) hw ?_ ?_ (.cons ha .nil) (.cons hb .nil) hK c1 c2
  · exact ushape_congr (fun θ _ => by simp) (unify_ushape f1 a1 b1 w1)
  · exact ushape_congr (fun θ _ => by simp) (unify_ushape f2 a2 b2 w2)

end Yld
