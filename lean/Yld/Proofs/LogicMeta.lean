/-
  findall/3 and once/1 against the logical reading (C09).

  `findall(T, G, L)` runs `G` with a consumer that appends a copy of the instantiated template to a
  list (`findallCollect`), then unifies `L` with the list. `once(G)` runs `G` and abandons it after the
  first answer. Through `call_appends_arguments` (C09) the goal is `query cfg f name args` for the
  name and arguments the goal term dereferences to. For a goal of a Horn program (with any closed
  fact store), in terms of `HoldsF` (`Yld.Proofs.LogicFacts`):

  * every element of the list findall collects is, in each of its instances, an instance `T[θ]` of the
    template for which `G[θ]` follows from program and store;
  * (no cut) when the search completes, every `T[θ]` with `G[θ]` a consequence is an instance of an
    element of the list;
  * once(G) runs its continuation only where `G` holds, and (no cut) does run it — or ends
    abnormally — when some instance of `G` is a consequence.

  STATEMENTS IN THIS FILE ARE FIXED (see the task description); proofs to be supplied.

  Proofs: `LgMOnce` (the consumer of the run under `once`), `LgMFindall` (the list comprehension as a quiet,
  recording consumer; the copy of the resolved template), for an abstract meaning of goals / the ranked
  meaning; see `LOGIC_META_REPORT.md`.
-/
import Yld.Proofs.LogicFacts
import Yld.Proofs.LogicNaf
import Yld.Proofs.LgMOnce
import Yld.Proofs.LgMFindall
set_option linter.unusedVariables false
namespace Yld

/-- the list findall's comprehension has collected when the goal's enumeration is over -/
def collected (r : R) : List Term := r.1.acc.headD []

/-- **findall collects only consequences.** Every instance of every collected element is an instance of
    the template under a solution of the starting heap for which the goal follows from program and
    store. (Acyclic unflagged start; the run must not have built a cyclic term.) -/
theorem findall_collects_only_consequences (cfg : Cfg) (preds : List Pred) (h : HornCfg cfg preds)
    (f f' : Nat) (name : String) (args : List Term) (tmpl : Term) (hname : userName name = true)
    (w : World) (hcl : DbClosed w.db) (hsc : w.Scoped) (hsolv : Solvable w.b) (hcyc : w.cyc = false)
    (hargs : ∀ t ∈ args, ∀ x ∈ t.vars, x < w.next) (htmpl : ∀ x ∈ tmpl.vars, x < w.next)
    (hc : (query cfg f name args (findallCollect f' tmpl) { w with acc := [] :: w.acc }).1.cyc = false) :
    ∀ e ∈ collected (query cfg f name args (findallCollect f' tmpl) { w with acc := [] :: w.acc }),
      ∀ ρ : Nat → Term, ∃ θ, Solves θ w.b ∧ e.subst ρ = tmpl.subst θ ∧
        HoldsF w.db preds name (args.map (Term.subst θ)) := by
  have hg : Lg.F.Good ⟨w.db, hcl⟩ True { w with acc := [] :: w.acc } := ⟨rfl, hsc, fun _ _ => hsolv⟩
  intro e he ρ
  exact Lg.F.collected_sound h.hc (sem_holdsF ⟨w.db, hcl⟩ preds) f f' hname args tmpl _ hg hargs rfl hc e he ρ

/-- **findall collects every consequence (no cut).** When the goal's enumeration ends normally, every
    instance of the template whose goal instance follows from program and store is an instance of a
    collected element. -/
theorem findall_collects_every_consequence (cfg : Cfg) (preds : List Pred) (h : HornCfg cfg preds)
    (hnocut : ∀ p ∈ preds, ∀ c ∈ p.clauses, c.body.cutFree = true)
    (f f' : Nat) (name : String) (args : List Term) (tmpl : Term) (hname : userName name = true)
    (w : World) (hcl : DbClosed w.db) (hsc : w.Scoped)
    (hargs : ∀ t ∈ args, ∀ x ∈ t.vars, x < w.next) (htmpl : ∀ x ∈ tmpl.vars, x < w.next)
    (hend : (query cfg f name args (findallCollect f' tmpl) { w with acc := [] :: w.acc }).2 = none)
    (θ : Nat → Term) (hθ : Solves θ w.b) (hh : HoldsF w.db preds name (args.map (Term.subst θ))) :
    ∃ e ∈ collected (query cfg f name args (findallCollect f' tmpl) { w with acc := [] :: w.acc }),
      ∃ ρ : Nat → Term, e.subst ρ = tmpl.subst θ := by
  obtain ⟨r, hr⟩ := holdsF_hn ⟨w.db, hcl⟩ preds hh
  have hg : Lg.F.Good ⟨w.db, hcl⟩ False { w with acc := [] :: w.acc } := ⟨rfl, hsc, False.elim⟩
  exact Lg.F.collected_complete h.hc (fun p hp c hc => by rw [← cutFree_eq_nocut]; exact hnocut p hp c hc) f f' hname
    args tmpl _ hg hargs htmpl θ hθ r hr hend

/-- **once(G) runs its continuation only where `G` holds.** -/
theorem once_sees_only_consequences (cfg : Cfg) (preds : List Pred) (h : HornCfg cfg preds)
    (f : Nat) (name : String) (args : List Term) (hname : userName name = true)
    (w : World) (hcl : DbClosed w.db) (hsc : w.Scoped) (hargs : ∀ t ∈ args, ∀ x ∈ t.vars, x < w.next)
    (k1 k2 : K) (hq1 : Quiet k1) (hq2 : Quiet k2)
    (hk : ∀ w', GoalHoldsF w.db preds name args w' → k1 w' = k2 w') :
    onceGen (query cfg f name args) k1 w = onceGen (query cfg f name args) k2 w :=
  Lg.F.once_sound (D := ⟨w.db, hcl⟩) h.hc (sem_holdsF ⟨w.db, hcl⟩ preds) False f hname args w
    ⟨rfl, hsc, False.elim⟩ hargs k1 k2 hq1.qk hq2.qk (fun w' hw' => hk w' hw'.2)

/-- **once(G) finds an answer when there is one (no cut).** If some instance of `G` follows from program
    and store, a continuation that always answers with a signal is reached, or the run ends
    abnormally: `once(G)` does not simply fail. -/
theorem once_succeeds_when_provable (cfg : Cfg) (preds : List Pred) (h : HornCfg cfg preds)
    (hnocut : ∀ p ∈ preds, ∀ c ∈ p.clauses, c.body.cutFree = true)
    (f : Nat) (name : String) (args : List Term) (hname : userName name = true)
    (w : World) (hcl : DbClosed w.db) (hsc : w.Scoped) (hargs : ∀ t ∈ args, ∀ x ∈ t.vars, x < w.next)
    (θ : Nat → Term) (hθ : Solves θ w.b) (hh : HoldsF w.db preds name (args.map (Term.subst θ)))
    (s : Sig) :
    (onceGen (query cfg f name args) (fun w' => (w', some s)) w).2 ≠ none := by
  obtain ⟨r, hr⟩ := holdsF_hn ⟨w.db, hcl⟩ preds hh
  exact Lg.F.once_complete (D := ⟨w.db, hcl⟩) h.hc
    (fun p hp c hc => by rw [← cutFree_eq_nocut]; exact hnocut p hp c hc) f hname args w θ
    ⟨rfl, hsc, False.elim⟩ hargs hθ r hr s

/-! ### Non-vacuity: `factEngine`'s program `app/3` and store (`item(a)`, `app([b], Y, [b|Y])`)

`findall(p(X,Y), app(X,Y,[a]), L)` and `once(app(X,Y,[a]))` in `factWorld` (`X`, `Y` the cells 0 and 1):
the instance `X = [a], Y = []` follows from the program. `findall(p(Y,Z), app([b],Y,Z), L)` collects
elements with a variable of their own (the stored fact is not ground). -/

/-- `app([a],[],[a])` follows from program and store (by the clauses alone) -/
theorem appF_a_holds : HoldsF factDb [appPred] "app" [mkList [.atom "a"], .atom "[]", mkList [.atom "a"]] := by
  have h1 : HoldsF factDb [appPred] "app" (appClause1.head.map (STerm.inst fun _ => .atom "[]")) :=
    .clause appPred appClause1 _ (by simp) (by simp [appPred]) (.tru _)
  have h2 : HoldsF factDb [appPred] "app"
      (appClause2.head.map (STerm.inst fun v => if v = "H" then .atom "a" else .atom "[]")) := by
    refine .clause appPred appClause2 _ (by simp) (by simp [appPred]) (.call _ _ _ ?_)
    simpa [appClause1, STerm.inst, mkList] using h1
  simpa [appClause2, STerm.inst, mkList] using h2

/-- the template `p(X, Y)` -/
def pairTmpl : Term := .fn "p" [.var 0, .var 1]

theorem appGoal_scopedF : ∀ t ∈ appGoal, ∀ x ∈ t.vars, x < factWorld.next := by
  simp [appGoal, factWorld, Term.vars, mkList]
theorem pairTmpl_scoped : ∀ x ∈ pairTmpl.vars, x < factWorld.next := by
  simp [pairTmpl, factWorld, Term.vars]
theorem appθ_solvesF : Solves appθ factWorld.b := fun x u h => by cases h
theorem appGoal_holdsF : HoldsF factWorld.db [appPred] "app" (appGoal.map (Term.subst appθ)) := by
  show HoldsF factDb _ _ _
  simpa [appGoal, appθ, Term.subst, mkList] using appF_a_holds

/-- theorem 1 applies: what `findall(p(X,Y), app(X,Y,[a]), L)` collects -/
example (f f' : Nat)
    (hc : (query appCfg f "app" appGoal (findallCollect f' pairTmpl) { factWorld with acc := [] :: factWorld.acc }).1.cyc = false) :
    ∀ e ∈ collected (query appCfg f "app" appGoal (findallCollect f' pairTmpl) { factWorld with acc := [] :: factWorld.acc }),
      ∀ ρ : Nat → Term, ∃ θ, Solves θ factWorld.b ∧ e.subst ρ = pairTmpl.subst θ ∧
        HoldsF factDb [appPred] "app" (appGoal.map (Term.subst θ)) :=
  findall_collects_only_consequences appCfg [appPred] app_hornCfg f f' "app" appGoal pairTmpl (by decide) factWorld
    factDb_closed factWorld_scoped solvable_empty rfl appGoal_scopedF pairTmpl_scoped hc

/-- theorem 2 applies: a completed enumeration has collected an element of which `p([a],[])` is an instance -/
example (f f' : Nat)
    (hend : (query appCfg f "app" appGoal (findallCollect f' pairTmpl) { factWorld with acc := [] :: factWorld.acc }).2 = none) :
    ∃ e ∈ collected (query appCfg f "app" appGoal (findallCollect f' pairTmpl) { factWorld with acc := [] :: factWorld.acc }),
      ∃ ρ : Nat → Term, e.subst ρ = pairTmpl.subst appθ :=
  findall_collects_every_consequence appCfg [appPred] app_hornCfg app_nocut f f' "app" appGoal pairTmpl (by decide)
    factWorld factDb_closed factWorld_scoped appGoal_scopedF pairTmpl_scoped hend appθ appθ_solvesF appGoal_holdsF

/-- theorem 3 applies to `once(app(X,Y,[a]))` -/
example (f : Nat) (k1 k2 : K) (hq1 : Quiet k1) (hq2 : Quiet k2)
    (hk : ∀ w', GoalHoldsF factDb [appPred] "app" appGoal w' → k1 w' = k2 w') :
    onceGen (query appCfg f "app" appGoal) k1 factWorld = onceGen (query appCfg f "app" appGoal) k2 factWorld :=
  once_sees_only_consequences appCfg [appPred] app_hornCfg f "app" appGoal (by decide) factWorld factDb_closed
    factWorld_scoped appGoal_scopedF k1 k2 hq1 hq2 hk

/-- theorem 4 applies: `once(app(X,Y,[a]))` does not simply fail -/
example (f : Nat) (s : Sig) :
    (onceGen (query appCfg f "app" appGoal) (fun w' => (w', some s)) factWorld).2 ≠ none :=
  once_succeeds_when_provable appCfg [appPred] app_hornCfg app_nocut f "app" appGoal (by decide) factWorld
    factDb_closed factWorld_scoped appGoal_scopedF appθ appθ_solvesF appGoal_holdsF s

/-- the goal `app([b], Y, Z)`, `Y` and `Z` the cells 0 and 1: its first answer comes from the stored
    fact `app([b], Y', [b|Y'])` and leaves `Y` open -/
def appGoalB : List Term := [mkList [.atom "b"], .var 0, .var 1]

example (f f' : Nat)
    (hc : (query appCfg f "app" appGoalB (findallCollect f' pairTmpl) { factWorld with acc := [] :: factWorld.acc }).1.cyc = false) :
    ∀ e ∈ collected (query appCfg f "app" appGoalB (findallCollect f' pairTmpl) { factWorld with acc := [] :: factWorld.acc }),
      ∀ ρ : Nat → Term, ∃ θ, Solves θ factWorld.b ∧ e.subst ρ = pairTmpl.subst θ ∧
        HoldsF factDb [appPred] "app" (appGoalB.map (Term.subst θ)) :=
  findall_collects_only_consequences appCfg [appPred] app_hornCfg f f' "app" appGoalB pairTmpl (by decide) factWorld
    factDb_closed factWorld_scoped solvable_empty rfl (by simp [appGoalB, factWorld, Term.vars, mkList])
    pairTmpl_scoped hc

/-- the model, evaluated (limit 12): the list collected for `findall(p(X,Y), app(X,Y,[a]), L)`, how the
    enumeration ended, the flag; the same for `findall(p(Y,Z), app([b],Y,Z), L)` (both elements have a
    variable of their own: the cells 3 and 11); `once(app(X,Y,[a]))` with a
    continuation that raises `exn "called"` -/
def findallRun (goal : List Term) : R :=
  query appCfg 12 "app" goal (findallCollect 12 pairTmpl) { factWorld with acc := [] :: factWorld.acc }
#eval collected (findallRun appGoal)
#eval ((findallRun appGoal).2, (findallRun appGoal).1.cyc)
#eval collected (findallRun appGoalB)
#eval ((findallRun appGoalB).2, (findallRun appGoalB).1.cyc)
#eval (onceGen (query appCfg 12 "app" appGoal) nafProbe factWorld).2

#print axioms findall_collects_only_consequences
#print axioms findall_collects_every_consequence
#print axioms once_sees_only_consequences
#print axioms once_succeeds_when_provable

end Yld
