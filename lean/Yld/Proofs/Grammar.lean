/-
  The model parser accepts only sentences of the grammar.

  `Generated.grammar` is the BNF of the parser rules of prolog.g4, regenerated from the file on
  every run. `Derives` is derivability in that table. `recogniseToks_sound`: a token list the
  model's syntax-only recogniser accepts derives from `program`; `frontend_sound`: so does every
  text the model front end (lexer + parser + visitor) accepts.
-/
import Yld.Model.Parser
import Yld.Generated.Grammar
namespace Yld

abbrev GSym := Bool × String      -- (isTerminal, name)

mutual
/-- `Derives G X ks`: the symbol X derives the token-kind string ks. -/
inductive Derives (G : List (String × List GSym)) : GSym → List String → Prop
  | term (k : String) : Derives G (true, k) [k]
  | rule (lhs : String) (rhs : List GSym) (ks : List String) :
      (lhs, rhs) ∈ G → DerivesSeq G rhs ks → Derives G (false, lhs) ks
inductive DerivesSeq (G : List (String × List GSym)) : List GSym → List String → Prop
  | nil : DerivesSeq G [] []
  | cons (x : GSym) (xs : List GSym) (k1 k2 : List String) :
      Derives G x k1 → DerivesSeq G xs k2 → DerivesSeq G (x :: xs) (k1 ++ k2)
end

def kinds (toks : List Tok) : List String := toks.map Tok.kind


/-! ### Introduction lemmas, one per production used -/
namespace GS

abbrev G := Generated.grammar
abbrev D (X : String) (ks : List String) : Prop := Derives Generated.grammar (false, X) ks
theorem T (k : String) : Derives G (true, k) [k] := Derives.term k

theorem seq1 {x k} (h : Derives G x k) : DerivesSeq G [x] k := by
  simpa using DerivesSeq.cons x [] k [] h .nil
theorem seq2 {x y k1 k2} (h1 : Derives G x k1) (h2 : Derives G y k2) :
    DerivesSeq G [x, y] (k1 ++ k2) := .cons _ _ _ _ h1 (seq1 h2)
theorem seq3 {x y z k1 k2 k3} (h1 : Derives G x k1) (h2 : Derives G y k2) (h3 : Derives G z k3) :
    DerivesSeq G [x, y, z] (k1 ++ (k2 ++ k3)) := .cons _ _ _ _ h1 (seq2 h2 h3)
theorem seq4 {x y z w k1 k2 k3 k4} (h1 : Derives G x k1) (h2 : Derives G y k2)
    (h3 : Derives G z k3) (h4 : Derives G w k4) :
    DerivesSeq G [x, y, z, w] (k1 ++ (k2 ++ (k3 ++ k4))) := .cons _ _ _ _ h1 (seq3 h2 h3 h4)
theorem seq6 {x1 x2 x3 x4 x5 x6 k1 k2 k3 k4 k5 k6} (h1 : Derives G x1 k1) (h2 : Derives G x2 k2)
    (h3 : Derives G x3 k3) (h4 : Derives G x4 k4) (h5 : Derives G x5 k5) (h6 : Derives G x6 k6) :
    DerivesSeq G [x1, x2, x3, x4, x5, x6] (k1 ++ (k2 ++ (k3 ++ (k4 ++ (k5 ++ k6))))) :=
  .cons _ _ _ _ h1 (.cons _ _ _ _ h2 (seq4 h3 h4 h5 h6))

theorem d_atom_ATOM : D "atom" ["ATOM"] := .rule _ _ _ (by decide) (seq1 (T _))
theorem d_atom_NUMERAL : D "atom" ["NUMERAL"] := .rule _ _ _ (by decide) (seq1 (T _))
theorem d_atom_STRING : D "atom" ["STRING"] := .rule _ _ _ (by decide) (seq1 (T _))


theorem d_term_atom {ks} (h : D "atom" ks) : D "term" ks := .rule _ _ _ (by decide) (seq1 h)
theorem d_term_functor {ks} (h : D "functor" ks) : D "term" ks := .rule _ _ _ (by decide) (seq1 h)
theorem d_functor {ka kl} (ha : D "atom" ka) (hl : D "termlist" kl) :
    D "functor" (ka ++ (["'('"] ++ (kl ++ ["')'"]))) :=
  .rule _ _ _ (by decide) (seq4 ha (T _) hl (T _))
theorem d_term_slash : D "term" ["ATOM", "'/'", "NUMERAL"] :=
  .rule _ _ _ (by decide) (seq3 (T _) (T _) (T _))
theorem d_term_var : D "term" ["VARIABLE"] := .rule _ _ _ (by decide) (seq1 (T _))
theorem d_term_unop {ks} (h : D "term" ks) : D "term" ("UNOP" :: ks) :=
  .rule _ _ _ (by decide) (seq2 (T _) h)
theorem d_term_bin {k1 k2} (h1 : D "term" k1) (h2 : D "term" k2) : D "term" (k1 ++ "BINOP" :: k2) :=
  .rule _ _ _ (by decide) (seq3 h1 (T _) h2)
theorem d_term_binfn {k1 k2} (h1 : D "term" k1) (h2 : D "term" k2) :
    D "term" ("BINOP" :: "'('" :: (k1 ++ "','" :: (k2 ++ ["')'"]))) :=
  .rule _ _ _ (by decide) (seq6 (T _) (T _) h1 (T _) h2 (T _))
theorem d_term_paren {ks} (h : D "term" ks) : D "term" ("'('" :: (ks ++ ["')'"])) :=
  .rule _ _ _ (by decide) (seq3 (T _) h (T _))
theorem d_term_list {ks} (h : D "termlist" ks) : D "term" ("LBRACK" :: (ks ++ ["RBRACK"])) :=
  .rule _ _ _ (by decide) (seq3 (T _) h (T _))
theorem d_term_lbar {k1 k5} (h1 : D "term" k1) (h5 : D "term$5" k5) :
    D "term" ("LBRACK" :: (k1 ++ (k5 ++ ["'|'", "VARIABLE", "RBRACK"]))) :=
  .rule _ _ _ (by decide) (seq6 (T _) h1 h5 (T _) (T _) (T _))
theorem d_termlist_nil : D "termlist" [] := .rule _ _ _ (by decide) .nil
theorem d_termlist_cons {k1 k3} (h1 : D "term" k1) (h3 : D "termlist$3" k3) :
    D "termlist" (k1 ++ k3) := .rule _ _ _ (by decide) (seq2 h1 h3)
theorem d_tl4 {k} (h : D "term" k) : D "termlist$4" ("','" :: k) :=
  .rule _ _ _ (by decide) (seq2 (T _) h)
theorem d_tl3_nil : D "termlist$3" [] := .rule _ _ _ (by decide) .nil
theorem d_tl3_cons {k1 k3} (h1 : D "term" k1) (h3 : D "termlist$3" k3) :
    D "termlist$3" ("','" :: (k1 ++ k3)) := .rule _ _ _ (by decide) (seq2 (d_tl4 h1) h3)
theorem d_term5_nil : D "term$5" [] := .rule _ _ _ (by decide) .nil
theorem d_term5 {k} (h : D "termlist" k) : D "term$5" ("','" :: k) :=
  .rule _ _ _ (by decide) (seq1 (.rule "term$6" _ _ (by decide) (seq2 (T _) h)))

theorem d_sp_true : D "simplepredicate" ["TRUE"] := .rule _ _ _ (by decide) (seq1 (T _))
theorem d_sp_fail : D "simplepredicate" ["FAIL"] := .rule _ _ _ (by decide) (seq1 (T _))
theorem d_sp_cut : D "simplepredicate" ["CUT"] := .rule _ _ _ (by decide) (seq1 (T _))
theorem d_sp_term {k} (h : D "term" k) : D "simplepredicate" k :=
  .rule _ _ _ (by decide) (seq1 (.rule "termpredicate" _ _ (by decide) (seq1 h)))
theorem d_pe_sp {k} (h : D "simplepredicate" k) : D "predicateexpression" k :=
  .rule _ _ _ (by decide) (seq1 h)
theorem d_pe_naf {k} (h : D "predicateexpression" k) : D "predicateexpression" ("'\\+'" :: k) :=
  .rule _ _ _ (by decide) (seq2 (T _) h)
theorem d_pe_comma {k1 k2} (h1 : D "predicateexpression" k1) (h2 : D "predicateexpression" k2) :
    D "predicateexpression" (k1 ++ "','" :: k2) := .rule _ _ _ (by decide) (seq3 h1 (T _) h2)
theorem d_pe_arrow {k1 k2} (h1 : D "predicateexpression" k1) (h2 : D "predicateexpression" k2) :
    D "predicateexpression" (k1 ++ "'->'" :: k2) := .rule _ _ _ (by decide) (seq3 h1 (T _) h2)
theorem d_pe_semi {k1 k2} (h1 : D "predicateexpression" k1) (h2 : D "predicateexpression" k2) :
    D "predicateexpression" (k1 ++ "';'" :: k2) := .rule _ _ _ (by decide) (seq3 h1 (T _) h2)
theorem d_pe_paren {k} (h : D "predicateexpression" k) :
    D "predicateexpression" ("'('" :: (k ++ ["')'"])) := .rule _ _ _ (by decide) (seq3 (T _) h (T _))
theorem d_cod_clause1 {k} (h : D "simplepredicate" k) : D "clauseordirective" (k ++ ["'.'"]) :=
  .rule _ _ _ (by decide) (seq1 (.rule "clause" _ _ (by decide) (seq2 h (T _))))
theorem d_cod_clause2 {k kb} (h : D "simplepredicate" k) (hb : D "predicateexpression" kb) :
    D "clauseordirective" (k ++ "':-'" :: (kb ++ ["'.'"])) :=
  .rule _ _ _ (by decide) (seq1 (.rule "clause" _ _ (by decide) (seq4 h (T _) hb (T _))))
theorem d_cod_directive {k} (h : D "simplepredicate" k) :
    D "clauseordirective" ("':-'" :: (k ++ ["'.'"])) :=
  .rule _ _ _ (by decide) (seq1 (.rule "directive" _ _ (by decide) (seq3 (T _) h (T _))))
theorem d_p1_nil : D "program$1" [] := .rule _ _ _ (by decide) .nil
theorem d_p1_cons {k1 k2} (h1 : D "clauseordirective" k1) (h2 : D "program$1" k2) :
    D "program$1" (k1 ++ k2) :=
  .rule _ _ _ (by decide) (seq2 (.rule "program$2" _ _ (by decide) (seq1 h1)) h2)
theorem d_program {k} (h : D "program$1" k) : D "program" k := .rule _ _ _ (by decide) (seq1 h)

end GS

namespace GS

/-- `toks` is `used ++ rest` and `used` derives from the nonterminal `X`. -/
def Con (X : String) (toks rest : List Tok) : Prop :=
  ∃ used, toks = used ++ rest ∧ D X (kinds used)

/-- kinds derivable both from `termlist$3` and from `term$5` (a `(',' term)*` tail). -/
def TLk (k : List String) : Prop := D "termlist$3" k ∧ D "term$5" k

theorem TLk_nil : TLk [] := ⟨d_tl3_nil, d_term5_nil⟩
theorem TLk_cons {k1 k3} (h1 : D "term" k1) (h3 : TLk k3) : TLk ("','" :: (k1 ++ k3)) :=
  ⟨d_tl3_cons h1 h3.1, d_term5 (d_termlist_cons h1 h3.1)⟩

/-- result of `parseTermList`: a term, then a `(',' term)*` tail that is empty if one item is returned -/
def TLOk (items : List RTerm) (toks rest : List Tok) : Prop :=
  ∃ u1 u2, toks = u1 ++ (u2 ++ rest) ∧ D "term" (kinds u1) ∧ TLk (kinds u2) ∧
    items ≠ [] ∧ (∀ x, items = [x] → u2 = [])

@[simp] theorem kinds_nil : kinds [] = [] := rfl
@[simp] theorem kinds_cons (t : Tok) (ts : List Tok) : kinds (t :: ts) = t.kind :: kinds ts := rfl
@[simp] theorem kinds_append (a b : List Tok) : kinds (a ++ b) = kinds a ++ kinds b := by
  simp [kinds]

theorem con_functor (tk : Tok) (hk : D "atom" [tk.kind]) (ul rest : List Tok)
    (h : D "termlist" (kinds ul)) : Con "term" (tk :: .lparen :: (ul ++ .rparen :: rest)) rest :=
  ⟨tk :: .lparen :: (ul ++ [.rparen]), by simp, by
    simpa [Tok.kind] using d_term_functor (d_functor hk h)⟩

def PP (f : Nat) : Prop := ∀ toks st t rest st',
  parsePrimary f toks st = .ok (t, rest, st') → Con "term" toks rest
def PA (f : Nat) : Prop := ∀ toks st name isNum t rest st',
  parseArgs f toks st name isNum = .ok (t, rest, st') →
    ∃ ul, toks = ul ++ .rparen :: rest ∧ D "termlist" (kinds ul)
def PL (f : Nat) : Prop := ∀ toks st items rest st',
  parseTermList f toks st = .ok (items, rest, st') → TLOk items toks rest
def PT (f : Nat) : Prop := ∀ toks st t rest st',
  parseTerm f toks st = .ok (t, rest, st') → Con "term" toks rest
def PB (f : Nat) : Prop := ∀ lhs toks st t rest st',
  parseBinTail f lhs toks st = .ok (t, rest, st') →
    ∀ pre, D "term" (kinds pre) → ∃ used, toks = used ++ rest ∧ D "term" (kinds (pre ++ used))

theorem pp_succ (f : Nat) (ihP : PP f) (ihA : PA f) (ihL : PL f) (ihT : PT f) : PP (f+1) := by
  intro toks st t rest st' h
  unfold parsePrimary at h
  split at h
  next s n rest1 =>
    cases h
    exact ⟨[.atom s, .slash, .num n], rfl, d_term_slash⟩
  next s rest1 =>
    obtain ⟨ul, rfl, hl⟩ := ihA _ _ _ _ _ _ _ h
    exact con_functor (.atom s) d_atom_ATOM _ _ hl
  next s rest1 =>
    obtain ⟨ul, rfl, hl⟩ := ihA _ _ _ _ _ _ _ h
    exact con_functor (.num s) d_atom_NUMERAL _ _ hl
  next s rest1 =>
    obtain ⟨ul, rfl, hl⟩ := ihA _ _ _ _ _ _ _ h
    exact con_functor (.str s) d_atom_STRING _ _ hl
  next s rest1 _ _ =>
    cases h
    exact ⟨[.atom s], rfl, d_term_atom d_atom_ATOM⟩
  next s rest1 _ =>
    cases h
    exact ⟨[.num s], rfl, d_term_atom d_atom_NUMERAL⟩
  next s rest1 _ =>
    cases h
    exact ⟨[.str s], rfl, d_term_atom d_atom_STRING⟩
  next s rest1 =>
    split at h
    cases h
    exact ⟨[.var s], rfl, d_term_var⟩
  next o rest1 =>
    split at h
    next t1 rest2 st2 heq =>
      cases h
      obtain ⟨u, rfl, hu⟩ := ihP _ _ _ _ _ heq
      exact ⟨.unop o :: u, by simp, by simpa [Tok.kind] using d_term_unop hu⟩
    next => cases h
  next o rest1 =>
    split at h
    next a rest2 st2 heq =>
      split at h
      next b rest3 st3 heq2 =>
        cases h
        obtain ⟨u, rfl, hu⟩ := ihT _ _ _ _ _ heq
        obtain ⟨u', rfl, hu'⟩ := ihT _ _ _ _ _ heq2
        exact ⟨.binop o :: .lparen :: (u ++ .comma :: (u' ++ [.rparen])), by simp, by
          simpa [Tok.kind] using d_term_binfn hu hu'⟩
      next => cases h
      next => cases h
    next => cases h
    next => cases h
  next rest1 =>
    split at h
    next t1 rest2 st2 heq =>
      cases h
      obtain ⟨u, rfl, hu⟩ := ihT _ _ _ _ _ heq
      exact ⟨.lparen :: (u ++ [.rparen]), by simp, by simpa [Tok.kind] using d_term_paren hu⟩
    next => cases h
    next => cases h
  next rest1 =>
    cases h
    exact ⟨[.lbrack, .rbrack], rfl, by simpa [Tok.kind] using d_term_list d_termlist_nil⟩
  next rest1 _ =>
    split at h
    next items rest2 st2 heq =>
      cases h
      obtain ⟨u1, u2, rfl, h1, h2, _, _⟩ := ihL _ _ _ _ _ heq
      exact ⟨.lbrack :: (u1 ++ (u2 ++ [.rbrack])), by simp, by
        simpa [Tok.kind] using d_term_list (d_termlist_cons h1 h2.1)⟩
    next items v rest2 st2 heq =>
      split at h
      cases h
      obtain ⟨u1, u2, rfl, h1, h2, _, _⟩ := ihL _ _ _ _ _ heq
      exact ⟨.lbrack :: (u1 ++ (u2 ++ [.bar, .var v, .rbrack])), by simp, by
        simpa [Tok.kind] using d_term_lbar h1 h2.2⟩
    next item v rest2 st2 heq =>
      split at h
      cases h
      obtain ⟨u1, u2, rfl, h1, h2, _, hs⟩ := ihL _ _ _ _ _ heq
      have := hs item rfl
      subst this
      exact ⟨.lbrack :: (u1 ++ [.comma, .bar, .var v, .rbrack]), by simp, by
        simpa [Tok.kind] using d_term_lbar h1 (d_term5 d_termlist_nil)⟩
    next => cases h
    next => cases h
  next => cases h

theorem pa_succ (f : Nat) (ihL : PL f) : PA (f+1) := by
  intro toks st name isNum t rest st' h
  unfold parseArgs at h
  split at h
  next rest1 =>
    cases h
    exact ⟨[], by simp, d_termlist_nil⟩
  next =>
    split at h
    next args rest1 st1 heq =>
      cases h
      obtain ⟨u1, u2, rfl, h1, h2, _, _⟩ := ihL _ _ _ _ _ heq
      exact ⟨u1 ++ u2, by simp, by simpa using d_termlist_cons h1 h2.1⟩
    next => cases h
    next => cases h

theorem pl_succ (f : Nat) (ihL : PL f) (ihT : PT f) : PL (f+1) := by
  intro toks st items rest st' h
  unfold parseTermList at h
  split at h
  next t1 rest1 st1 heq =>
    cases h
    obtain ⟨u, rfl, hu⟩ := ihT _ _ _ _ _ heq
    exact ⟨u, [], by simp, hu, TLk_nil, by simp, fun _ _ => rfl⟩
  next t1 rest1 st1 _ heq =>
    split at h
    next ts rest2 st2 heq2 =>
      cases h
      obtain ⟨u, rfl, hu⟩ := ihT _ _ _ _ _ heq
      obtain ⟨u1, u2, rfl, h1, h2, hne, _⟩ := ihL _ _ _ _ _ heq2
      refine ⟨u, .comma :: (u1 ++ u2), by simp, hu, ?_, by simp, ?_⟩
      · simpa [Tok.kind] using TLk_cons h1 h2
      · intro x hx
        simp at hx
        exact absurd hx.2 hne
    next => cases h
  next t1 rest1 st1 _ _ heq =>
    cases h
    obtain ⟨u, rfl, hu⟩ := ihT _ _ _ _ _ heq
    exact ⟨u, [], by simp, hu, TLk_nil, by simp, fun _ _ => rfl⟩
  next => cases h

theorem pt_succ (f : Nat) (ihP : PP f) (ihB : PB f) : PT (f+1) := by
  intro toks st t rest st' h
  unfold parseTerm at h
  split at h
  next t1 rest1 st1 heq =>
    obtain ⟨u, rfl, hu⟩ := ihP _ _ _ _ _ heq
    obtain ⟨u', rfl, hu'⟩ := ihB _ _ _ _ _ _ h u hu
    exact ⟨u ++ u', by simp, hu'⟩
  next => cases h

theorem pb_succ (f : Nat) (ihP : PP f) (ihB : PB f) : PB (f+1) := by
  intro lhs toks st t rest st' h pre hpre
  unfold parseBinTail at h
  split at h
  next o rest1 =>
    split at h
    next rhs rest2 st2 heq =>
      obtain ⟨u, rfl, hu⟩ := ihP _ _ _ _ _ heq
      obtain ⟨u', rfl, hu'⟩ := ihB _ _ _ _ _ _ h (pre ++ .binop o :: u) (by
        simpa [Tok.kind] using d_term_bin hpre hu)
      exact ⟨.binop o :: (u ++ u'), by simp, by simpa using hu'⟩
    next => cases h
  next =>
    cases h
    exact ⟨[], by simp, by simpa using hpre⟩

theorem term_sound : ∀ f, PP f ∧ PA f ∧ PL f ∧ PT f ∧ PB f := by
  intro f
  induction f with
  | zero =>
    refine ⟨?_, ?_, ?_, ?_, ?_⟩
    · intro toks st t rest st' h; simp [parsePrimary] at h
    · intro toks st name isNum t rest st' h; simp [parseArgs] at h
    · intro toks st items rest st' h; simp [parseTermList] at h
    · intro toks st t rest st' h; simp [parseTerm] at h
    · intro lhs toks st t rest st' h; simp [parseBinTail] at h
  | succ f ih =>
    obtain ⟨ihP, ihA, ihL, ihT, ihB⟩ := ih
    exact ⟨pp_succ f ihP ihA ihL ihT, pa_succ f ihL, pl_succ f ihL ihT, pt_succ f ihP ihB,
      pb_succ f ihP ihB⟩

theorem goal_sound (f : Nat) (toks : List Tok) (st : PS) (g : RGoal) (rest : List Tok) (st' : PS)
    (h : parseGoal f toks st = .ok (g, rest, st')) : Con "simplepredicate" toks rest := by
  unfold parseGoal at h
  split at h
  next rest1 => cases h; exact ⟨[.tru], rfl, d_sp_true⟩
  next rest1 => cases h; exact ⟨[.fail], rfl, d_sp_fail⟩
  next rest1 => cases h; exact ⟨[.cut], rfl, d_sp_cut⟩
  next =>
    split at h
    next t rest1 st1 heq =>
      cases h
      obtain ⟨u, rfl, hu⟩ := (term_sound f).2.2.2.1 _ _ _ _ _ heq
      exact ⟨u, rfl, d_sp_term hu⟩
    next => cases h

theorem d_pe_op {op : Tok} {q : Nat} (hq : binPrec op = some q) {k1 k2 : List String}
    (h1 : D "predicateexpression" k1) (h2 : D "predicateexpression" k2) :
    D "predicateexpression" (k1 ++ op.kind :: k2) := by
  cases op <;> simp [binPrec] at hq
  · exact d_pe_comma h1 h2
  · exact d_pe_arrow h1 h2
  · exact d_pe_semi h1 h2

def BP (f : Nat) : Prop := ∀ toks st b rest st',
  parseBodyPrimary f toks st = .ok (b, rest, st') → Con "predicateexpression" toks rest
def BR (f : Nat) : Prop := ∀ toks st b rest st',
  parseParenBody f toks st = .ok (b, rest, st') →
    ∃ u, toks = u ++ .rparen :: rest ∧ D "predicateexpression" (kinds u)
def BB (f : Nat) : Prop := ∀ p toks st b rest st',
  parseBody f p toks st = .ok (b, rest, st') → Con "predicateexpression" toks rest
def BT (f : Nat) : Prop := ∀ p lhs toks st b rest st',
  parseBodyTail f p lhs toks st = .ok (b, rest, st') →
    ∀ pre, D "predicateexpression" (kinds pre) →
      ∃ used, toks = used ++ rest ∧ D "predicateexpression" (kinds (pre ++ used))

theorem con_paren {rest1 rest : List Tok}
    (h : ∃ u, rest1 = u ++ .rparen :: rest ∧ D "predicateexpression" (kinds u)) :
    Con "predicateexpression" (.lparen :: rest1) rest := by
  obtain ⟨u, rfl, hu⟩ := h
  exact ⟨.lparen :: (u ++ [.rparen]), by simp, by simpa [Tok.kind] using d_pe_paren hu⟩

theorem con_goal {f toks st g rest st'} (h : parseGoal f toks st = .ok (g, rest, st')) :
    Con "predicateexpression" toks rest := by
  obtain ⟨u, rfl, hu⟩ := goal_sound _ _ _ _ _ _ h
  exact ⟨u, rfl, d_pe_sp hu⟩

theorem bp_succ (f : Nat) (ihP : BP f) (ihR : BR f) : BP (f+1) := by
  intro toks st b rest st' h
  unfold parseBodyPrimary at h
  split at h
  next rest1 =>
    split at h
    next b1 rest2 st2 heq =>
      cases h
      obtain ⟨u, rfl, hu⟩ := ihP _ _ _ _ _ heq
      exact ⟨.naf :: u, by simp, by simpa [Tok.kind] using d_pe_naf hu⟩
    next => cases h
  next rest1 =>
    split at h
    next g rest2 st2 heq =>
      split at h
      all_goals first
        | (cases h; exact con_goal heq)
        | exact con_paren (ihR _ _ _ _ _ h)
    next => cases h
    next => exact con_paren (ihR _ _ _ _ _ h)
  next =>
    split at h
    next g rest2 st2 heq =>
      cases h
      exact con_goal heq
    next => cases h

theorem br_succ (f : Nat) (ihB : BB f) : BR (f+1) := by
  intro toks st b rest st' h
  unfold parseParenBody at h
  split at h
  next b1 rest1 st1 heq =>
    cases h
    obtain ⟨u, rfl, hu⟩ := ihB _ _ _ _ _ _ heq
    exact ⟨u, rfl, hu⟩
  next => cases h
  next => cases h

theorem bb_succ (f : Nat) (ihP : BP f) (ihT : BT f) : BB (f+1) := by
  intro p toks st b rest st' h
  unfold parseBody at h
  split at h
  next lhs rest1 st1 heq =>
    obtain ⟨u, rfl, hu⟩ := ihP _ _ _ _ _ heq
    obtain ⟨u', rfl, hu'⟩ := ihT _ _ _ _ _ _ _ h u hu
    exact ⟨u ++ u', by simp, hu'⟩
  next => cases h

theorem bt_succ (f : Nat) (ihB : BB f) (ihT : BT f) : BT (f+1) := by
  intro p lhs toks st b rest st' h pre hpre
  unfold parseBodyTail at h
  split at h
  next op rest1 =>
    split at h
    next q hq =>
      split at h
      next hge =>
        split at h
        next rhs rest2 st2 heq =>
          obtain ⟨u, rfl, hu⟩ := ihB _ _ _ _ _ _ heq
          obtain ⟨u', rfl, hu'⟩ := ihT _ _ _ _ _ _ _ h (pre ++ op :: u) (by
            simpa using d_pe_op hq hpre hu)
          exact ⟨op :: (u ++ u'), by simp, by simpa using hu'⟩
        next => cases h
      next =>
        cases h
        exact ⟨[], by simp, by simpa using hpre⟩
    next =>
      cases h
      exact ⟨[], by simp, by simpa using hpre⟩
  next =>
    cases h
    exact ⟨[], by simp, by simpa using hpre⟩

theorem body_sound : ∀ f, BP f ∧ BR f ∧ BB f ∧ BT f := by
  intro f
  induction f with
  | zero =>
    refine ⟨?_, ?_, ?_, ?_⟩
    · intro toks st b rest st' h; simp [parseBodyPrimary] at h
    · intro toks st b rest st' h; simp [parseParenBody] at h
    · intro p toks st b rest st' h; simp [parseBody] at h
    · intro p lhs toks st b rest st' h; simp [parseBodyTail] at h
  | succ f ih =>
    obtain ⟨ihP, ihR, ihB, ihT⟩ := ih
    exact ⟨bp_succ f ihP ihR, br_succ f ihB, bb_succ f ihP ihT, bt_succ f ihB ihT⟩

theorem clausesyn_sound (f : Nat) (toks rest : List Tok) (h : parseClauseSyn f toks = .ok rest) :
    Con "clauseordirective" toks rest := by
  unfold parseClauseSyn at h
  split at h
  next rest1 =>
    split at h
    next g rest2 st2 heq =>
      cases h
      obtain ⟨u, rfl, hu⟩ := goal_sound _ _ _ _ _ _ heq
      exact ⟨.neck :: (u ++ [.dot]), by simp, by simpa [Tok.kind] using d_cod_directive hu⟩
    next => cases h
    next => cases h
  next =>
    split at h
    next g rest2 st2 heq =>
      cases h
      obtain ⟨u, rfl, hu⟩ := goal_sound _ _ _ _ _ _ heq
      exact ⟨u ++ [.dot], by simp, by simpa [Tok.kind] using d_cod_clause1 hu⟩
    next g rest2 st2 heq =>
      split at h
      next b rest3 st3 heq2 =>
        cases h
        obtain ⟨u, rfl, hu⟩ := goal_sound _ _ _ _ _ _ heq
        obtain ⟨u', rfl, hu'⟩ := (body_sound f).2.2.1 _ _ _ _ _ _ heq2
        exact ⟨u ++ .neck :: (u' ++ [.dot]), by simp, by
          simpa [Tok.kind] using d_cod_clause2 hu hu'⟩
      next => cases h
      next => cases h
    next => cases h
    next => cases h

theorem recognise_p1 : ∀ (f : Nat) (toks : List Tok), recogniseToks f toks = true →
    D "program$1" (kinds toks) := by
  intro f
  induction f with
  | zero => intro toks h; simp [recogniseToks] at h
  | succ f ih =>
    intro toks h
    cases toks with
    | nil => exact d_p1_nil
    | cons tk ts =>
      simp only [recogniseToks] at h
      split at h
      next rest heq =>
        obtain ⟨u, hu', hu⟩ := clausesyn_sound _ _ _ heq
        rw [hu']
        simpa using d_p1_cons hu (ih _ h)
      next => cases h

end GS

namespace GS

/-- The shape of a parse result: what the control flow of the callers can depend on. -/
def shp {α κ : Type} (key : α → κ) : PR α → Except FrontErr (κ × List Tok)
  | .ok (r, rest, _) => .ok (key r, rest)
  | .error e => .error e

abbrev sh0 {α : Type} (r : PR α) : Except FrontErr (Unit × List Tok) := shp (fun _ => ()) r
abbrev shL (r : PR (List RTerm)) : Except FrontErr (Nat × List Tok) := shp List.length r

theorem shape_cases {α κ : Type} {key : α → κ} {a a' : PR α} (h : shp key a = shp key a') :
    (∃ e, a = .error e ∧ a' = .error e) ∨
    (∃ t t' rest s s', a = .ok (t, rest, s) ∧ a' = .ok (t', rest, s') ∧ key t = key t') := by
  rcases a with e | ⟨t, r, s⟩ <;> rcases a' with e' | ⟨t', r', s'⟩ <;> simp [shp] at h
  · exact .inl ⟨e, rfl, by rw [h]⟩
  · obtain ⟨h1, h2⟩ := h
    subst h2
    exact .inr ⟨t, t', r, s, s', rfl, rfl, h1⟩

def IP (f : Nat) : Prop := ∀ toks st st', sh0 (parsePrimary f toks st) = sh0 (parsePrimary f toks st')
def IA (f : Nat) : Prop := ∀ toks st st' name isNum,
  sh0 (parseArgs f toks st name isNum) = sh0 (parseArgs f toks st' name isNum)
def IL (f : Nat) : Prop := ∀ toks st st', shL (parseTermList f toks st) = shL (parseTermList f toks st')
def IT (f : Nat) : Prop := ∀ toks st st', sh0 (parseTerm f toks st) = sh0 (parseTerm f toks st')
def IB (f : Nat) : Prop := ∀ lhs lhs' toks st st',
  sh0 (parseBinTail f lhs toks st) = sh0 (parseBinTail f lhs' toks st')

/-- case split on the first token of `r`; closes the cases where both sides reduce to the same -/
macro "rest_cases " r:ident : tactic =>
  `(tactic| (rcases $r:ident with _ | ⟨tk, $r:ident⟩ <;> (try rfl) <;> (try (cases tk <;> try rfl))))

theorem ip_succ (f : Nat) (ihP : IP f) (ihA : IA f) (ihL : IL f) (ihT : IT f) : IP (f+1) := by
  intro toks st st'
  unfold parsePrimary
  split
  case h_1 => rfl
  case h_2 => exact ihA _ _ _ _ _
  case h_3 => exact ihA _ _ _ _ _
  case h_4 => exact ihA _ _ _ _ _
  case h_5 => rfl
  case h_6 => rfl
  case h_7 => rfl
  case h_8 =>
    generalize mkVar _ st = p; generalize mkVar _ st' = p'
    rcases p with ⟨_, _⟩; rcases p' with ⟨_, _⟩; rfl
  case h_9 =>
    rcases shape_cases (ihP _ st st') with ⟨e, h1, h2⟩ | ⟨t, t', r, s, s', h1, h2, -⟩ <;> rw [h1, h2]
    rfl
  case h_10 =>
    rcases shape_cases (ihT _ st st') with ⟨e, h1, h2⟩ | ⟨t, t', r, s, s', h1, h2, -⟩ <;> rw [h1, h2]
    rest_cases r
    dsimp only
    rcases shape_cases (ihT r s s') with ⟨e, h1, h2⟩ | ⟨t, t', r, s, s', h1, h2, -⟩ <;> rw [h1, h2]
    rest_cases r
  case h_11 =>
    rcases shape_cases (ihT _ st st') with ⟨e, h1, h2⟩ | ⟨t, t', r, s, s', h1, h2, -⟩ <;> rw [h1, h2]
    rest_cases r
  case h_12 => rfl
  case h_13 =>
    rcases shape_cases (ihL _ st st') with ⟨e, h1, h2⟩ | ⟨l, l', r, s, s', h1, h2, hk⟩ <;> rw [h1, h2]
    rcases l with _ | ⟨i, _ | ⟨j, l⟩⟩ <;> rcases l' with _ | ⟨i', _ | ⟨j', l'⟩⟩ <;> simp at hk
    all_goals rest_cases r
    all_goals rest_cases r
    all_goals rest_cases r
    all_goals rest_cases r
  case h_14 => rfl

theorem ia_succ (f : Nat) (ihL : IL f) : IA (f+1) := by
  intro toks st st' name isNum
  unfold parseArgs
  split
  · rfl
  · rcases shape_cases (ihL toks st st') with ⟨e, h1, h2⟩ | ⟨l, l', r, s, s', h1, h2, -⟩ <;> rw [h1, h2]
    rest_cases r

theorem il_succ (f : Nat) (ihL : IL f) (ihT : IT f) : IL (f+1) := by
  intro toks st st'
  unfold parseTermList
  rcases shape_cases (ihT toks st st') with ⟨e, h1, h2⟩ | ⟨t, t', r, s, s', h1, h2, -⟩ <;> rw [h1, h2]
  rest_cases r
  rcases r with _ | ⟨tk, r⟩
  · dsimp only
    rcases shape_cases (ihL [] s s') with ⟨e, h1, h2⟩ | ⟨l, l', r, s1, s1', h1, h2, hk⟩ <;>
      rw [h1, h2] <;> simp [shp, hk]
  · have ih := ihL (tk :: r) s s'
    cases tk
    case bar => rfl
    all_goals
      dsimp only
      rcases shape_cases ih with ⟨e, h1, h2⟩ | ⟨l, l', r, s1, s1', h1, h2, hk⟩ <;>
        rw [h1, h2] <;> simp [shp, hk]

theorem it_succ (f : Nat) (ihP : IP f) (ihB : IB f) : IT (f+1) := by
  intro toks st st'
  unfold parseTerm
  rcases shape_cases (ihP toks st st') with ⟨e, h1, h2⟩ | ⟨t, t', r, s, s', h1, h2, -⟩ <;> rw [h1, h2]
  exact ihB _ _ _ _ _

theorem ib_succ (f : Nat) (ihP : IP f) (ihB : IB f) : IB (f+1) := by
  intro lhs lhs' toks st st'
  unfold parseBinTail
  split
  · rcases shape_cases (ihP _ st st') with ⟨e, h1, h2⟩ | ⟨t, t', r, s, s', h1, h2, -⟩ <;> rw [h1, h2]
    exact ihB _ _ _ _ _
  · rfl

theorem term_indep : ∀ f, IP f ∧ IA f ∧ IL f ∧ IT f ∧ IB f := by
  intro f
  induction f with
  | zero =>
    refine ⟨?_, ?_, ?_, ?_, ?_⟩
    · intro toks st st'; simp [parsePrimary]
    · intro toks st st' name isNum; simp [parseArgs]
    · intro toks st st'; simp [parseTermList]
    · intro toks st st'; simp [parseTerm]
    · intro lhs lhs' toks st st'; simp [parseBinTail]
  | succ f ih =>
    obtain ⟨ihP, ihA, ihL, ihT, ihB⟩ := ih
    exact ⟨ip_succ f ihP ihA ihL ihT, ia_succ f ihL, il_succ f ihL ihT, it_succ f ihP ihB,
      ib_succ f ihP ihB⟩

theorem goal_indep (f : Nat) (toks : List Tok) (st st' : PS) :
    sh0 (parseGoal f toks st) = sh0 (parseGoal f toks st') := by
  unfold parseGoal
  split
  · rfl
  · rfl
  · rfl
  · rcases shape_cases ((term_indep f).2.2.2.1 toks st st') with
      ⟨e, h1, h2⟩ | ⟨t, t', r, s, s', h1, h2, -⟩ <;> rw [h1, h2]
    rfl

def IBP (f : Nat) : Prop := ∀ toks st st',
  sh0 (parseBodyPrimary f toks st) = sh0 (parseBodyPrimary f toks st')
def IBR (f : Nat) : Prop := ∀ toks st st',
  sh0 (parseParenBody f toks st) = sh0 (parseParenBody f toks st')
def IBB (f : Nat) : Prop := ∀ p toks st st',
  sh0 (parseBody f p toks st) = sh0 (parseBody f p toks st')
def IBT (f : Nat) : Prop := ∀ p lhs lhs' toks st st',
  sh0 (parseBodyTail f p lhs toks st) = sh0 (parseBodyTail f p lhs' toks st')

theorem ibp_succ (f : Nat) (ihP : IBP f) (ihR : IBR f) : IBP (f+1) := by
  intro toks st st'
  unfold parseBodyPrimary
  split
  · rcases shape_cases (ihP _ st st') with ⟨e, h1, h2⟩ | ⟨t, t', r, s, s', h1, h2, -⟩ <;> rw [h1, h2]
    rfl
  · rcases shape_cases (goal_indep f _ st st') with ⟨e, h1, h2⟩ | ⟨t, t', r, s, s', h1, h2, -⟩ <;>
      rw [h1, h2]
    · cases e <;> first | rfl | exact ihR _ _ _
    · rest_cases r
      all_goals exact ihR _ _ _
  · rcases shape_cases (goal_indep f _ st st') with ⟨e, h1, h2⟩ | ⟨t, t', r, s, s', h1, h2, -⟩ <;>
      rw [h1, h2]
    rfl

theorem ibr_succ (f : Nat) (ihB : IBB f) : IBR (f+1) := by
  intro toks st st'
  unfold parseParenBody
  rcases shape_cases (ihB 0 toks st st') with ⟨e, h1, h2⟩ | ⟨t, t', r, s, s', h1, h2, -⟩ <;> rw [h1, h2]
  rest_cases r

theorem ibb_succ (f : Nat) (ihP : IBP f) (ihT : IBT f) : IBB (f+1) := by
  intro p toks st st'
  unfold parseBody
  rcases shape_cases (ihP toks st st') with ⟨e, h1, h2⟩ | ⟨t, t', r, s, s', h1, h2, -⟩ <;> rw [h1, h2]
  exact ihT _ _ _ _ _ _

theorem ibt_succ (f : Nat) (ihB : IBB f) (ihT : IBT f) : IBT (f+1) := by
  intro p lhs lhs' toks st st'
  unfold parseBodyTail
  split
  · split
    · split
      · rcases shape_cases (ihB _ _ st st') with ⟨e, h1, h2⟩ | ⟨t, t', r, s, s', h1, h2, -⟩ <;>
          rw [h1, h2]
        exact ihT _ _ _ _ _ _
      · rfl
    · rfl
  · rfl

theorem body_indep : ∀ f, IBP f ∧ IBR f ∧ IBB f ∧ IBT f := by
  intro f
  induction f with
  | zero =>
    refine ⟨?_, ?_, ?_, ?_⟩
    · intro toks st st'; simp [parseBodyPrimary]
    · intro toks st st'; simp [parseParenBody]
    · intro p toks st st'; simp [parseBody]
    · intro p lhs lhs' toks st st'; simp [parseBodyTail]
  | succ f ih =>
    obtain ⟨ihP, ihR, ihB, ihT⟩ := ih
    exact ⟨ibp_succ f ihP ihR, ibr_succ f ihB, ibb_succ f ihP ihT, ibt_succ f ihB ihT⟩

theorem shape_ok {α : Type} {a a' : PR α} (h : sh0 a = sh0 a') {t : α} {r : List Tok} {s : PS}
    (ha : a = .ok (t, r, s)) : ∃ t' s', a' = .ok (t', r, s') := by
  rcases shape_cases h with ⟨e, h1, _⟩ | ⟨t1, t', r1, s1, s', h1, h2, _⟩
  · rw [h1] at ha; cases ha
  · rw [h1] at ha; cases ha; exact ⟨t', s', h2⟩

theorem finish_rest {hd : RGoal} {b : RBody} {rest rest' : List Tok} {st st' : PS}
    {c : Option SClause × Bool} (h : parseClause.finish hd b rest st = .ok (c, rest', st')) :
    rest' = rest := by
  unfold parseClause.finish at h
  repeat' split at h
  all_goals first | (cases h; rfl) | cases h

theorem clause_syn {f : Nat} {toks : List Tok} {st : PS} {c : Option SClause × Bool}
    {rest : List Tok} {st' : PS} (h : parseClause f toks st = .ok (c, rest, st')) :
    parseClauseSyn f toks = .ok rest := by
  unfold parseClause at h
  split at h
  next rest1 =>
    split at h
    next g rest2 st2 heq =>
      split at h
      next =>
        cases h
        obtain ⟨g', s', hg⟩ := shape_ok (goal_indep f rest1 st {}) heq
        simp [parseClauseSyn, hg]
      next => cases h
    next => cases h
    next => cases h
  next hn =>
    split at h
    next hd rest2 st2 heq =>
      cases finish_rest h
      obtain ⟨g', s', hg⟩ := shape_ok (goal_indep f toks st {}) heq
      unfold parseClauseSyn
      split
      next => exact absurd rfl (hn _)
      next => rw [hg]
    next hd rest2 st2 heq =>
      split at h
      next b rest3 st3 heq2 =>
        cases finish_rest h
        obtain ⟨g', s', hg⟩ := shape_ok (goal_indep f toks st {}) heq
        obtain ⟨b', s'', hb⟩ := shape_ok ((body_indep f).2.2.1 0 rest2 st2 {}) heq2
        unfold parseClauseSyn
        split
        next => exact absurd rfl (hn _)
        next => rw [hg]; dsimp only; rw [hb]
      next => cases h
      next => cases h
    next => cases h
    next => cases h

end GS

/-- The recogniser accepts only sentences. -/
theorem recogniseToks_sound (f : Nat) (toks : List Tok) (h : recogniseToks f toks = true) :
    Derives Generated.grammar (false, "program") (kinds toks) :=
  GS.d_program (GS.recognise_p1 f toks h)

/-- What the front end accepts, the recogniser accepts (the visitor only rejects more). -/
theorem parseProgram_recognised : ∀ (f : Nat) (toks : List Tok) (st : PS) (acc : List SClause) (na : Bool)
    (r : List SClause × Bool), parseProgram f toks st acc na = .ok r → recogniseToks f toks = true := by
  intro f
  induction f with
  | zero => intro toks st acc na r h; simp [parseProgram] at h
  | succ f ih =>
    intro toks st acc na r h
    cases toks with
    | nil => simp [recogniseToks]
    | cons tk ts =>
      simp only [parseProgram] at h
      split at h
      next c na' rest st2 heq =>
        simp only [recogniseToks]
        rw [GS.clause_syn heq]
        exact ih _ _ _ _ _ h
      next => cases h

/-- Every text the model front end accepts is a sentence of the grammar of prolog.g4. -/
theorem frontend_sound (s : String) (r : List SClause × Bool) (h : frontend s = .ok r) :
    ∃ toks, lex s = some toks ∧ Derives Generated.grammar (false, "program") (kinds toks) := by
  unfold frontend at h
  split at h
  next => cases h
  next toks heq =>
    exact ⟨toks, heq, recogniseToks_sound _ _ (parseProgram_recognised _ _ _ _ _ _ h)⟩

end Yld
