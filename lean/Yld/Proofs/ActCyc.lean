import Yld.Model.Api
import Yld.Proofs.Parametric
import Yld.Proofs.Restore2
namespace Yld

/-- the consumer never resets the ghost flag -/
def CycMono (k : K) : Prop := ∀ w, w.cyc = true → (k w).1.cyc = true
/-- the generator never resets it either, whatever (flag-monotone) consumer it is run with -/
def CycGen (g : Gen) : Prop := ∀ k, CycMono k → CycMono (g k)
def QCyc (q : Q) : Prop := ∀ name args, CycGen (q name args)

/-! ### outcome combinators -/

theorem andThenR_cyc (f : World → R) (r : R) (hr : r.1.cyc = true)
    (hf : ∀ w, w.cyc = true → (f w).1.cyc = true) : (andThenR f r).1.cyc = true := by
  obtain ⟨w, o⟩ := r
  cases o with
  | none => simp only [andThenR_none]; exact hf w hr
  | some s => exact hr

theorem iteR_cyc (d : Nat) (f : World → R) (r : R) (hr : r.1.cyc = true)
    (hf : ∀ w, w.cyc = true → (f w).1.cyc = true) : (iteR d f r).1.cyc = true := by
  obtain ⟨w, o⟩ := r
  cases o with
  | none => simp only [iteR_none]; exact hf w hr
  | some s =>
    cases s <;> try exact hr
    simp only [iteR_commit]; split <;> exact hr

/-! ### unification -/

theorem markCyc_cyc (f x : Nat) (t : Term) (w : World) : w.cyc = true → (markCyc f x t w).cyc = true := by
  intro h
  unfold markCyc
  split
  · split
    · rfl
    · exact h
  · rfl

theorem bindGen_cycGen (x : Nat) (t : Term) : CycGen (bindGen x t) := by
  intro k hk w h
  unfold bindGen
  simp only
  exact hk { w with b := bind w.b x t } h

theorem unifyList_cycGen (u : Term → Term → Gen) (hu : ∀ a b, CycGen (u a b)) :
    ∀ as bs, CycGen (unifyList u as bs) := by
  intro as
  induction as with
  | nil =>
    intro bs k hk w h
    cases bs with
    | nil => simpa [unifyList] using hk w h
    | cons b bs => simpa [unifyList] using h
  | cons a as ih =>
    intro bs k hk w h
    cases bs with
    | nil => simpa [unifyList] using h
    | cons b bs =>
      simp only [unifyList]
      exact hu a b _ (fun w' h' => ih bs k hk w' h') w h

theorem unify_cycGen (f : Nat) : ∀ t1 t2, CycGen (unify f t1 t2) := by
  induction f with
  | zero => intro t1 t2 k hk w h; simpa [unify] using h
  | succ f ih =>
    intro t1 t2 k hk w h
    simp only [unify]
    cases h1 : walk w.b (f+1) t1 with
    | none => simpa using h
    | some a1 =>
      cases h2 : walk w.b (f+1) t2 with
      | none => simpa using h
      | some a2 =>
        simp only
        cases a1 with
        | var x =>
          cases a2 with
          | var y =>
            simp only
            split
            · exact hk w h
            · exact bindGen_cycGen x _ k hk w h
          | atom s => exact bindGen_cycGen x _ k hk _ (markCyc_cyc _ _ _ _ h)
          | int i => exact bindGen_cycGen x _ k hk _ (markCyc_cyc _ _ _ _ h)
          | fn g as => exact bindGen_cycGen x _ k hk _ (markCyc_cyc _ _ _ _ h)
        | atom s =>
          cases a2 with
          | var y => exact bindGen_cycGen y _ k hk _ (markCyc_cyc _ _ _ _ h)
          | atom s' =>
            simp only
            split
            · exact hk w h
            · exact h
          | int i => exact h
          | fn g as => exact h
        | int i =>
          cases a2 with
          | var y => exact bindGen_cycGen y _ k hk _ (markCyc_cyc _ _ _ _ h)
          | atom s' => exact h
          | int j =>
            simp only
            split
            · exact hk w h
            · exact h
          | fn g as => exact h
        | fn g as =>
          cases a2 with
          | var y => exact bindGen_cycGen y _ k hk _ (markCyc_cyc _ _ _ _ h)
          | atom s' => exact h
          | int j => exact h
          | fn g' as' =>
            simp only
            split
            · exact unifyList_cycGen (unify f) ih as as' k hk w h
            · exact h

/-! ### the fact store -/

theorem setFacts_cyc (w : World) (n : String) (a : Nat) (fs : List Fact) : (w.setFacts n a fs).cyc = w.cyc := by
  unfold World.setFacts; simp only; split <;> rfl

theorem wrapK_cycMono (k : K) (hk : CycMono k) : CycMono (wrapK k) := by
  intro w h; unfold wrapK
  have := hk w h
  cases h' : k w with
  | mk w' s => rw [h'] at this; cases s <;> exact this

theorem matchFact_cycGen (f : Nat) (fact : Fact) (args : List Term) : CycGen (matchFact f fact args) := by
  intro k hk w h
  unfold matchFact
  simp only
  split
  · exact unifyList_cycGen (unify f) (unify_cycGen f) _ _ k hk { w with next := w.next + fact.nvars } h
  · exact h

theorem matchAll_cycGen (f : Nat) (args : List Term) : ∀ cs, CycGen (matchAll f args cs) := by
  intro cs
  induction cs with
  | nil => intro k _ w h; exact h
  | cons c cs ih =>
    intro k hk w h
    simp only [matchAll]
    have h1 := matchFact_cycGen f c args k hk w h
    cases h' : matchFact f c args k w with
    | mk w' s =>
      rw [h'] at h1
      cases s with
      | none => simp only; exact ih k hk w' h1
      | some s => exact h1

theorem matchDynamic_cycGen (f : Nat) (name : String) (args : List Term) : CycGen (matchDynamic f name args) := by
  intro k hk w h; unfold matchDynamic; exact matchAll_cycGen f args _ k hk w h

theorem retractLoop_cycGen (f : Nat) (name : String) (args : List Term) : ∀ cs, CycGen (retractLoop f name args cs) := by
  intro cs
  induction cs with
  | nil => intro k _ w h; exact h
  | cons c cs ih =>
    intro k hk w h
    simp only [retractLoop]
    split
    · have hk' : CycMono (fun w' => k (w'.setFacts name args.length ((w'.facts name args.length).filter (·.id != c.id)))) := by
        intro w' hw'; simp only; exact hk _ (by rw [setFacts_cyc]; exact hw')
      have h1 := matchFact_cycGen f c args _ hk' w h
      cases h' : matchFact f c args (fun w' => k (w'.setFacts name args.length ((w'.facts name args.length).filter (·.id != c.id)))) w with
      | mk w' s =>
        rw [h'] at h1
        cases s with
        | none => simp only; exact ih k hk w' h1
        | some s => exact h1
    · exact ih k hk w h

theorem runPy_cycGen (f : Nat) (r : Option Nat) (args : List Term) : ∀ rows i, CycGen (runPy f rows r i args) := by
  intro rows
  induction rows with
  | nil => intro i k _ w h; simp only [runPy]; split <;> exact h
  | cons row rows ih =>
    intro i k hk w h
    simp only [runPy]
    split
    · exact h
    · have h1 := matchFact_cycGen f row args k hk w h
      cases h' : matchFact f row args k w with
      | mk w' s =>
        rw [h'] at h1
        cases s with
        | none => simp only; exact ih (i+1) k hk w' h1
        | some s => exact h1

theorem assertFact_cyc (f : Nat) (name : String) (vs : List Term) (app : Bool) (w : World) :
    w.cyc = true → (assertFact f name vs app w).1.cyc = true := by
  intro h
  unfold assertFact
  split
  · exact h
  · simp only; rw [setFacts_cyc]; exact h

theorem factMatches_cyc (f : Nat) (c : Fact) (args : List Term) (w : World) :
    w.cyc = true → (factMatches f c args w).1.cyc = true := by
  intro hw
  unfold factMatches
  have h := matchFact_cycGen f c args (fun w' => (w', some .stop)) (fun _ h' => h') w hw
  generalize matchFact f c args (fun w' => (w', some Sig.stop)) w = r at h
  obtain ⟨w', o⟩ := r
  cases o with
  | none => exact h
  | some s => cases s <;> exact h

theorem retractAllLoop_cyc (f : Nat) (args : List Term) : ∀ (cs keep : List Fact) (w : World),
    w.cyc = true → (retractAllLoop f args cs keep w).1.cyc = true := by
  intro cs
  induction cs with
  | nil => intro keep w hw; exact hw
  | cons c cs ih =>
    intro keep w hw
    simp only [retractAllLoop]
    have h := factMatches_cyc f c args w hw
    generalize factMatches f c args w = r at h
    obtain ⟨w', res⟩ := r
    cases res with
    | error s => exact h
    | ok bb => cases bb <;> (simp only; exact ih _ _ h)

/-! ### consumers -/

theorem findallCollect_cycMono (f : Nat) (tmpl : Term) : CycMono (findallCollect f tmpl) := by
  intro w h
  unfold findallCollect
  split <;> exact h

theorem topConsumer_cycMono (fuel : Nat) (args : List Term) (sched : Sched) : CycMono (topConsumer fuel args sched) := by
  intro w h
  unfold topConsumer
  split
  · exact h
  · simp only
    repeat (first | exact h | split)

/-! ### clause bodies -/

theorem exec_cycGen (q : Q) (hq : QCyc q) (env : Env) :
    (∀ c, CycGen (exec q env c)) ∧ (∀ cs, CycGen (execList q env cs)) := by
  have key : ∀ c, CycGen (exec q env c) := by
    intro c
    induction c using Code.rec (motive_2 := fun cs => CycGen (execList q env cs)) with
    | yieldF => intro k hk w h; rw [exec_yieldF]; exact hk w h
    | yieldT => intro k hk w h; rw [exec_yieldT]; exact hk w h
    | ret => intro k _ w h; rw [exec_ret]; exact h
    | brk l => intro k _ w h; rw [exec_brk]; exact h
    | block l body ih => intro k hk w h; rw [exec_block, catchBrk_world]; exact ih k hk w h
    | foreach name args body ih =>
      intro k hk w h
      rw [exec_foreach]
      exact hq name _ _ (fun w' h' => ih k hk w' h') w h
    | nil => intro k _ w h; rw [execList_nil]; exact h
    | cons c cs ihc ihcs =>
      intro k hk w h
      rw [execList_cons]
      exact andThenR_cyc _ _ (ihc k hk w h) (fun w' hw' => ihcs k hk w' hw')
  refine ⟨key, ?_⟩
  intro cs
  induction cs with
  | nil => intro k _ w h; rw [execList_nil]; exact h
  | cons c cs ih =>
    intro k hk w h
    rw [execList_cons]
    exact andThenR_cyc _ _ (key c k hk w h) (fun w' hw' => ih k hk w' hw')

theorem solve_cycGen (q : Q) (hq : QCyc q) (env : Env) :
    ∀ (b : Body) (d : Nat), CycGen (solve q env d b)
  | .tru, d => by intro k hk w h; simp only [solve]; exact hk w h
  | .fail, d => by intro k _ w h; simp only [solve]; exact h
  | .cutif l, d => by intro k hk w h; simp only [solve]; exact hk w h
  | .cut, d => by intro k hk w h; simp only [solve]; rw [thenSig_world]; exact hk w h
  | .call name args, d => by intro k hk w h; simp only [solve]; exact hq name _ k hk w h
  | .conj a b, d => by
    intro k hk w h
    simp only [solve]
    exact solve_cycGen q hq env a d _ (fun w' h' => solve_cycGen q hq env b d k hk w' h') w h
  | .disj (.ite c t) e, d => by
    intro k hk w h
    simp only [solve]
    refine iteR_cyc d _ _ ?_ (fun w' hw' => solve_cycGen q hq env e d k hk w' hw')
    exact solve_cycGen q hq env c (d+1) _ (fun w' h' => by rw [thenSig_world]; exact solve_cycGen q hq env t d k hk w' h') w h
  | .disj .tru b, d => by
    intro k hk w h
    rw [solve_disj_eq q env d .tru b k w (by intro c t h; cases h)]
    exact andThenR_cyc _ _ (solve_cycGen q hq env .tru d k hk w h) (fun w' hw' => solve_cycGen q hq env b d k hk w' hw')
  | .disj .fail b, d => by
    intro k hk w h
    rw [solve_disj_eq q env d .fail b k w (by intro c t h; cases h)]
    exact andThenR_cyc _ _ (solve_cycGen q hq env .fail d k hk w h) (fun w' hw' => solve_cycGen q hq env b d k hk w' hw')
  | .disj .cut b, d => by
    intro k hk w h
    rw [solve_disj_eq q env d .cut b k w (by intro c t h; cases h)]
    exact andThenR_cyc _ _ (solve_cycGen q hq env .cut d k hk w h) (fun w' hw' => solve_cycGen q hq env b d k hk w' hw')
  | .disj (.cutif l) b, d => by
    intro k hk w h
    rw [solve_disj_eq q env d (.cutif l) b k w (by intro c t h; cases h)]
    exact andThenR_cyc _ _ (solve_cycGen q hq env (.cutif l) d k hk w h) (fun w' hw' => solve_cycGen q hq env b d k hk w' hw')
  | .disj (.call nm ar) b, d => by
    intro k hk w h
    rw [solve_disj_eq q env d (.call nm ar) b k w (by intro c t h; cases h)]
    exact andThenR_cyc _ _ (solve_cycGen q hq env (.call nm ar) d k hk w h) (fun w' hw' => solve_cycGen q hq env b d k hk w' hw')
  | .disj (.conj a1 a2) b, d => by
    intro k hk w h
    rw [solve_disj_eq q env d (.conj a1 a2) b k w (by intro c t h; cases h)]
    exact andThenR_cyc _ _ (solve_cycGen q hq env (.conj a1 a2) d k hk w h) (fun w' hw' => solve_cycGen q hq env b d k hk w' hw')
  | .disj (.disj a1 a2) b, d => by
    intro k hk w h
    rw [solve_disj_eq q env d (.disj a1 a2) b k w (by intro c t h; cases h)]
    exact andThenR_cyc _ _ (solve_cycGen q hq env (.disj a1 a2) d k hk w h) (fun w' hw' => solve_cycGen q hq env b d k hk w' hw')
  | .disj (.neg a1) b, d => by
    intro k hk w h
    rw [solve_disj_eq q env d (.neg a1) b k w (by intro c t h; cases h)]
    exact andThenR_cyc _ _ (solve_cycGen q hq env (.neg a1) d k hk w h) (fun w' hw' => solve_cycGen q hq env b d k hk w' hw')
  | .ite c t, d => by
    intro k hk w h
    simp only [solve]
    refine iteR_cyc d _ _ ?_ (fun w' hw' => hw')
    exact solve_cycGen q hq env c (d+1) _ (fun w' h' => by rw [thenSig_world]; exact solve_cycGen q hq env t d k hk w' h') w h
  | .neg a, d => by
    intro k hk w h
    simp only [solve]
    refine iteR_cyc d _ _ ?_ (fun w' hw' => hk w' hw')
    exact solve_cycGen q hq env a (d+1) _ (fun w' h' => h') w h

/-! ### clause activation -/

theorem allocVars_cyc (names : List String) (env : Env) (w : World) : (allocVars names env w).2.cyc = w.cyc := by
  induction names generalizing env w with
  | nil => rfl
  | cons n ns ih =>
    have step : allocVars (n :: ns) env w = allocVars ns (env ++ [(n, .var w.next)]) { w with next := w.next + 1 } := by
      simp [allocVars, World.fresh]
    rw [step, ih]

theorem unifyHead_cycGen (fuel : Nat) (env : Env) (args : List Term) (g : Gen) (hg : CycGen g) :
    ∀ us, CycGen (unifyHead fuel env args us g) := by
  intro us
  induction us with
  | nil => simpa [unifyHead] using hg
  | cons u us ih =>
    obtain ⟨i, t⟩ := u
    intro k hk w h
    simp only [unifyHead]
    exact unify_cycGen fuel _ _ _ (fun w' h' => ih k hk w' h') w h

theorem runClauseCompiled_cycGen (fuel : Nat) (q : Q) (hq : QCyc q) (cc : ClauseCode) (args : List Term) :
    CycGen (runClauseCompiled fuel q cc args) := by
  intro k hk w h
  unfold runClauseCompiled
  simp only
  refine unifyHead_cycGen fuel _ args _ ((exec_cycGen q hq _).2 _) _ k hk _ ?_
  rw [allocVars_cyc, allocVars_cyc]; exact h

theorem runClauseRef_cycGen (fuel : Nat) (q : Q) (hq : QCyc q) (c : Clause) (args : List Term) :
    CycGen (runClauseRef fuel q c args) := by
  intro k hk w h
  unfold runClauseRef
  simp only
  refine unifyHead_cycGen fuel _ args _ (solve_cycGen q hq _ _ 0) _ k hk _ ?_
  rw [allocVars_cyc]; exact h

theorem runClauseRefBody_cycGen (fuel : Nat) (q : Q) (hq : QCyc q) (cc : ClauseCode) (body : Body) (args : List Term) :
    CycGen (runClauseRefBody fuel q cc body args) := by
  intro k hk w h
  unfold runClauseRefBody
  simp only
  refine unifyHead_cycGen fuel _ args _ (solve_cycGen q hq _ _ 0) _ k hk _ ?_
  rw [allocVars_cyc, allocVars_cyc]; exact h

theorem runClauses_cycGen {α : Type} (run : α → Gen) (hrun : ∀ c, CycGen (run c)) : ∀ cs, CycGen (runClauses run cs) := by
  intro cs
  induction cs with
  | nil => intro k _ w h; exact h
  | cons c cs ih =>
    intro k hk w h
    simp only [runClauses]
    have h1 := hrun c k hk w h
    cases h' : run c k w with
    | mk w' s =>
      rw [h'] at h1
      cases s with
      | none => simp only; exact ih k hk w' h1
      | some s => exact h1

theorem onceGen_cycGen (g : Gen) (hg : CycGen g) : CycGen (onceGen g) := by
  intro k hk w h
  unfold onceGen
  rw [leaveOnce_world]
  exact hg _ (fun w' h' => by rw [thenSig_world]; exact wrapK_cycMono k hk w' h') w h

/-! ### the engine -/

def AllCyc (cfg : Cfg) (f : Nat) : Prop :=
  (∀ name args, CycGen (query cfg f name args)) ∧
  (∀ ds args, CycGen (runChain cfg f ds args)) ∧
  (∀ d args, CycGen (runDef cfg f d args)) ∧
  (∀ b args, CycGen (runBuiltin cfg f b args)) ∧
  (∀ g extra, CycGen (callGoal cfg f g extra))

theorem allCyc (cfg : Cfg) : ∀ f, AllCyc cfg f := by
  intro f
  induction f with
  | zero =>
    refine ⟨?_, ?_, ?_, ?_, ?_⟩ <;> intros <;> intro k _ w h
    · simp only [query]; exact h
    · simp only [runChain]; exact h
    · simp only [runDef]; exact h
    · simp only [runBuiltin]; exact h
    · simp only [callGoal]; exact h
  | succ f ih =>
    obtain ⟨ihQ, ihC, ihD, ihB, ihG⟩ := ih
    refine ⟨?_, ?_, ?_, ?_, ?_⟩
    · intro name args k hk w hw
      simp only [query]
      have h1 := matchDynamic_cycGen f name args k hk w hw
      cases h : matchDynamic f name args k w with
      | mk w1 o =>
        rw [h] at h1
        cases o with
        | some s => exact h1
        | none =>
          simp only
          split
          · exact h1
          · split
            · exact h1
            · exact ihC _ args k hk w1 h1
    · intro ds args k hk w hw
      cases ds with
      | nil => simp only [runChain]; exact hw
      | cons d ds =>
        simp only [runChain]
        have h1 := ihD d args k hk w hw
        cases h : runDef cfg f d args k w with
        | mk w1 o =>
          rw [h] at h1
          cases o with
          | some s => exact h1
          | none => simp only; exact ihC ds args k hk w1 h1
    · intro d args k hk w hw
      cases d with
      | prolog p mode =>
        simp only [runDef]
        cases mode with
        | compiled =>
          simp only; rw [leaveFrame_world]
          exact runClauses_cycGen _ (fun cc => runClauseCompiled_cycGen f _ ihQ cc args) _ _ (wrapK_cycMono k hk) w hw
        | reference =>
          simp only; rw [leaveFrame_world]
          exact runClauses_cycGen _ (fun c => runClauseRef_cycGen f _ ihQ c args) _ _ (wrapK_cycMono k hk) w hw
        | refbody =>
          simp only; rw [leaveFrame_world]
          exact runClauses_cycGen _ (fun (x : ClauseCode × Clause) => runClauseRefBody_cycGen f _ ihQ x.1 x.2.body args) _ _ (wrapK_cycMono k hk) w hw
      | py p => simp only [runDef]; exact runPy_cycGen f _ args _ _ k hk w hw
      | builtin b => simp only [runDef]; exact ihB b args k hk w hw
    · intro b args k hk w hw
      simp only [runBuiltin]
      split
      · exact unify_cycGen f _ _ k hk w hw
      · rename_i a b
        have h1 := ihQ "=" [a, b] (fun w' => (w', some .stop)) (fun _ h' => h') w hw
        generalize query cfg f "=" [a, b] (fun w' => (w', some Sig.stop)) w = r at h1
        obtain ⟨w1, o⟩ := r
        cases o with
        | none => simp only; exact hk w1 h1
        | some s => cases s <;> exact h1
      · exact ihG _ _ k hk w hw
      · exact onceGen_cycGen _ (ihG _ _) k hk w hw
      · rename_i tmpl g bag
        have h1 := ihG g [] (findallCollect f tmpl) (findallCollect_cycMono f tmpl) { w with acc := [] :: w.acc } hw
        generalize callGoal cfg f g [] (findallCollect f tmpl) { w with acc := [] :: w.acc } = r at h1
        obtain ⟨w1, o⟩ := r
        cases o with
        | none => simp only; exact unify_cycGen f _ _ k hk { w1 with acc := w1.acc.tail } h1
        | some s => exact h1
      · rename_i t
        cases hfn : factNameArgs f w t with
        | error s => exact hw
        | ok na =>
          obtain ⟨name, as⟩ := na
          simp only
          have h1 := assertFact_cyc f name as true w hw
          generalize assertFact f name as true w = r at h1
          obtain ⟨w1, o⟩ := r
          cases o with
          | none => simp only; exact hk w1 h1
          | some s => exact h1
      · rename_i t
        cases hfn : factNameArgs f w t with
        | error s => exact hw
        | ok na =>
          obtain ⟨name, as⟩ := na
          simp only
          have h1 := assertFact_cyc f name as false w hw
          generalize assertFact f name as false w = r at h1
          obtain ⟨w1, o⟩ := r
          cases o with
          | none => simp only; exact hk w1 h1
          | some s => exact h1
      · rename_i t
        cases hfn : factNameArgs f w t with
        | error s => exact hw
        | ok na =>
          obtain ⟨name, as⟩ := na
          simp only
          exact retractLoop_cycGen f name as _ k hk w hw
      · rename_i t
        cases hfn : factNameArgs f w t with
        | error s => exact hw
        | ok na =>
          obtain ⟨name, as⟩ := na
          simp only
          have h1 := retractAllLoop_cyc f as (w.facts name as.length) [] w hw
          generalize retractAllLoop f as (w.facts name as.length) [] w = r at h1
          obtain ⟨w1, res⟩ := r
          cases res with
          | ok keep => simp only; exact hk _ (by rw [setFacts_cyc]; exact h1)
          | error s => exact h1
      · exact hw
    · intro g extra k hk w hw
      simp only [callGoal]
      split
      · exact hw
      · exact ihQ _ _ k hk w hw
      · exact ihQ _ _ k hk w hw
      · exact hw

/-- Whatever is queried, under every definition table, at every fuel: once the ghost flag is set
    in the world the query generator is started from, it is set in the world it hands back. -/
theorem query_cycGen (cfg : Cfg) (f : Nat) (name : String) (args : List Term) : CycGen (query cfg f name args) :=
  (allCyc cfg f).1 name args

end Yld
