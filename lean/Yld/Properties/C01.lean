/-
  C01 — compiled clauses compute exactly Prolog's answers, in order.

  Body level (Theorem A) and program level are proved in Yld/Proofs/CompCorrect.lean,
  Parametric.lean and Program.lean and restated here; the clause-level facts follow. The clause
  activation the generated code performs (a head argument that is a once-occurring plain variable
  is identified with the argument) is proved observationally equal to the textbook activation
  (Yld/Proofs/Activation.lean), the printed Python text to the compiled predicate (Theorem B), and
  the chain is put together in `printed_python_computes_prologs_answers`. At the end: for the Horn
  fragment the answers are measured against the *logical* reading of the program
  (Yld/Proofs/Logic.lean): every answer is a consequence, and without cut every consequence is found.
-/
import Yld.Model.Api
import Yld.Model.Parser
import Yld.Proofs.Program
import Yld.Proofs.ClauseOK
import Yld.Proofs.PyTop
import Yld.Proofs.PyDeep
import Yld.Proofs.Activation
import Yld.Proofs.WFPreserved
import Yld.Proofs.EndToEnd
import Yld.Proofs.Logic
import Yld.Proofs.LogicComplete
import Yld.Proofs.LogicFacts
import Std.Data.String.ToNat
namespace Yld.C01

/-- Every clause activation works on fresh variables: the declarations of an activation
    allocate one new cell per name, consecutively from the allocation counter — so two activations
    (recursive or repeated calls) never share a cell — and bind nothing. -/
theorem alloc_fresh (names : List String) (env : Env) (w : World) :
    (allocVars names env w).2.next = w.next + names.length ∧
    (allocVars names env w).2.b = w.b ∧
    (allocVars names env w).1 = env ++ (names.zipIdx.map fun (v, i) => (v, Term.var (w.next + i))) := by
  induction names generalizing env w with
  | nil => simp [allocVars]
  | cons n ns ih =>
    have step : allocVars (n :: ns) env w = allocVars ns (env ++ [(n, .var w.next)]) { w with next := w.next + 1 } := by
      simp [allocVars, World.fresh]
    rw [step]
    obtain ⟨h1, h2, h3⟩ := ih (env ++ [(n, .var w.next)]) { w with next := w.next + 1 }
    refine ⟨by rw [h1]; simp only [List.length_cons]; omega, h2, ?_⟩
    rw [h3]
    simp only [List.append_assoc, List.singleton_append, List.zipIdx_cons, List.map_cons, Nat.add_zero]
    congr 2
    rw [List.zipIdx_succ]
    simp only [List.map_map]
    apply List.map_congr_left
    intro ⟨v, i⟩ _
    simp only [Function.comp, Prod.map, id]
    congr 2
    omega

/-- Every `_` is a distinct variable: two anonymous variables of one compilation get different
    names. -/
theorem anon_distinct (st : PS) : (mkVar "_" st).1 ≠ (mkVar "_" (mkVar "_" st).2).1 := by
  simp only [mkVar, beq_self_eq_true, if_true]
  intro h
  injection h with h
  have h' := String.append_right_inj "x" |>.mp h
  have h2 : (st.anon + 1).repr = (st.anon + 1 + 1).repr := h'
  have := Nat.repr_injective h2
  omega

/-- Clauses are tried in order; a clause that ends normally is followed by the next, a clause
    that is abandoned (or cut) ends the enumeration. -/
theorem clause_order {α : Type} (run : α → Gen) (c : α) (cs : List α) (k : K) (w : World) :
    runClauses run (c :: cs) k w =
      match run c k w with
      | (w', none) => runClauses run cs k w'
      | r => r := by
  simp only [runClauses]
  cases h : run c k w with
  | mk w' s => cases s <;> rfl
/-- Head arguments are unified left to right, each under the bindings made by the earlier ones. -/
theorem head_unify_left_to_right (fuel : Nat) (env : Env) (args : List Term) (i : Nat) (t : STerm)
    (rest : List (Nat × STerm)) (g : Gen) :
    unifyHead fuel env args ((i, t) :: rest) g =
      Gen.andThen (unify fuel (args.getD i (.atom "$noarg")) (t.eval env)) (unifyHead fuel env args rest g) := by
  funext k w; simp [unifyHead, Gen.andThen]

/-- A head argument that is a plain, once-occurring variable is identified with the argument;
    every other position is unified. -/
example : headAlias [.var "V_X", .var "V_Y", .var "V_X", .atom "a", .fn "f" [.var "V_Y"]]
    = [none, some "V_Y", none, none, none] := by decide

/-- **Theorem A.** The code `compile_body` emits for a clause body — any nesting of `,` `;` `->`
    `\\+` `!`, calls, true, fail — has exactly the reference semantics: for every consumer of
    the enclosing function, every world, every parametric meaning of the calls, every value of the
    label counter. -/
theorem compiled_body_is_reference (q : Q) (hq : Parametric q) (env : Env) (b : Body) (hb : Src b) (n : Nat)
    (k : K) (hk : External k) (w : World) :
    execList q env (comp b [] n).1 k w = solve q env 0 b k w :=
  compile_body_correct q hq env b hb n k hk w

/-- The engine's own `query` satisfies Theorem A's hypothesis at every fuel. -/
theorem engine_query_is_parametric (cfg : Cfg) (f : Nat) : Parametric (query cfg f) := query_parametric cfg f

/-- Bodies built by the front end are source bodies. -/
theorem front_end_bodies_are_source (rb : RBody) (b : Body) (h : bodyOfRaw rb = .ok b) : Src b := bodyOfRaw_src rb b h

/-- **Program level.** Running the generated code of a whole program equals running the reference
    semantics of its clause bodies (under the same clause activations): the same generator — same
    answers, order, multiplicity, bindings at each answer, faults, termination at every fuel. -/
theorem compiled_program_is_reference (cfg : Cfg) (hsrc : SrcDefs cfg.defs) (f : Nat) (name : String) (args : List Term) :
    query (cfg.withMode .compiled) f name args = query (cfg.withMode .refbody) f name args :=
  program_correct cfg hsrc f name args

/-- **The printed text.** The `def` the compiler prints for a predicate (tie T1 compares it with
    the real compiler's output), called under the Python semantics of `Yld.Model.Py`, is the
    engine model's compiled mode for that predicate: same unifications with the arguments, same
    calls to `query` with the same consumers in the same worlds, same outcome — for every clause
    list, argument list of the right length, consumer and world. -/
theorem printed_function_is_compiled_predicate (cfg : Cfg) (f : Nat) (p : Pred) (mode : Mode) (args : List Term)
    (harity : p.arity = args.length) (hsrc : ∀ c ∈ p.clauses, ClauseSrcOK c args.length) :
    runDefPyTop cfg (f + 1) (.prolog p mode) args = runDef cfg (f + 1) (.prolog p .compiled) args :=
  pyTop_def_correct_engine cfg f p mode args harity hsrc

/-- The model engine does not look at its consumer's frame (the hypothesis `FrameLocal` of the
    theorems about printed Python, discharged for `query` at every fuel and for `unify`). -/
theorem engine_is_frame_local (cfg : Cfg) (f : Nat) (name : String) (args : List Term) (a b : Term) :
    FrameLocal (query cfg f name args) ∧ FrameLocal (unify f a b) :=
  ⟨query_frameLocal cfg f name args, unify_frameLocal f a b⟩

/-- What `compile_function_body` hands to the code generator: distinct local names, every variable
    of the clause declared before use, argument positions inside the parameter list. -/
theorem clause_compiler_output_ok (c : Clause) (n m : Nat) (h : ClauseSrcOK c m) : ClauseOK (compileClause c n).1 m :=
  compileClause_ok c n m h

/-- Running the queried predicate from the Python text printed for it (its callees as compiled
    code) is `query` on the compiled program — for every definition table built from front-end output. -/
theorem queried_predicate_from_its_text (cfg : Cfg) (hdefs : DefsPyOK cfg.defs) (f : Nat) (name : String) (args : List Term) :
    queryPyTop cfg f name args = query cfg f name args :=
  queryPyTop_eq cfg hdefs f name args

/-- **Program-level Theorem B: the driver's `python` mode is the compiled mode.** With *every*
    generated function interpreted from its printed Python text — the queried predicate and whatever
    it calls, at any depth, through call/once/findall too — the engine answers every query exactly
    as in compiled mode: same answers, order, bindings, store, outcome, at every fuel. Tie T2p
    compares this mode with the real engine on every generated case. -/
theorem python_mode_is_compiled_mode (cfg : Cfg) (hdefs : DefsPyOK cfg.defs) (f : Nat) (name : String) (args : List Term) :
    queryD cfg f name args = query cfg f name args :=
  queryD_eq cfg hdefs f name args

/-- **The activation the generated code performs is the textbook activation, observationally.**
    Identifying a once-occurring plain head variable with the call's argument (no new variable, no
    unification) instead of allocating a variable for it and unifying changes which cells are
    allocated and how the binding chains look, but not what the consumer of a query records (the
    arguments resolved at every depth, variables numbered by first occurrence) nor how the query ends
    — for every well-formed engine state, query over allocated variables, schedule and fuel,
    provided neither run is cut off by the fuel or creates a cyclic term. Together with
    `compiled_program_is_reference` (generated code = reference bodies under the generated
    activation) this takes the generated code all the way to the textbook semantics. -/
theorem aliased_activation_is_textbook_activation (e : Engine) (hwf : e.WF) (f : Nat) (name : String) (args : List Term)
    (hargs : ArgsScoped e args) (sched : Sched)
    (h1 : ((e.withMode .reference).query .reference f name args sched).2.ending ≠ some .oof)
    (h2 : ((e.withMode .refbody).query .refbody f name args sched).2.ending ≠ some .oof)
    (hc1 : ((e.withMode .reference).query .reference f name args sched).2.cyc = false)
    (hc2 : ((e.withMode .refbody).query .refbody f name args sched).2.cyc = false) :
    ((e.withMode .reference).query .reference f name args sched).2.answers
      = ((e.withMode .refbody).query .refbody f name args sched).2.answers ∧
    ((e.withMode .reference).query .reference f name args sched).2.ending
      = ((e.withMode .refbody).query .refbody f name args sched).2.ending :=
  reference_eq_refbody_wf e hwf f name args hargs sched h1 h2 hc1 hc2

/-- Non-vacuity of the well-formedness hypothesis: the engine as constructed is well-formed. -/
theorem fresh_engine_is_well_formed : ({} : Engine).WF := Engine.WF.default

/-- Well-formedness is an invariant of the API: loading, registering a Python predicate with closed
    rows, clearing, `assert_fact` and queries — however they end, whatever the fuel — lead from
    well-formed engine states to well-formed engine states. So the hypothesis of
    `aliased_activation_is_textbook_activation` holds along every history that starts from the
    constructed engine. -/
theorem well_formedness_is_invariant (e : Engine) (h : e.WF) :
    (∀ m cs ow, (e.load m cs ow).WF) ∧
    (∀ name arity (p : PyPred), (∀ c ∈ p.rows, FactClosed c) → (e.register name arity p).WF) ∧
    e.clear.WF ∧
    (∀ fuel name args app, (e.assertFact fuel name args app).1.WF) ∧
    (∀ mode fuel name args sched, ArgsScoped e args → (e.query mode fuel name args sched).1.WF) :=
  ⟨fun m cs ow => wf_load e h m cs ow, fun name arity p hp => wf_register e h name arity p hp, wf_clear e h,
   fun fuel name args app => wf_assertFact e h fuel name args app,
   fun mode fuel name args sched ha => wf_query e h mode fuel name args ha sched⟩

/-- **C01, end to end inside the model.** For a well-formed engine whose definitions come from the
    front end, with every predicate run by interpreting the Python text the compiler prints for it,
    a query over allocated variables records the same answers, in the same order with the same
    multiplicity, and ends in the same way as under the reference semantics of the clause bodies with
    the textbook clause activation — unless one of the two runs is cut off by the fuel or creates a
    cyclic term. -/
theorem printed_python_computes_prologs_answers (e : Engine) (hwf : e.WF) (hsrc : SrcDefs e.defs)
    (hpy : DefsPyOK (e.withMode .compiled).defs) (f : Nat) (name : String) (args : List Term)
    (hargs : ArgsScoped e args) (sched : Sched)
    (h1 : ((e.withMode .reference).query .reference f name args sched).2.ending ≠ some .oof)
    (h2 : ((e.withMode .compiled).query .compiled f name args sched true).2.ending ≠ some .oof)
    (hc1 : ((e.withMode .reference).query .reference f name args sched).2.cyc = false)
    (hc2 : ((e.withMode .compiled).query .compiled f name args sched true).2.cyc = false) :
    ((e.withMode .compiled).query .compiled f name args sched true).2.answers
      = ((e.withMode .reference).query .reference f name args sched).2.answers ∧
    ((e.withMode .compiled).query .compiled f name args sched true).2.ending
      = ((e.withMode .reference).query .reference f name args sched).2.ending :=
  printed_text_has_textbook_semantics e hwf hsrc hpy f name args hargs sched h1 h2 hc1 hc2

/-! ### Against the logical reading of the program (Horn fragment)

`Holds preds name args` (Yld/Proofs/Logic.lean) is the least relation closed under the clauses read as
implications, in all instances, with `=` as identity: no search order, no cut, no depth. -/

/-- **Every answer is a logical consequence of the program.** With no dynamic facts, a query for a
    goal of the Horn fragment hands to its consumer only worlds in which the goal follows from the
    program under every solution of the heap: consumers that agree on such worlds give the same run.
    Every limit; cut included (it only prunes). -/
theorem consumer_sees_only_consequences (cfg : Cfg) (preds : List Pred) (h : HornCfg cfg preds) (f : Nat) (name : String)
    (args : List Term) (hname : userName name = true) (w : World) (hdb : w.db = []) (hsc : w.Scoped)
    (hargs : ∀ t ∈ args, ∀ x ∈ t.vars, x < w.next) (k1 k2 : K) (hq1 : Quiet k1) (hq2 : Quiet k2)
    (hk : ∀ w', GoalHolds preds name args w' → k1 w' = k2 w') :
    query cfg f name args k1 w = query cfg f name args k2 w :=
  query_sound cfg preds h f name args hname w hdb hsc hargs k1 k2 hq1 hq2 hk

/-- … at the API: every instance of every recorded answer follows from the program. -/
theorem answers_are_logical_consequences (e : Engine) (hwf : e.WF) (preds : List Pred)
    (h : HornCfg { blacklist := e.blacklist, defs := e.defs, mode := .reference } preds) (hdb : e.w.db = [])
    (f : Nat) (name : String) (args : List Term) (hname : userName name = true) (hargs : ArgsScoped e args) (sched : Sched)
    (hc : (e.query .reference f name args sched).2.cyc = false) :
    ∀ ans ∈ (e.query .reference f name args sched).2.answers,
      ∃ ts, ans = .fn "$ans" ts ∧ ∀ ρ : Nat → Term, Holds preds name (ts.map (Term.subst ρ)) :=
  answers_are_consequences e hwf preds h hdb f name args hname hargs sched hc

/-- **Without cut, every consequence is found.** If an instance `θ` of the goal follows from the
    program, the search does not end normally without having reached it: the consumer that waits for
    it is triggered, or the limit cuts the search off. -/
theorem every_consequence_is_found (cfg : Cfg) (preds : List Pred) (h : HornCfg cfg preds)
    (hnocut : ∀ p ∈ preds, ∀ c ∈ p.clauses, c.body.cutFree = true)
    (f : Nat) (name : String) (args : List Term) (hname : userName name = true)
    (w : World) (hdb : w.db = []) (hsc : w.Scoped) (hargs : ∀ t ∈ args, ∀ x ∈ t.vars, x < w.next)
    (θ : Nat → Term) (hθ : Solves θ w.b) (hh : Holds preds name (args.map (Term.subst θ))) :
    (query cfg f name args (waitFor θ w.next) w).2 ≠ none :=
  query_complete cfg preds h hnocut f name args hname w hdb hsc hargs θ hθ hh

/-- … at the API: when the enumeration of all answers of a cut-free Horn program ends normally, every
    instance of the goal that follows from the program is an instance of a recorded answer. -/
theorem recorded_answers_cover_every_consequence (e : Engine) (hwf : e.WF) (preds : List Pred)
    (h : HornCfg { blacklist := e.blacklist, defs := e.defs, mode := .reference } preds)
    (hnocut : ∀ p ∈ preds, ∀ c ∈ p.clauses, c.body.cutFree = true) (hdb : e.w.db = [])
    (f : Nat) (name : String) (args : List Term) (hname : userName name = true) (hargs : ArgsScoped e args)
    (hend : (e.query .reference f name args .all).2.ending = none)
    (θ : Nat → Term) (hθ : Solves θ e.w.b) (hh : Holds preds name (args.map (Term.subst θ))) :
    ∃ ans ∈ (e.query .reference f name args .all).2.answers,
      ∃ ts, ans = .fn "$ans" ts ∧ ∃ ρ : Nat → Term, ts.map (Term.subst ρ) = args.map (Term.subst θ) :=
  answers_cover_all_consequences e hwf preds h hnocut hdb f name args hname hargs hend θ hθ hh

/-- **Exactly Prolog's answers, in logical terms.** For a completed enumeration of a cut-free Horn
    program: the instances of the recorded answers are exactly the instances of the goal that follow
    from the program. -/
theorem answers_are_exactly_the_logical_consequences (e : Engine) (hwf : e.WF) (preds : List Pred)
    (h : HornCfg { blacklist := e.blacklist, defs := e.defs, mode := .reference } preds)
    (hnocut : ∀ p ∈ preds, ∀ c ∈ p.clauses, c.body.cutFree = true) (hdb : e.w.db = [])
    (f : Nat) (name : String) (args : List Term) (hname : userName name = true) (hargs : ArgsScoped e args)
    (hend : (e.query .reference f name args .all).2.ending = none)
    (hc : (e.query .reference f name args .all).2.cyc = false) :
    (∀ ans ∈ (e.query .reference f name args .all).2.answers,
      ∃ ts, ans = .fn "$ans" ts ∧ ∀ ρ : Nat → Term, Holds preds name (ts.map (Term.subst ρ))) ∧
    (∀ θ, Solves θ e.w.b → Holds preds name (args.map (Term.subst θ)) →
      ∃ ans ∈ (e.query .reference f name args .all).2.answers,
        ∃ ts, ans = .fn "$ans" ts ∧ ∃ ρ : Nat → Term, ts.map (Term.subst ρ) = args.map (Term.subst θ)) :=
  answers_are_exactly_the_consequences e hwf preds h hnocut hdb f name args hname hargs hend hc

/-- The hypothesis `HornCfg` is what loading a Horn program gives. -/
theorem loading_a_horn_program_gives_a_horn_table (cs : List SClause)
    (hcs : ∀ c ∈ cs, userName c.name = true ∧ c.name ≠ "=" ∧ c.clause.body.horn = true ∧
                     defaultBlacklist.contains c.name = false) :
    HornCfg { blacklist := ({} : Engine).blacklist, defs := (({} : Engine).load .reference cs true).defs, mode := .reference }
      (groupClauses cs) :=
  hornCfg_of_load cs hcs

/-- switching every definition to another mode of the model keeps the engine state well-formed -/
theorem wf_withMode (e : Engine) (h : e.WF) (m : Mode) : (e.withMode m).WF := by
  refine ⟨h.inScope, h.solvable, h.closed, ?_⟩
  intro kd hkd d hd
  simp only [Engine.withMode, List.mem_map] at hkd
  obtain ⟨kd0, hkd0, rfl⟩ := hkd
  simp only [List.mem_map] at hd
  obtain ⟨d0, hd0, rfl⟩ := hd
  have := h.rows kd0 hkd0 d0 hd0
  cases d0 <;> simpa [Def.withMode, DefRowsClosed] using this

/-- **The answers of the printed Python are logical consequences of the Prolog program.** The whole
    chain in one statement, for a Horn program: every predicate run by interpreting the Python text
    the compiler prints for it; every instance of every recorded answer follows from the clauses read
    as implications (unless a run is cut off by the limit or builds a cyclic term). -/
theorem printed_python_answers_are_logical_consequences (e : Engine) (hwf : e.WF) (hsrc : SrcDefs e.defs)
    (hpy : DefsPyOK (e.withMode .compiled).defs) (preds : List Pred)
    (h : HornCfg { blacklist := e.blacklist, defs := (e.withMode .reference).defs, mode := .reference } preds)
    (hdb : e.w.db = []) (f : Nat) (name : String) (args : List Term) (hname : userName name = true)
    (hargs : ArgsScoped e args) (sched : Sched)
    (h1 : ((e.withMode .reference).query .reference f name args sched).2.ending ≠ some .oof)
    (h2 : ((e.withMode .compiled).query .compiled f name args sched true).2.ending ≠ some .oof)
    (hc1 : ((e.withMode .reference).query .reference f name args sched).2.cyc = false)
    (hc2 : ((e.withMode .compiled).query .compiled f name args sched true).2.cyc = false) :
    ∀ ans ∈ ((e.withMode .compiled).query .compiled f name args sched true).2.answers,
      ∃ ts, ans = .fn "$ans" ts ∧ ∀ ρ : Nat → Term, Holds preds name (ts.map (Term.subst ρ)) := by
  rw [(printed_text_has_textbook_semantics e hwf hsrc hpy f name args hargs sched h1 h2 hc1 hc2).1]
  exact answers_are_consequences (e.withMode .reference) (wf_withMode e hwf .reference) preds h hdb f name args hname
    hargs sched hc1

/-- **The printed Python computes exactly the logical consequences.** For a cut-free Horn program, every
    predicate run by interpreting the Python text the compiler prints for it: when the enumeration of
    all answers completes (and neither run is cut off or builds a cyclic term), the instances of the
    recorded answers are exactly the instances of the goal that follow from the clauses read as
    implications. -/
theorem printed_python_answers_are_exactly_the_logical_consequences (e : Engine) (hwf : e.WF) (hsrc : SrcDefs e.defs)
    (hpy : DefsPyOK (e.withMode .compiled).defs) (preds : List Pred)
    (h : HornCfg { blacklist := e.blacklist, defs := (e.withMode .reference).defs, mode := .reference } preds)
    (hnocut : ∀ p ∈ preds, ∀ c ∈ p.clauses, c.body.cutFree = true)
    (hdb : e.w.db = []) (f : Nat) (name : String) (args : List Term) (hname : userName name = true)
    (hargs : ArgsScoped e args)
    (hend : ((e.withMode .compiled).query .compiled f name args .all true).2.ending = none)
    (h1 : ((e.withMode .reference).query .reference f name args .all).2.ending ≠ some .oof)
    (hc1 : ((e.withMode .reference).query .reference f name args .all).2.cyc = false)
    (hc2 : ((e.withMode .compiled).query .compiled f name args .all true).2.cyc = false) :
    (∀ ans ∈ ((e.withMode .compiled).query .compiled f name args .all true).2.answers,
      ∃ ts, ans = .fn "$ans" ts ∧ ∀ ρ : Nat → Term, Holds preds name (ts.map (Term.subst ρ))) ∧
    (∀ θ, Solves θ e.w.b → Holds preds name (args.map (Term.subst θ)) →
      ∃ ans ∈ ((e.withMode .compiled).query .compiled f name args .all true).2.answers,
        ∃ ts, ans = .fn "$ans" ts ∧ ∃ ρ : Nat → Term, ts.map (Term.subst ρ) = args.map (Term.subst θ)) := by
  have h2 : ((e.withMode .compiled).query .compiled f name args .all true).2.ending ≠ some .oof := by
    rw [hend]; exact fun x => by cases x
  obtain ⟨ea, ee⟩ := printed_text_has_textbook_semantics e hwf hsrc hpy f name args hargs .all h1 h2 hc1 hc2
  rw [ea]
  rw [ee] at hend
  exact answers_are_exactly_the_consequences (e.withMode .reference) (wf_withMode e hwf .reference) preds h hnocut hdb
    f name args hname hargs hend hc1

/-! ### … and with a fact store

`HoldsF db preds` adds to `Holds preds` the rule that every instance of a stored fact holds: the store
as unit clauses (of any name, also next to clauses of the same name). Horn bodies cannot change the
store, so it is a constant of the run. -/

/-- Every answer follows from program and store, whatever (closed) facts the store holds. -/
theorem answers_follow_from_program_and_facts (e : Engine) (hwf : e.WF) (preds : List Pred)
    (h : HornCfg { blacklist := e.blacklist, defs := e.defs, mode := .reference } preds)
    (f : Nat) (name : String) (args : List Term) (hname : userName name = true) (hargs : ArgsScoped e args) (sched : Sched)
    (hc : (e.query .reference f name args sched).2.cyc = false) :
    ∀ ans ∈ (e.query .reference f name args sched).2.answers,
      ∃ ts, ans = .fn "$ans" ts ∧ ∀ ρ : Nat → Term, HoldsF e.w.db preds name (ts.map (Term.subst ρ)) :=
  answers_are_consequences_facts e hwf preds h f name args hname hargs sched hc

/-- Without cut, a completed enumeration has recorded every consequence of program and store. -/
theorem recorded_answers_cover_every_consequence_of_program_and_facts (e : Engine) (hwf : e.WF) (preds : List Pred)
    (h : HornCfg { blacklist := e.blacklist, defs := e.defs, mode := .reference } preds)
    (hnocut : ∀ p ∈ preds, ∀ c ∈ p.clauses, c.body.cutFree = true)
    (f : Nat) (name : String) (args : List Term) (hname : userName name = true) (hargs : ArgsScoped e args)
    (hend : (e.query .reference f name args .all).2.ending = none)
    (θ : Nat → Term) (hθ : Solves θ e.w.b) (hh : HoldsF e.w.db preds name (args.map (Term.subst θ))) :
    ∃ ans ∈ (e.query .reference f name args .all).2.answers,
      ∃ ts, ans = .fn "$ans" ts ∧ ∃ ρ : Nat → Term, ts.map (Term.subst ρ) = args.map (Term.subst θ) :=
  answers_cover_all_consequences_facts e hwf preds h hnocut f name args hname hargs hend θ hθ hh

/-- At the generator level, for any consumer: soundness and completeness with a store. -/
theorem consumer_sees_only_consequences_of_program_and_facts (cfg : Cfg) (preds : List Pred) (h : HornCfg cfg preds) (f : Nat)
    (name : String) (args : List Term) (hname : userName name = true) (w : World) (hcl : DbClosed w.db) (hsc : w.Scoped)
    (hargs : ∀ t ∈ args, ∀ x ∈ t.vars, x < w.next) (k1 k2 : K) (hq1 : Quiet k1) (hq2 : Quiet k2)
    (hk : ∀ w', GoalHoldsF w.db preds name args w' → k1 w' = k2 w') :
    query cfg f name args k1 w = query cfg f name args k2 w :=
  query_sound_facts cfg preds h f name args hname w hcl hsc hargs k1 k2 hq1 hq2 hk
theorem every_consequence_of_program_and_facts_is_found (cfg : Cfg) (preds : List Pred) (h : HornCfg cfg preds)
    (hnocut : ∀ p ∈ preds, ∀ c ∈ p.clauses, c.body.cutFree = true)
    (f : Nat) (name : String) (args : List Term) (hname : userName name = true)
    (w : World) (hcl : DbClosed w.db) (hsc : w.Scoped) (hargs : ∀ t ∈ args, ∀ x ∈ t.vars, x < w.next)
    (θ : Nat → Term) (hθ : Solves θ w.b) (hh : HoldsF w.db preds name (args.map (Term.subst θ))) :
    (query cfg f name args (waitFor θ w.next) w).2 ≠ none :=
  query_complete_facts cfg preds h hnocut f name args hname w hcl hsc hargs θ hθ hh

/-- With an empty store this is the reading without facts. -/
theorem no_facts_no_difference (preds : List Pred) (name : String) (args : List Term) :
    HoldsF [] preds name args ↔ Holds preds name args := holdsF_nil preds name args

/-- Not vacuous: `app/3`, its table, a derivation, and the three theorems applied to `app(X,Y,[a])`
    are in Yld/Proofs/Logic.lean (`app_hornCfg`, `app_holds`, the three `example`s). -/
example : Holds [appPred] "app" [mkList [.atom "a"], .atom "[]", mkList [.atom "a"]] := app_holds

end Yld.C01
