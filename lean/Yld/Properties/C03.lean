/-
  C03 — backtracking leaves no trace, however a query ends.

  `Restoring g` (Yld/Proofs/Restore.lean) quantifies over *every* disciplined consumer: one that
  resumes the generator (answer `none`), closes or drops it after any answer (`some stop`), or
  raises (`some (exn e)`), at any yield and differently at different yields. The result says the
  bindings handed back are those the generator started from.
-/
import Yld.Proofs.Restore2
namespace Yld.C03

/-- A unification generator leaves every variable in the binding state it had before it was
    started — run to exhaustion, closed or dropped after its answer, or unwound by an exception
    of the consumer; under any stack of bindings active when it was started. -/
theorem unify_leaves_no_trace (f : Nat) (t1 t2 : Term) (k : K) (hk : Disciplined k) (w : World) :
    (unify f t1 t2 k w).1.b = w.b :=
  unify_restoring f t1 t2 k hk w

/-- The binder itself: `try: yield finally: unbind` restores the cell for every consumer answer. -/
theorem binder_finally (x : Nat) (t : Term) (k : K) (hk : Disciplined k) (w : World) (h : w.b x = none) :
    (bindGen x t k w).1.b = w.b :=
  bindGen_restores x t k hk w h

/-- `unify_arrays`: the sub-unifications it holds open are all undone, also when a later
    argument does not match and when it is closed at the yield. -/
theorem unify_arrays_leaves_no_trace (f : Nat) (as bs : List Term) : Restoring (unifyList (unify f) as bs) :=
  unifyList_restores (unify f) (unify_restoring f) as bs

/-- Restoration is preserved by the ways generators are combined in the engine and in generated
    code: one loop after another (`itertools.chain`, clause after clause), a loop inside a loop
    (`for … in g1: yield from g2`). -/
theorem chain_leaves_no_trace (g1 g2 : Gen) (h1 : Restoring g1) (h2 : Restoring g2) : Restoring (Gen.seq g1 g2) :=
  seq_restoring g1 g2 h1 h2
theorem nested_loops_leave_no_trace (g1 g2 : Gen) (h1 : Restoring g1) (h2 : Restoring g2) :
    Restoring (Gen.andThen g1 g2) :=
  andThen_restoring g1 g2 h1 h2

/-- **Theorem R.** A query on any program — compiled code with cuts (`return`), if-then-else
    (`break` through nested loops), negation, meta-calls, dynamic facts, registered Python
    predicates that may raise — under any definition table and at any fuel, run with any
    disciplined consumer (one that resumes, closes after any answer, or raises at any answer):
    when the generator has ended, every binding cell is as it was before it was started. -/
theorem query_leaves_no_trace (cfg : Cfg) (f : Nat) (name : String) (args : List Term) (k : K) (hk : Disciplined k) (w : World) :
    (query cfg f name args k w).1.b = w.b :=
  query_restoring cfg f name args k hk w

/-- The same through the API, for the four ways a caller can end an enumeration. Consequently the
    bindings before a second run of a query are those before the first. -/
theorem api_query_leaves_no_trace (e : Engine) (m : Mode) (fuel : Nat) (name : String) (args : List Term) (sched : Sched) :
    (e.query m fuel name args sched).1.w.b = e.w.b :=
  engine_query_restores e m fuel name args sched

/-- The generated code of one clause (head unifications, fresh variables, loops left by `return`
    and `break`) restores, for every consumer. -/
theorem compiled_clause_leaves_no_trace (fuel : Nat) (q : Q) (hq : QRestoring q) (cc : ClauseCode) (args : List Term) :
    Restoring (runClauseCompiled fuel q cc args) :=
  runClauseCompiled_restoring fuel q hq cc args

/-- The bindings visible at an answer are the generator's own on top of the starting ones: a
    consumer that closes at the first answer still gets the starting bindings back. Concrete
    instance: X = f(Y) under Y = a, closed at the yield. -/
example :
    let w : World := { b := bind Bind.empty 1 (.atom "a") }
    (unify 5 (.var 0) (.fn "f" [.var 1]) (fun w' => (w', some .stop)) w).1.b 0 = none := by
  decide

end Yld.C03
