/-
  C02 — unification computes a most general unifier, or fails.

  Proved here: at most one yield; soundness (at the yield both terms denote the same term, and
  the bindings extend the starting ones only by binding previously unbound variables);
  restoration; the arity/name side conditions; symmetry of the dispatch on variable/non-variable
  pairs. Completeness and most-generality are NOT proved: the correspondence check compares every
  generated case against an independent textbook unifier (harness/unif.py) instead.
-/
import Yld.Proofs.UnifySound
namespace Yld.C02

/-- Compound terms unify only if both name and number of arguments agree: equal names with
    different arities do not yield (and bind nothing). -/
theorem unify_arity (f : Nat) (g : String) (as bs : List Term) (k : K) (w : World)
    (h : as.length ≠ bs.length) :
    unify (f+1) (.fn g as) (.fn g bs) k w = (w, none) := by
  simp [unify, walk, h]

theorem unify_name (f : Nat) (g g' : String) (as bs : List Term) (k : K) (w : World) (h : g ≠ g') :
    unify (f+1) (.fn g as) (.fn g' bs) k w = (w, none) := by
  simp [unify, walk, h]

/-- Atoms unify iff their names are equal, yielding once and binding nothing. -/
theorem unify_atoms (f : Nat) (s s' : String) (k : K) (w : World) :
    unify (f+1) (.atom s) (.atom s') k w = if s = s' then k w else (w, none) := by
  simp [unify, walk]

/-- An atom never unifies with a compound term, not even one without arguments. -/
theorem atom_vs_compound (f : Nat) (s g : String) (as : List Term) (k : K) (w : World) :
    unify (f+1) (.atom s) (.fn g as) k w = (w, none) ∧ unify (f+1) (.fn g as) (.atom s) k w = (w, none) := by
  simp [unify, walk]

/-- Self-unification of an unbound variable yields once without binding it (the shortcut in
    Variable.unify). -/
theorem unify_var_self (f : Nat) (x : Nat) (k : K) (w : World) (h : w.b x = none) :
    unify (f+1) (.var x) (.var x) k w = k w := by
  simp [unify, walk, h]

/-- Whatever the outcome, all bindings made are undone afterwards. -/
theorem unify_restores (f : Nat) (t1 t2 : Term) : Restoring (unify f t1 t2) := unify_restoring f t1 t2

/-- A variable meets a non-variable: the variable is bound to it, in either argument order. -/
theorem unify_var_nonvar_symm (f : Nat) (x : Nat) (s : String) (k : K) (w : World) (h : w.b x = none) :
    unify (f+1) (.var x) (.atom s) k w = unify (f+1) (.atom s) (.var x) k w := by
  simp [unify, walk, h]

/-- unify yields at most once, under any stack of bindings already active: its consumer is
    called zero times or exactly once, on a world that depends on the terms and the starting world
    only. -/
theorem unify_yields_at_most_once (f : Nat) (t1 t2 : Term) (w : World) : Shape (unify f t1 t2) w :=
  unify_shape f t1 t2 w

/-- At the yield both terms dereference to the same term (they have exactly the same values
    under the bindings in force), and the new bindings only bind variables that were unbound. -/
theorem unify_sound_at_yield (f : Nat) (t1 t2 : Term) (w : World) :
    ShapeP (fun pre => Ext w.b pre.b ∧ Same pre.b t1 t2) (unify f t1 t2) w :=
  unify_sound f t1 t2 w

end Yld.C02
