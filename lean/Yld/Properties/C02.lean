/-
  C02 — unification computes a most general unifier, or fails.

  Proved here: at most one yield; soundness (at the yield both terms denote the same term, and
  the bindings extend the starting ones only by binding previously unbound variables);
  restoration; the arity/name side conditions; symmetry of the dispatch on variable/non-variable
  pairs. Completeness and most-generality are NOT proved: the correspondence check compares every
  generated case against an independent textbook unifier (harness/unif.py) instead.
-/
import Yld.Proofs.UnifySound
import Yld.Proofs.UnifyMGU
namespace Yld.C02

/-- Compound terms unify only if both name and number of arguments agree: equal names with
    different arities do not yield (and bind nothing). -/
theorem unify_arity (f : Nat) (g : String) (as bs : List Term) (k : K) (w : World)
    (h : as.length ≠ bs.length) :
    unify (f+1) (.fn g as) (.fn g bs) k w = (w, none) := by
  simp [unify, walk, h]

theorem unify_name (f : Nat) (g g' : String) (as bs : List Term) (k : K) (w : World) (h : g ≠ g') :
    unify (f+1) (.fn g as) (.fn g' bs) k w = (w, none) := by
  simp [unify, walk, h]

/-- Atoms unify iff their names are equal, yielding once and binding nothing. -/
theorem unify_atoms (f : Nat) (s s' : String) (k : K) (w : World) :
    unify (f+1) (.atom s) (.atom s') k w = if s = s' then k w else (w, none) := by
  simp [unify, walk]

/-- An atom never unifies with a compound term, not even one without arguments. -/
theorem atom_vs_compound (f : Nat) (s g : String) (as : List Term) (k : K) (w : World) :
    unify (f+1) (.atom s) (.fn g as) k w = (w, none) ∧ unify (f+1) (.fn g as) (.atom s) k w = (w, none) := by
  simp [unify, walk]

/-- Self-unification of an unbound variable yields once without binding it (the shortcut in
    Variable.unify). -/
theorem unify_var_self (f : Nat) (x : Nat) (k : K) (w : World) (h : w.b x = none) :
    unify (f+1) (.var x) (.var x) k w = k w := by
  simp [unify, walk, h]

/-- Whatever the outcome, all bindings made are undone afterwards. -/
theorem unify_restores (f : Nat) (t1 t2 : Term) : Restoring (unify f t1 t2) := unify_restoring f t1 t2

/-- A variable meets a non-variable: the variable is bound to it, in either argument order. -/
theorem unify_var_nonvar_symm (f : Nat) (x : Nat) (s : String) (k : K) (w : World) (h : w.b x = none) :
    unify (f+1) (.var x) (.atom s) k w = unify (f+1) (.atom s) (.var x) k w := by
  simp [unify, walk, h]

/-- unify yields at most once, under any stack of bindings already active: its consumer is
    called zero times or exactly once, on a world that depends on the terms and the starting world
    only. -/
theorem unify_yields_at_most_once (f : Nat) (t1 t2 : Term) (w : World) : Shape (unify f t1 t2) w :=
  unify_shape f t1 t2 w

/-- At the yield both terms dereference to the same term (they have exactly the same values
    under the bindings in force), and the new bindings only bind variables that were unbound. -/
theorem unify_sound_at_yield (f : Nat) (t1 t2 : Term) (w : World) :
    ShapeP (fun pre => Ext w.b pre.b ∧ Same pre.b t1 t2) (unify f t1 t2) w :=
  unify_sound f t1 t2 w

/-! ### Most general unifier (solutions instead of substitution composition)

A valuation θ gives every variable a term; θ *solves* a heap when every binding `x := u` of the heap
holds under θ (`θ x = u[θ]`). -/

/-- A pair that has a unifier among the solutions of the heap is never refused: `unify` yields
    (the probing consumer gets its `stop` back) or runs out of fuel. -/
theorem unify_is_complete (f : Nat) (t1 t2 : Term) (w : World) (θ : Nat → Term) (hθ : Solves θ w.b)
    (hu : t1.subst θ = t2.subst θ) :
    (unify f t1 t2 probe w).2 = some .stop ∨ (unify f t1 t2 probe w).2 = some .oof :=
  unify_complete f t1 t2 w θ hθ hu

/-- `unify` ends without a yield (and without running out of fuel) only when no solution of the
    heap makes the two terms equal. -/
theorem unify_fails_only_when_no_unifier (f : Nat) (t1 t2 : Term) (w : World)
    (h : (unify f t1 t2 probe w).2 = none) : ∀ θ, Solves θ w.b → t1.subst θ ≠ t2.subst θ :=
  unify_fails_only_without_unifier f t1 t2 w h

/-- At the yield the heap has exactly the solutions of the starting heap that make the two terms
    equal: none is lost (every unifier is an instance of the computed one: most general), none is
    gained (the computed one is a unifier). The consumer is called once, on that heap. -/
theorem unify_yields_a_most_general_unifier (f : Nat) (t1 t2 : Term) (w : World)
    (h : (unify f t1 t2 probe w).2 = some .stop) :
    ∃ (pre : World) (post : World → World), (∀ k : K, unify f t1 t2 k w = ((post (k pre).1), (k pre).2)) ∧
      ∀ θ, Solves θ pre.b ↔ (Solves θ w.b ∧ t1.subst θ = t2.subst θ) :=
  unify_yield_is_mgu f t1 t2 w h

/-- The same for argument lists (`unify_arrays`, clause heads, fact matching). -/
theorem unify_arrays_mgu (f : Nat) (as bs : List Term) (w : World) :
    MShape (fun θ => as.map (Term.subst θ) = bs.map (Term.subst θ)) (unifyList (unify f) as bs) w :=
  unifyList_mshape (unify f) (unify_mshape f) as bs w

/-- Non-vacuity: the empty heap is solved by every valuation, and `f(X,b)` / `f(a,Y)` have the
    unifier X ↦ a, Y ↦ b. -/
example : Solves (fun n => if n = 0 then .atom "a" else .atom "b") Bind.empty ∧
    (Term.fn "f" [.var 0, .atom "b"]).subst (fun n => if n = 0 then .atom "a" else .atom "b") =
    (Term.fn "f" [.atom "a", .var 1]).subst (fun n => if n = 0 then .atom "a" else .atom "b") := by
  refine ⟨fun x u h => by simp [Bind.empty] at h, ?_⟩
  simp [subst_fn, Term.subst]

end Yld.C02
