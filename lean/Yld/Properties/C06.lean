/-
  C06 — disjunction, if-then-else and negation follow standard semantics.

  The statements below are about the reference semantics `solve` (they say that it *is* the
  standard semantics: each is one of the textbook laws) and about the rewriting steps of
  `compile_body` (each rewriting preserves the reference semantics). Tie T2 compares the real
  compiled code with `solve` on generated programs; tie T1 compares the real compiler's output
  with `comp`.
-/
import Yld.Model.Api
import Yld.Proofs.Program
import Yld.Proofs.PyCorrect
import Yld.Proofs.LogicNaf
import Yld.Proofs.LogicIte
namespace Yld.C06

/-- `(A;B)`: A's answers, then B's. -/
theorem disj_then (q : Q) (env : Env) (d : Nat) (a b : Body) (k : K) (w w' : World)
    (hne : ∀ c t, a ≠ .ite c t)
    (h : solve q env d a k w = (w', none)) :
    solve q env d (.disj a b) k w = solve q env d b k w' := by
  cases a <;> simp_all [solve]

/-- … and an abandoned A abandons the disjunction. -/
theorem disj_abandon (q : Q) (env : Env) (d : Nat) (a b : Body) (k : K) (w w' : World) (s : Sig)
    (hne : ∀ c t, a ≠ .ite c t)
    (h : solve q env d a k w = (w', some s)) :
    solve q env d (.disj a b) k w = (w', some s) := by
  cases a <;> simp_all [solve]

/-- `(A,B),C ⇒ A,(B,C)`. -/
theorem conj_assoc (q : Q) (env : Env) (d : Nat) (a b c : Body) :
    solve q env d (.conj (.conj a b) c) = solve q env d (.conj a (.conj b c)) := by
  funext k w; simp [solve]

/-- `true, A ⇒ A` and `fail, A ⇒ fail`. -/
theorem true_conj (q : Q) (env : Env) (d : Nat) (a : Body) : solve q env d (.conj .tru a) = solve q env d a := by
  funext k w; simp [solve]
theorem fail_conj (q : Q) (env : Env) (d : Nat) (a : Body) : solve q env d (.conj .fail a) = solve q env d .fail := by
  funext k w; simp [solve]

/-- `(A;B),C ⇒ A,C ; B,C` (A not an if-then): goals following a disjunction see each answer. -/
theorem disj_conj_distrib (q : Q) (env : Env) (d : Nat) (a b c : Body) (hne : ∀ x t, a ≠ .ite x t) :
    solve q env d (.conj (.disj a b) c) = solve q env d (.disj (.conj a c) (.conj b c)) := by
  funext k w
  cases a <;> simp_all [solve]

/-- `(A->T;B),C ⇒ A->(T,C) ; B,C`. -/
theorem ite_conj_distrib (q : Q) (env : Env) (d : Nat) (a t b c : Body) :
    solve q env d (.conj (.disj (.ite a t) b) c) = solve q env d (.disj (.ite a (.conj t c)) (.conj b c)) := by
  funext k w; simp [solve]

/-- `(C->T)` without else is `(C->T;fail)`: it fails when C fails. -/
theorem ite_without_else (q : Q) (env : Env) (d : Nat) (c t : Body) :
    solve q env d (.ite c t) = solve q env d (.disj (.ite c t) .fail) := by
  funext k w
  simp only [solve]

/-- `\+ A ⇒ (A -> fail ; true)`. -/
theorem neg_as_ite (q : Q) (env : Env) (d : Nat) (a : Body) :
    solve q env d (.neg a) = solve q env d (.disj (.ite a .fail) .tru) := by
  funext k w; simp [solve]

/-- `\+ G` never calls its continuation with a binding made by G in force *as an answer of G*:
    when G has an answer the negation fails at once (the continuation is not called at all). -/
theorem neg_fails_when_goal_succeeds (q : Q) (env : Env) (d : Nat) (k : K) (w : World) :
    solve q env d (.neg .tru) k w = (w, none) := by
  simp [solve]
theorem neg_succeeds_when_goal_fails (q : Q) (env : Env) (d : Nat) (k : K) (w : World) :
    solve q env d (.neg .fail) k w = k w := by
  simp [solve]

/-- if-then-else commits to the first answer of the condition: with condition `true` it is the
    then-branch (and the else branch is not run), with condition `fail` it is the else branch. -/
theorem ite_true (q : Q) (env : Env) (d : Nat) (t e : Body) (k : K) (w w' : World)
    (h : solve q env d t k w = (w', none)) :
    solve q env d (.disj (.ite .tru t) e) k w = (w', none) := by
  simp [solve, h]
theorem ite_fail (q : Q) (env : Env) (d : Nat) (t e : Body) :
    solve q env d (.disj (.ite .fail t) e) = solve q env d e := by
  funext k w; simp [solve]

/-- The generated code of every body — every nesting of `;`, `->`, `->` without else and `\\+`,
    with any continuation — has the reference semantics (Theorem A): the distribution of the
    continuation over `;` and the breakable-block protocol for `->` are correct for all shapes. -/
theorem control_constructs_compiled_correctly (q : Q) (hq : Parametric q) (env : Env) (b : Body) (hb : Src b) (n : Nat)
    (k : K) (hk : External k) (w : World) :
    execList q env (comp b [] n).1 k w = solve q env 0 b k w :=
  compile_body_correct q hq env b hb n k hk w

/-- **The flag protocol.** For every well-formed piece of IR (every nesting of breakable blocks and
    loops, labels distinct along each nesting path), the statements printed for it — `cutIf<n> =
    False` … `cutIf<n> = True; doBreak = True; break` … `if cutIf<n>: doBreak = False` … `if
    doBreak: break` — run under the Python semantics as the IR's structured exits: a `brk l` is a
    `break` that travels with exactly `doBreak` and `cutIf<l>` raised, stops at block `l` and nowhere
    else, and leaves all flags of enclosing blocks down. -/
theorem flag_protocol_implements_structured_exits (q : Q) (u : Term → Term → Gen) (hq : ∀ n a, FrameLocal (q n a))
    (cs : List Code) (Γ : List Nat) (lvl : Nat) (k : K) (σ : PyLoc) (w : World)
    (hwf : WFL Γ cs) (hk : External k) (hσ : Inv Γ σ.2) :
    SimB Γ σ.1 (pyStmts q u (stmtsOfCode lvl cs) k σ w) (execList q σ.1 cs k w) :=
  (py_code_correct q u hq).2 cs Γ lvl k σ w hwf hk hσ

/-- The compiler's output is well-formed in that sense. -/
theorem compiled_code_is_well_formed (b : Body) (hb : BOK [] b) (n : Nat) : WFL [] (comp b [] n).1 :=
  (comp_wf b [] n [] (by simp) hb (by simp)).1

/-- Theorems A and B together: the printed Python of any source body has the reference semantics. -/
theorem control_constructs_in_printed_python (q : Q) (u : Term → Term → Gen) (hq : ∀ n a, FrameLocal (q n a))
    (hp : Parametric q) (b : Body) (hb : BOK [] b) (n : Nat) (k : K) (hk : External k) (σ : PyLoc) (hσ : Inv [] σ.2) (w : World) :
    SimB [] σ.1 (pyStmts q u (stmtsOfCode 0 (comp b [] n).1) k σ w) (solve q σ.1 0 b k w) :=
  py_body_correct q u hq hp b hb n k hk σ hσ w

/-- Non-vacuity: a state that meets the invariant (flags as the function prologue leaves them). -/
example : Inv [] (PyFlags.set [] "doBreak" false) := ⟨by simp, fun l hl => by cases hl⟩

/-! ### Negation as failure against the logical reading

For a goal of a cut-free Horn program with any closed fact store, `HoldsF db preds` (Yld/Proofs/LogicFacts.lean)
is what follows from program and store. `\\+ G` is "not provable", instance by instance. -/

/-- `\\+ G` fails when some instance of `G` follows from program and store: the continuation never
    runs (or the limit cuts the search for `G` off). -/
theorem negation_fails_when_an_instance_is_provable (cfg : Cfg) (preds : List Pred) (h : HornCfg cfg preds)
    (hnocut : ∀ p ∈ preds, ∀ c ∈ p.clauses, c.body.cutFree = true)
    (f : Nat) (env : Env) (d : Nat) (name : String) (sargs : List STerm) (hname : userName name = true)
    (w : World) (hcl : DbClosed w.db) (hsc : w.Scoped)
    (hargs : ∀ t ∈ sargs.map (STerm.eval env), ∀ x ∈ t.vars, x < w.next)
    (θ : Nat → Term) (hθ : Solves θ w.b)
    (hh : HoldsF w.db preds name ((sargs.map (STerm.eval env)).map (Term.subst θ))) :
    ∃ r : R, (r.2 = none ∨ r.2 = some .oof ∨ ∃ e, r.2 = some (.exn e)) ∧
      ∀ k : K, solve (query cfg f) env d (.neg (.call name sargs)) k w = r :=
  naf_fails_when_provable cfg preds h hnocut f env d name sargs hname w hcl hsc hargs θ hθ hh

/-- `\\+ G` succeeds exactly once, with the bindings and the store it started with, when no instance of
    `G` follows (or the search was cut off, or built a cyclic term). -/
theorem negation_succeeds_when_no_instance_is_provable (cfg : Cfg) (preds : List Pred) (h : HornCfg cfg preds)
    (f : Nat) (env : Env) (d : Nat) (name : String) (sargs : List STerm) (hname : userName name = true)
    (w : World) (hcl : DbClosed w.db) (hsc : w.Scoped)
    (hargs : ∀ t ∈ sargs.map (STerm.eval env), ∀ x ∈ t.vars, x < w.next)
    (hno : ∀ θ, Solves θ w.b → ¬ HoldsF w.db preds name ((sargs.map (STerm.eval env)).map (Term.subst θ)))
    (hsolv : Solvable w.b) (hcyc : w.cyc = false) :
    (∃ w', w'.b = w.b ∧ w'.db = w.db ∧ ∀ k : K, solve (query cfg f) env d (.neg (.call name sargs)) k w = k w') ∨
    (∃ r : R, (r.2 = some .oof ∨ (∃ e, r.2 = some (.exn e)) ∨ r.1.cyc = true) ∧
      ∀ k : K, solve (query cfg f) env d (.neg (.call name sargs)) k w = r) :=
  naf_succeeds_when_not_provable cfg preds h f env d name sargs hname w hcl hsc hargs hno hsolv hcyc

/-! ### If-then-else against the logical reading -/

/-- `( C -> T ; E )` with a condition of which some instance follows from program and store never runs
    its else branch: the outcome is the same whatever `E` is. -/
theorem else_branch_is_dead_when_condition_provable (cfg : Cfg) (preds : List Pred) (h : HornCfg cfg preds)
    (hnocut : ∀ p ∈ preds, ∀ c ∈ p.clauses, c.body.cutFree = true)
    (f : Nat) (env : Env) (d : Nat) (name : String) (sargs : List STerm) (hname : userName name = true)
    (t e1 e2 : Body) (w : World) (hcl : DbClosed w.db) (hsc : w.Scoped)
    (hargs : ∀ a ∈ sargs.map (STerm.eval env), ∀ x ∈ a.vars, x < w.next)
    (θ : Nat → Term) (hθ : Solves θ w.b)
    (hh : HoldsF w.db preds name ((sargs.map (STerm.eval env)).map (Term.subst θ))) (k : K) :
    solve (query cfg f) env d (.disj (.ite (.call name sargs) t) e1) k w =
    solve (query cfg f) env d (.disj (.ite (.call name sargs) t) e2) k w :=
  ite_else_not_run_when_condition_provable cfg preds h hnocut f env d name sargs hname t e1 e2 w hcl hsc hargs θ hθ hh k

/-- With a condition of which no instance follows, the construct is its else branch, run with the bindings
    and the store it started with — provided the search for the condition builds no cyclic term
    (`hacyc`; without it the statement is false: `ite_is_else_statement_false`, a kernel-checked
    counterexample with the condition `X = f(X)`, in which the *then* branch runs). -/
theorem if_then_else_is_its_else_branch_when_condition_not_provable (cfg : Cfg) (preds : List Pred) (h : HornCfg cfg preds)
    (f : Nat) (env : Env) (d : Nat) (name : String) (sargs : List STerm) (hname : userName name = true)
    (t e : Body) (w : World) (hcl : DbClosed w.db) (hsc : w.Scoped)
    (hargs : ∀ a ∈ sargs.map (STerm.eval env), ∀ x ∈ a.vars, x < w.next)
    (hno : ∀ θ, Solves θ w.b → ¬ HoldsF w.db preds name ((sargs.map (STerm.eval env)).map (Term.subst θ)))
    (hsolv : Solvable w.b)
    (hacyc : (solve (query cfg f) env d (.neg (.call name sargs)) (fun w' => (w', none)) w).1.cyc = false) :
    (∃ w', w'.b = w.b ∧ w'.db = w.db ∧
      ∀ k : K, solve (query cfg f) env d (.disj (.ite (.call name sargs) t) e) k w = solve (query cfg f) env d e k w') ∨
    (∃ r : R, (r.2 = some .oof ∨ (∃ x, r.2 = some (.exn x)) ∨ r.1.cyc = true) ∧
      ∀ k : K, solve (query cfg f) env d (.disj (.ite (.call name sargs) t) e) k w = r) :=
  ite_is_else_when_condition_not_provable cfg preds h f env d name sargs hname t e w hcl hsc hargs hno hsolv hacyc

/-- … and `( C -> T )` without else then simply fails. -/
theorem if_then_fails_when_no_instance_of_the_condition_is_provable (cfg : Cfg) (preds : List Pred) (h : HornCfg cfg preds)
    (f : Nat) (env : Env) (d : Nat) (name : String) (sargs : List STerm) (hname : userName name = true)
    (t : Body) (w : World) (hcl : DbClosed w.db) (hsc : w.Scoped)
    (hargs : ∀ a ∈ sargs.map (STerm.eval env), ∀ x ∈ a.vars, x < w.next)
    (hno : ∀ θ, Solves θ w.b → ¬ HoldsF w.db preds name ((sargs.map (STerm.eval env)).map (Term.subst θ)))
    (hsolv : Solvable w.b)
    (hacyc : (solve (query cfg f) env d (.neg (.call name sargs)) (fun w' => (w', none)) w).1.cyc = false) :
    ∃ r : R, (r.2 = none ∨ r.2 = some .oof ∨ (∃ x, r.2 = some (.exn x)) ∨ r.1.cyc = true) ∧
      ∀ k : K, solve (query cfg f) env d (.ite (.call name sargs) t) k w = r :=
  if_then_fails_when_condition_not_provable cfg preds h f env d name sargs hname t w hcl hsc hargs hno hsolv hacyc

end Yld.C06
