/-
  C08 — call resolution: facts first, exact arity, load order, late binding.
-/
import Yld.Proofs.Keys
namespace Yld.C08

/-- `(name, N) ↦ name_N` is injective for all strings and naturals: a call `name/N` can only
    reach definitions registered for exactly that name and exactly N arguments. -/
theorem key_injective (n1 n2 : String) (a1 a2 : Nat) :
    predKey n1 a1 = predKey n2 a2 ↔ (n1 = n2 ∧ a1 = a2) :=
  ⟨predKey_injective n1 n2 a1 a2, fun ⟨h1, h2⟩ => by rw [h1, h2]⟩

/-- … and never a variadic registration of any name. -/
theorem fixed_key_not_variadic (n1 n2 : String) (a : Nat) : predKey n1 a ≠ variadicKey n2 :=
  predKey_ne_variadicKey n1 n2 a

/-- Loading a script leaves every definition it does not mention unchanged (overwrite or not). -/
theorem load_frame (e : Engine) (m : Mode) (cs : List SClause) (ow : Bool) (key : String)
    (h : ∀ p ∈ groupClauses cs, predKey p.name p.arity ≠ key) :
    (e.load m cs ow).defs.get key = e.defs.get key := by
  unfold Engine.load
  simp only
  generalize groupClauses cs = preds at h
  suffices hs : ∀ (d : Defs), (preds.foldl (fun d p =>
      d.set (predKey p.name p.arity) (if ow then [Def.prolog p m] else (d.get (predKey p.name p.arity)).getD [] ++ [Def.prolog p m])) d).get key
      = d.get key from hs e.defs
  induction preds with
  | nil => intro d; rfl
  | cons p ps ih =>
    intro d
    simp only [List.foldl_cons]
    rw [ih (fun q hq => h q (List.mem_cons_of_mem _ hq))]
    exact get_set_other _ _ _ _ (fun e => h p List.mem_cons_self e.symm)

/-- A load and a registration never touch the fact store or any variable. -/
theorem load_world (e : Engine) (m : Mode) (cs : List SClause) (ow : Bool) : (e.load m cs ow).w = e.w := rfl
theorem register_world (e : Engine) (n : String) (a : Option Nat) (p : PyPred) : (e.register n a p).w = e.w := rfl

/-- An unknown predicate simply fails: no facts and no definition under either key. -/
theorem unknown_fails (cfg : Cfg) (f : Nat) (name : String) (args : List Term) (k : K) (w : World)
    (hf : w.facts name args.length = [])
    (h1 : cfg.defs.get (predKey name args.length) = none)
    (h2 : cfg.defs.get (variadicKey name) = none) :
    query cfg (f+1) name args k w = (w, none) := by
  simp [query, matchDynamic, hf, matchAll, h1, h2]

/-- Facts first: what the dynamic facts answer is answered before any registered definition is
    consulted, and abandoning the query there never runs the definitions. -/
theorem facts_first_abandon (cfg : Cfg) (f : Nat) (name : String) (args : List Term) (k : K) (w w' : World) (s : Sig)
    (h : matchDynamic f name args k w = (w', some s)) :
    query cfg (f+1) name args k w = (w', some s) := by
  simp [query, h]

end Yld.C08
