/-
  C12 — Prolog text cannot become Python code; loaded code sees only the engine API.
-/
import Yld.Proofs.Keys
import Yld.Model.Emit
import Yld.Proofs.Names
namespace Yld.C12

/-- No API name handed to loaded code (table regenerated from `_set_default_eval_context`) has
    the shape of a lookup key (`…_<digits>` or `…_n`). -/
theorem api_names_not_key_shaped : ∀ a ∈ Generated.apiNames, keyShape a.toList = false := by decide

/-- Hence no query, whatever its name and number of arguments, can look up an API function —
    even without the blacklist. -/
theorem key_never_api (name : String) (n : Nat) :
    predKey name n ∉ Generated.apiNames ∧ variadicKey name ∉ Generated.apiNames := by
  constructor
  · intro h
    have := api_names_not_key_shaped _ h
    rw [keyShape_predKey] at this
    exact absurd this (by decide)
  · intro h
    have := api_names_not_key_shaped _ h
    rw [keyShape_variadicKey] at this
    exact absurd this (by decide)

/-- The function names an emitted expression can call. -/
def PExpr.callees : PExpr → List String
  | .call f args => f :: (args.attach.map fun ⟨a, _⟩ => PExpr.callees a).flatten
  | .list items => (items.attach.map fun ⟨a, _⟩ => PExpr.callees a).flatten
  | _ => []

/-- The global names an emitted expression reads. -/
def PExpr.names : PExpr → List String
  | .name s => [s]
  | .call _ args => (args.attach.map fun ⟨a, _⟩ => PExpr.names a).flatten
  | .list items => (items.attach.map fun ⟨a, _⟩ => PExpr.names a).flatten
  | _ => []

def termCallees : List String := ["atom", "functor", "makelist", "listpair"]

/-! auxiliary unfolding lemmas (not property statements) -/
private theorem callees_call (f : String) (args : List PExpr) :
    PExpr.callees (.call f args) = f :: (args.map PExpr.callees).flatten := by
  simp [PExpr.callees, List.map_attach_eq_pmap, List.pmap_eq_map]
private theorem callees_list (items : List PExpr) :
    PExpr.callees (.list items) = (items.map PExpr.callees).flatten := by
  simp [PExpr.callees, List.map_attach_eq_pmap, List.pmap_eq_map]
private theorem expr_fn (f : String) (args : List STerm) :
    exprOfSTerm (.fn f args) = .call "functor" [.str f, .list (args.map exprOfSTerm)] := by
  simp [exprOfSTerm, List.map_attach_eq_pmap, List.pmap_eq_map]
private theorem expr_numfn (f : String) (args : List STerm) :
    exprOfSTerm (.numfn f args) = .call "functor" [.str f, .list (args.map exprOfSTerm)] := by
  simp [exprOfSTerm, List.map_attach_eq_pmap, List.pmap_eq_map]
private theorem expr_list (i : STerm) (is : List STerm) :
    exprOfSTerm (.list (i :: is)) = .call "makelist" [.list ((i :: is).map exprOfSTerm)] := by
  simp [exprOfSTerm, List.map_attach_eq_pmap, List.pmap_eq_map]

/-- Whatever term the source contains — any atom text, any nesting — the emitted expression
    calls nothing but the four term constructors: source text reaches the code only inside
    string constants, integer constants and variable names. -/
theorem term_expr_callees (t : STerm) : ∀ c ∈ PExpr.callees (exprOfSTerm t), c ∈ termCallees := by
  induction t using STerm.rec (motive_2 := fun ts => ∀ t ∈ ts, ∀ c ∈ PExpr.callees (exprOfSTerm t), c ∈ termCallees) with
  | var n => intro c hc; simp [exprOfSTerm, PExpr.callees] at hc
  | atom s => intro c hc; simp [exprOfSTerm, callees_call, PExpr.callees] at hc; simp [hc, termCallees]
  | num n => intro c hc; simp [exprOfSTerm, PExpr.callees] at hc
  | fn f args ih =>
    intro c hc
    rw [expr_fn, callees_call] at hc
    simp only [List.map_cons, List.map_nil, List.flatten_cons, List.flatten_nil, List.append_nil, callees_list,
      List.mem_cons, List.mem_append, List.mem_flatten, List.mem_map, PExpr.callees, List.not_mem_nil, false_or] at hc
    rcases hc with h | h
    · simp [h, termCallees]
    · obtain ⟨l, ⟨e, ⟨a, ha, rfl⟩, rfl⟩, hcl⟩ := h
      exact ih a ha c hcl
  | numfn f args ih =>
    intro c hc
    rw [expr_numfn, callees_call] at hc
    simp only [List.map_cons, List.map_nil, List.flatten_cons, List.flatten_nil, List.append_nil, callees_list,
      List.mem_cons, List.mem_append, List.mem_flatten, List.mem_map, PExpr.callees, List.not_mem_nil, false_or] at hc
    rcases hc with h | h
    · simp [h, termCallees]
    · obtain ⟨l, ⟨e, ⟨a, ha, rfl⟩, rfl⟩, hcl⟩ := h
      exact ih a ha c hcl
  | list items ih =>
    intro c hc
    cases items with
    | nil => simp [exprOfSTerm, PExpr.callees] at hc
    | cons i is =>
      rw [expr_list, callees_call] at hc
      generalize hL : i :: is = L at hc ih
      simp only [List.map_cons, List.map_nil, List.flatten_cons, List.flatten_nil, List.append_nil, callees_list,
        List.mem_cons, List.mem_flatten, List.mem_map] at hc
      rcases hc with h | h
      · simp [h, termCallees]
      · obtain ⟨l, ⟨e, ⟨a, ha, rfl⟩, rfl⟩, hcl⟩ := h
        exact ih a ha c hcl
  | lpair h t ihh iht =>
    intro c hc
    simp only [exprOfSTerm, callees_call, List.map_cons, List.map_nil, List.flatten_cons, List.flatten_nil,
      List.append_nil, List.mem_cons, List.mem_append] at hc
    rcases hc with h | h | h
    · simp [h, termCallees]
    · exact ihh c h
    · exact iht c h
  | nil => rename_i ht _ _; cases ht
  | cons a as iha ihas =>
    rename_i t ht c hc
    cases ht with
    | head => exact iha c hc
    | tail _ h => exact ihas t h c hc

/-! ### Identifiers -/

/-- The compiler puts into identifier position (function names, parameters, variables, loop
    variables, flags, callees) only identifier-shaped strings, whatever the clause bodies are —
    given identifier-shaped predicate names and variable names. -/
theorem compiler_emits_only_identifiers (preds : List Pred)
    (hname : ∀ p ∈ preds, isAsciiIdent p.name = true)
    (hvars : ∀ p ∈ preds, ∀ c ∈ p.clauses, (∀ v ∈ (c.head.map STerm.vars).flatten, isAsciiIdent v = true) ∧
      (∀ v ∈ c.body.vars, isAsciiIdent v = true)) :
    ∀ n ∈ PStmt.identsL (compileProgram preds), isAsciiIdent n = true :=
  compileProgram_idents preds hname hvars

/-- **Source text reaches the generated code only inside string constants, integer constants and
    identifier-shaped names.** For every text the model front end accepts (ASCII head names), every
    string in identifier position of the generated program is `[A-Za-z_][A-Za-z0-9_]*` — lexer
    (`VARIABLE` tokens), parser and visitor (`V_` prefix, `x<n>`), head-name check, clause compiler
    and code generator together. -/
theorem source_text_only_in_constants_and_identifiers (s : String) (cs : List SClause) (h : frontend s = .ok (cs, false)) :
    ∀ n ∈ PStmt.identsL (compileProgram (groupClauses cs)), isAsciiIdent n = true :=
  emitted_identifiers_are_identifiers s cs h

end Yld.C12
