/-
  C04 — engine instances are isolated; interleaved queries do not interfere.

  In the model an engine is a value (`Engine`: fact store + definition table) and every operation
  is a function of that value, so operations on one engine cannot depend on another by
  construction. What has to be established about the *code* is that it has no state outside the
  instance; that is the translator-fed obligation below.

  Within one instance: while a query is suspended at an answer the other suspended generators move
  (they allocate cells, bind and unbind cells of their own). In the push-style model that is a
  consumer which, after recording the answer, changes the world outside the query's cells; the
  theorems at the end say that the query's answers are those it gives when run alone, for every
  such consumer. Threads (true preemption inside a step) are not expressible in this model and are
  only sampled by the correspondence check (partial, see DESIGN.md).
-/
import Yld.Model.Api
import Yld.Proofs.Interleave
namespace Yld.C04

/-- engine.py has no module-level mutable binding, no mutable class attribute, no mutable default
    argument and no global/nonlocal statement (table regenerated from the source on every run; the
    guarded verification hook's weak set is the one allowed exception). -/
theorem no_shared_state : Generated.sharedStateSites = [] := by decide

/-- The world of two engines: each operation touches only the component it is applied to. -/
structure Two where
  a : Engine
  b : Engine

def Two.onA (t : Two) (f : Engine → Engine) : Two := { t with a := f t.a }
def Two.onB (t : Two) (f : Engine → Engine) : Two := { t with b := f t.b }

/-- For every interleaving of operations on engine A with operations on engine B, engine B ends
    in the state it reaches when its own operations are run alone (and vice versa): operations
    commute across engines and never see each other. -/
theorem isolation (t : Two) (ops : List (Bool × (Engine → Engine))) :
    (ops.foldl (fun t (onA, f) => if onA then t.onA f else t.onB f) t).b
      = (ops.filter (fun p => !p.1)).foldl (fun e (p : Bool × (Engine → Engine)) => p.2 e) t.b := by
  induction ops generalizing t with
  | nil => rfl
  | cons p ps ih =>
    obtain ⟨onA, f⟩ := p
    cases onA
    · simp only [List.foldl_cons, Bool.false_eq_true, if_false, List.filter_cons, Bool.not_false, if_true]
      rw [ih]; rfl
    · simp only [List.foldl_cons, if_true, List.filter_cons, Bool.not_true, Bool.false_eq_true, if_false]
      rw [ih]; rfl

/-- `clear()` resets facts and definitions of this engine only; variables live on unbound. -/
theorem clear_local (e : Engine) : e.clear.w.b = e.w.b ∧ e.clear.w.db = [] ∧ e.clear.defs = builtinDefs :=
  ⟨rfl, rfl, rfl⟩

example : (({ a := {}, b := {} } : Two).onA Engine.clear).b.defs = builtinDefs := rfl

/-! ### Within one engine: simultaneously suspended queries over disjoint variables -/

/-- **A suspended query is not disturbed by what the others do meanwhile.** Two runs of the same
    query: alone (`k1`, world `w1`), and in a world `w2` that is `w1` seen through a renaming `ρ` of
    cells plus foreign cells `F`, with any consumer `k2` that simulates `k1` up to the environment —
    in particular one that, at every answer, allocates cells and rebinds any cell that is not the
    image of a cell of the query. The outcomes are related: same signal, result worlds again related
    (same store, same recorded answers, own cells bound alike). Every fuel, every mix of
    definition modes, every builtin (findall, assert, retract included). -/
theorem suspended_query_is_independent_of_its_environment (cfg : Cfg) (hdefs : DefsRowsClosed cfg.defs) (F : Nat → Prop)
    (f : Nat) (name : String) (args : List Term) (d : Nat) (ρ : Nat → Nat) (w1 w2 : World) (k1 k2 : K)
    (h : IlEnv F ρ d w1 w2) (ha : OwnL w1.next args) (hk : IlK F ρ w1.next d k1 k2) :
    IlRes F ρ w1.next d (query cfg f name args k1 w1) (query cfg f name (args.map (Term.rename ρ)) k2 w2) :=
  query_env cfg hdefs F f name args d ρ w1 w2 k1 k2 h ha hk

/-- **Interleaved queries produce the answers they produce alone.** From any well-formed engine
    state, with the other generators owning `m` cells of arbitrary contents and, after each answer
    of our query, allocating `I.alloc i` more cells and rebinding their cells at will: same answers
    in the same order with the same multiplicity, same ending, same fact store, and our cells
    bound afterwards as before. -/
theorem interleaved_queries_do_not_interfere (e : Engine) (hwf : e.WF) (mode : Mode) (f : Nat) (name : String) (args : List Term)
    (hargs : ArgsScoped e args) (sched : Sched) (m : Nat) (b0 : Nat → Option Term) (I : Interference) :
    let cfg : Cfg := { blacklist := e.blacklist, defs := e.defs, mode := mode }
    let lo := e.w.next
    let w1 : World := { e.w with acc := [] :: e.w.acc, cyc := false }
    let w2 : World := { w1 with next := lo + m, b := fun x => if lo ≤ x ∧ x < lo + m then b0 x else e.w.b x }
    let r1 := query cfg f name args (topConsumer f args sched) w1
    let r2 := query cfg f name args (interleavedConsumer f args sched lo m I) w2
    r2.2 = r1.2 ∧ r2.1.acc = r1.1.acc ∧ r2.1.db = r1.1.db ∧ r2.1.stamp = r1.1.stamp ∧ r2.1.cyc = r1.1.cyc ∧
      (∀ x, x < lo → r2.1.b x = e.w.b x) :=
  interleaved_query_answers e hwf mode f name args hargs sched m b0 I

/-- The hypotheses are satisfiable and the interference is not trivial: the default engine with a
    program that uses findall, three foreign cells bound to variables, and others that allocate
    `i+1` cells after the `i`-th answer and bind every cell of theirs to a structure. -/
example :=
  interleaved_queries_do_not_interfere ilDemoEngine ilDemoEngine_wf .compiled 50 "q" [.var 0, .var 1] ilDemo_args .all 3
    (fun x => some (.var (x + 7))) ilDemoI

end Yld.C04
