/-
  C04 — engine instances are isolated; interleaved queries do not interfere.

  In the model an engine is a value (`Engine`: fact store + definition table) and every operation
  is a function of that value, so operations on one engine cannot depend on another by
  construction. What has to be established about the *code* is that it has no state outside the
  instance; that is the translator-fed obligation below. Nested interleavings are covered by the
  push-style semantics (a query of one engine inside a yield of another); zig-zag stepping of
  simultaneously suspended generators and threads are not expressible in this model and are only
  sampled by the correspondence check (partial, see DESIGN.md).
-/
import Yld.Model.Api
namespace Yld.C04

/-- engine.py has no module-level mutable binding, no mutable class attribute, no mutable default
    argument and no global/nonlocal statement (table regenerated from the source on every run; the
    guarded verification hook's weak set is the one allowed exception). -/
theorem no_shared_state : Generated.sharedStateSites = [] := by decide

/-- The world of two engines: each operation touches only the component it is applied to. -/
structure Two where
  a : Engine
  b : Engine

def Two.onA (t : Two) (f : Engine → Engine) : Two := { t with a := f t.a }
def Two.onB (t : Two) (f : Engine → Engine) : Two := { t with b := f t.b }

/-- For every interleaving of operations on engine A with operations on engine B, engine B ends
    in the state it reaches when its own operations are run alone (and vice versa): operations
    commute across engines and never see each other. -/
theorem isolation (t : Two) (ops : List (Bool × (Engine → Engine))) :
    (ops.foldl (fun t (onA, f) => if onA then t.onA f else t.onB f) t).b
      = (ops.filter (fun p => !p.1)).foldl (fun e (p : Bool × (Engine → Engine)) => p.2 e) t.b := by
  induction ops generalizing t with
  | nil => rfl
  | cons p ps ih =>
    obtain ⟨onA, f⟩ := p
    cases onA
    · simp only [List.foldl_cons, Bool.false_eq_true, if_false, List.filter_cons, Bool.not_false, if_true]
      rw [ih]; rfl
    · simp only [List.foldl_cons, if_true, List.filter_cons, Bool.not_true, Bool.false_eq_true, if_false]
      rw [ih]; rfl

/-- `clear()` resets facts and definitions of this engine only; variables live on unbound. -/
theorem clear_local (e : Engine) : e.clear.w.b = e.w.b ∧ e.clear.w.db = [] ∧ e.clear.defs = builtinDefs :=
  ⟨rfl, rfl, rfl⟩

example : (({ a := {}, b := {} } : Two).onA Engine.clear).b.defs = builtinDefs := rfl

end Yld.C04
