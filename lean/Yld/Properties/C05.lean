/-
  C05 — cut commits the clause and nothing else.
-/
import Yld.Model.Api
import Yld.Proofs.Program
import Yld.Proofs.PyCorrect
namespace Yld.C05

/-- The caller's alternatives are untouched: whatever happens inside a predicate, the signal
    that leaves its frame is never this frame's `return`, `break` or commit — a cut is absorbed at
    the boundary of the function that contains it. -/
theorem cut_is_local (r : R) :
    (leaveFrame r).2 ≠ some .ret ∧ (∀ l, (leaveFrame r).2 ≠ some (.brk l)) ∨ ∃ s, r.2 = some (.up s) := by
  obtain ⟨w, s⟩ := r
  cases s with
  | none => left; simp [leaveFrame]
  | some s =>
    cases s with
    | up s => right; exact ⟨s, rfl⟩
    | ret => left; simp [leaveFrame]
    | brk l => left; simp [leaveFrame]
    | commit d => left; simp [leaveFrame]
    | stop => left; simp [leaveFrame]
    | exn e => left; simp [leaveFrame]
    | oof => left; simp [leaveFrame]

/-- A cut that has been reached skips the later clauses of the same definition… -/
theorem cut_prunes_later_clauses {α : Type} (run : α → Gen) (c : α) (cs : List α) (k : K) (w w' : World)
    (h : run c k w = (w', some .ret)) : runClauses run (c :: cs) k w = (w', some .ret) := by
  simp [runClauses, h]

/-- … while a clause that finishes normally is followed by the next one. -/
theorem no_cut_next_clause {α : Type} (run : α → Gen) (c : α) (cs : List α) (k : K) (w w' : World)
    (h : run c k w = (w', none)) : runClauses run (c :: cs) k w = runClauses run cs k w' := by
  simp [runClauses, h]

/-- `A, !, B` in the reference semantics: B runs under each… no: under the first answer of A only.
    After the continuation of the cut is exhausted the clause is left (`ret`), so A is never
    resumed. -/
theorem cut_after_continuation (q : Q) (env : Env) (d : Nat) (b : Body) (k : K) (w w' : World)
    (h : solve q env d b k w = (w', none)) :
    solve q env d (.conj .cut b) k w = (w', some .ret) := by
  simp [solve, h]

/-- Goals to the right of the cut still backtrack normally: the cut adds nothing while its
    continuation is being abandoned for another reason. -/
theorem cut_transparent_to_abandon (q : Q) (env : Env) (d : Nat) (b : Body) (k : K) (w w' : World) (s : Sig)
    (h : solve q env d b k w = (w', some s)) :
    solve q env d (.conj .cut b) k w = (w', some s) := by
  simp [solve, h]

/-- The compiled form of a final cut and of a cut followed by goals. -/
theorem comp_cut_last (n : Nat) : comp .cut [] n = ([.yieldT, .ret], n) := by
  simp [comp]
theorem comp_cut_then (b : Body) (ks : List Body) (n : Nat) :
    comp .cut (b :: ks) n = ((comp b ks n).1 ++ [.ret], (comp b ks n).2) := by
  simp [comp]

/-- The laws above are about the reference semantics; they hold of the generated code because
    the generated code of every body has the reference semantics (Theorem A) — cuts as first,
    middle or last goal, inside `;` branches and then/else branches included. -/
theorem cut_laws_transfer_to_compiled_code (q : Q) (hq : Parametric q) (env : Env) (b : Body) (hb : Src b) (n : Nat)
    (k : K) (hk : External k) (w : World) :
    execList q env (comp b [] n).1 k w = solve q env 0 b k w :=
  compile_body_correct q hq env b hb n k hk w

/-- In particular `A, !, B` as compiled: the loop for A is left by `return` after B's code. -/
example (q : Q) (env : Env) (n : Nat) :
    (comp (.conj (.call "a" []) (.conj .cut (.call "b" []))) [] n).1
      = [.foreach "a" [] [.foreach "b" [] [.yieldF], .ret]] := by
  simp [comp]

/-- … and of the printed Python: `!` is a `return` statement inside the loops of the goals before
    it; under the Python semantics the text printed for any body (cuts anywhere a cut may stand)
    calls the consumer exactly as the reference semantics does, and a `return` leaves the whole
    function (`Ctl.ret` ↔ the reference's `ret`). -/
theorem cut_laws_transfer_to_printed_python (q : Q) (u : Term → Term → Gen) (hq : ∀ n a, FrameLocal (q n a))
    (hp : Parametric q) (b : Body) (hb : BOK [] b) (n : Nat) (k : K) (hk : External k) (σ : PyLoc) (hσ : Inv [] σ.2) (w : World) :
    SimB [] σ.1 (pyStmts q u (stmtsOfCode 0 (comp b [] n).1) k σ w) (solve q σ.1 0 b k w) :=
  py_body_correct q u hq hp b hb n k hk σ hσ w

end Yld.C05
