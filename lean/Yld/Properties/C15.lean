/-
  C15 — answers are fully dereferenced and stay valid after backtracking.
-/
import Yld.Model.Api
namespace Yld.C15

private theorem mapM_some_mem {α β : Type} (g : α → Option β) :
    ∀ (as : List α) (bs : List β), as.mapM g = some bs → ∀ b ∈ bs, ∃ a ∈ as, g a = some b := by
  intro as
  induction as with
  | nil => intro bs h b hb; simp at h; subst h; cases hb
  | cons a as ih =>
    intro bs h b hb
    simp only [List.mapM_cons, Option.bind_eq_bind] at h
    cases ha : g a with
    | none => simp [ha] at h
    | some b0 =>
      cases hr : as.mapM g with
      | none => simp [ha, hr] at h
      | some bs0 =>
        simp [ha, hr] at h
        subst h
        cases hb with
        | head => exact ⟨a, List.mem_cons_self, ha⟩
        | tail _ hb' =>
          obtain ⟨a', ha', hg⟩ := ih bs0 hr b hb'
          exact ⟨a', List.mem_cons_of_mem _ ha', hg⟩

private theorem vars_fn (g : String) (args : List Term) : (Term.fn g args).vars = (args.map Term.vars).flatten := by
  simp [Term.vars, List.map_attach_eq_pmap, List.pmap_eq_map]

/-- The value `get_value` returns contains no bound variable, at any depth, whatever the order
    in which the bindings were made (the value is a function of the heap alone). -/
theorem get_value_fully_dereferenced (b : Bind) (f : Nat) (t t' : Term) (h : resolve b f t = some t') :
    ∀ x ∈ t'.vars, b x = none := by
  induction f generalizing t t' with
  | zero => simp [resolve] at h
  | succ f ih =>
    cases t with
    | var n =>
      simp only [resolve] at h
      cases hb : b n with
      | none =>
        simp [hb] at h; subst h
        intro x hx; simp [Term.vars] at hx; subst hx; exact hb
      | some u => simp [hb] at h; exact ih u t' h
    | atom s => simp [resolve] at h; subst h; intro x hx; simp [Term.vars] at hx
    | int i => simp [resolve] at h; subst h; intro x hx; simp [Term.vars] at hx
    | fn g args =>
      simp only [resolve] at h
      cases hm : args.mapM (resolve b f) with
      | none => simp [hm] at h
      | some ts =>
        simp [hm] at h; subst h
        intro x hx
        rw [vars_fn] at hx
        simp only [List.mem_flatten, List.mem_map] at hx
        obtain ⟨l, ⟨t0, ht0, rfl⟩, hxl⟩ := hx
        obtain ⟨a, _, hra⟩ := mapM_some_mem _ args ts hm t0 ht0
        exact ih a t0 hra x hxl

/-- If the answer is ground, the value contains no variable at all … -/
theorem ground_value_has_no_variable (t : Term) (h : t.vars = []) : ∀ x, x ∉ t.vars := by
  intro x hx; rw [h] at hx; cases hx

private theorem le_sum_of_mem (l : List Nat) (a : Nat) (h : a ∈ l) : a ≤ l.sum := by
  induction l with
  | nil => cases h
  | cons b bs ih =>
    simp only [List.sum_cons]
    cases h with
    | head => omega
    | tail _ h' => have := ih h'; omega

private theorem mapM_id {α : Type} (g : α → Option α) (as : List α) (h : ∀ a ∈ as, g a = some a) : as.mapM g = some as := by
  induction as with
  | nil => rfl
  | cons a as ih =>
    simp only [List.mapM_cons, Option.bind_eq_bind]
    rw [h a List.mem_cons_self, ih (fun a' ha' => h a' (List.mem_cons_of_mem _ ha'))]
    rfl

/-- … so it denotes the same term under every later state of the bindings: a variable-free value
    resolves to itself on any heap — after backtracking, after the query has finished. -/
theorem ground_value_stable (b' : Bind) (t : Term) (h : t.vars = []) :
    resolve b' (t.size + 1) t = some t := by
  suffices hs : ∀ (f : Nat) (t : Term), t.vars = [] → t.size ≤ f → resolve b' (f + 1) t = some t from
    hs _ t h (Nat.le_refl _)
  intro f
  induction f with
  | zero =>
    intro t ht hs
    cases t with
    | var n => simp [Term.vars] at ht
    | atom s => simp [resolve]
    | int i => simp [resolve]
    | fn g args => simp [Term.size] at hs
  | succ f ih =>
    intro t ht hs
    cases t with
    | var n => simp [Term.vars] at ht
    | atom s => simp [resolve]
    | int i => simp [resolve]
    | fn g args =>
      simp only [resolve]
      rw [vars_fn] at ht
      have hsz : (Term.fn g args).size = 1 + (args.map Term.size).sum := by
        simp [Term.size, List.map_attach_eq_pmap, List.pmap_eq_map]
      rw [hsz] at hs
      have : args.mapM (resolve b' (f + 1)) = some args := by
        apply mapM_id
        intro a ha
        apply ih
        · have := List.flatten_eq_nil_iff.mp ht (a.vars) (List.mem_map.mpr ⟨a, ha, rfl⟩)
          exact this
        · have : a.size ≤ (args.map Term.size).sum := le_sum_of_mem _ _ (List.mem_map.mpr ⟨a, ha, rfl⟩)
          omega
      simp [this]

end Yld.C15
