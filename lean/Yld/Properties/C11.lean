/-
  C11 — whatever the compiler accepts loads and defines exactly the program's predicates.

  "A well-formed Python AST renders to text CPython accepts" is the trusted step (exercised by
  compile() + load on every generated case). The theorems say the emitted AST is well formed in
  the ways the pinned tree got wrong: no empty block, one function per name/arity, limits checked.
-/
import Yld.Model.Emit
namespace Yld.C11

/-- Every `for` loop the generator emits for a goal has a non-empty body (`pass` when the rest of
    the body can never succeed) and is followed by the `if doBreak: break` check. -/
theorem foreach_body_nonempty (lvl : Nat) (name : String) (args : List STerm) (body : List Code) :
    ∃ v it b, stmtOfCode lvl (.foreach name args body) = [.forIn v it b] ++ breakCode ∧ b ≠ [] := by
  cases body with
  | nil => exact ⟨"l" ++ toString (lvl + 1), .call "query" [.str name, .list (args.map exprOfSTerm)], [.passS],
      by simp [stmtOfCode], by simp⟩
  | cons c cs =>
    refine ⟨"l" ++ toString (lvl + 1), .call "query" [.str name, .list (args.map exprOfSTerm)],
      stmtsOfCode (lvl + 1) (c :: cs), by simp [stmtOfCode], ?_⟩
    simp only [stmtsOfCode]
    cases c <;> simp [stmtOfCode]

/-- A predicate whose clauses generate no code at all (`p :- fail.`) still gets a loadable
    function: the wrapper loop contains `pass`, and the trailing `if False: yield False` makes it a
    generator function. -/
theorem def_well_formed (p : Pred) (ccs : List ClauseCode) :
    ∃ b, defOfPred p ccs = .defS (predKey p.name p.arity) ((List.range p.arity).map fun i => "arg" ++ toString (i + 1))
      [.assign "doBreak" .fls, .forIn "_" (.list [.int 1]) b, .ifS .fls [.yieldS .fls]] ∧ b ≠ [] := by
  unfold defOfPred
  simp only
  cases h : (ccs.map stmtsOfClause).flatten with
  | nil => exact ⟨[.passS], rfl, by simp⟩
  | cons s ss => exact ⟨s :: ss, rfl, by simp⟩

/-- Exactly one function per predicate of the program, named `name_arity`, in program order. -/
theorem defined_names (preds : List Pred) :
    (compileProgram preds).map (fun s => match s with | .defS n _ _ => n | _ => "") =
      preds.map fun p => predKey p.name p.arity := by
  unfold compileProgram
  suffices h : ∀ (acc : List PStmt) (n : Nat),
      ((preds.foldl (fun (x : List PStmt × Nat) p => (x.1 ++ [defOfPred p (compilePred p x.2).1], (compilePred p x.2).2)) (acc, n)).1).map
        (fun s => match s with | .defS n _ _ => n | _ => "")
      = acc.map (fun s => match s with | .defS n _ _ => n | _ => "") ++ preds.map fun p => predKey p.name p.arity by
    simpa using h [] 0
  induction preds with
  | nil => intro acc n; simp
  | cons p ps ih =>
    intro acc n
    simp only [List.foldl_cons]
    rw [ih]
    simp [defOfPred]

/-- Numerals are emitted as integer constants, never as source text: `01` cannot reach Python. -/
theorem numeral_is_constant (n : Nat) : exprOfSTerm (.num n) = .int n := by simp [exprOfSTerm]

/-- The size guard: a program the model compiler accepts stays within CPython's limits of 20
    statically nested blocks and 200 nested brackets. -/
theorem accepted_within_limits (prog : List PStmt) (h : tooLarge prog = false) :
    ∀ s ∈ prog, stmtDepth s ≤ 20 ∧ stmtBrackets s ≤ 200 := by
  intro s hs
  unfold tooLarge at h
  rw [List.any_eq_false] at h
  have := h s hs
  simp only [Bool.or_eq_true, decide_eq_true_eq, not_or, Nat.not_lt] at this
  exact this

end Yld.C11
