/-
  C14 — changing a predicate while it is being enumerated (logical update view).

  In the model a running enumeration holds the clause list it started with as a *value*; the
  store is only ever replaced, never changed in place (engine.py after the repair: assert_fact,
  retract and retractall build new lists). The theorems make that explicit: what an enumeration
  visits is a function of the facts at its start, whatever the consumer does to the store between
  two steps.
-/
import Yld.Proofs.Store
namespace Yld.C14

/-- A goal that enumerates a predicate works on the facts as they were when the goal started. -/
theorem enumeration_uses_snapshot (f : Nat) (name : String) (args : List Term) (k : K) (w : World) :
    matchDynamic f name args k w = matchAll f args (w.facts name args.length) k w := rfl

/-- Additions and removals made while the enumeration is suspended do not change which facts it
    visits: after the consumer has changed the store in any way, the rest of the enumeration still
    is the rest of the snapshot. -/
theorem suspended_enumeration_unaffected (f : Nat) (args : List Term) (c : Fact) (cs : List Fact) (k : K) (w w' : World)
    (h : matchFact f c args k w = (w', none)) :
    matchAll f args (c :: cs) k w = matchAll f args cs k w' := by
  simp [matchAll, h]

/-- A suspended retract skips facts that have meanwhile been removed (it never removes or
    returns a fact twice) … -/
theorem retract_skips_removed (f : Nat) (name : String) (args : List Term) (c : Fact) (cs : List Fact) (k : K) (w : World)
    (h : (w.facts name args.length).any (·.id == c.id) = false) :
    retractLoop f name args (c :: cs) k w = retractLoop f name args cs k w := by
  simp [retractLoop, h]

/-- … and removes the fact it matched from the *current* store, so no modification made
    meanwhile is lost: the consumer sees the current facts minus exactly that fact. -/
theorem retract_removes_from_current_store (f : Nat) (name : String) (args : List Term) (c : Fact) (cs : List Fact) (k : K) (w : World)
    (h : (w.facts name args.length).any (·.id == c.id) = true) :
    retractLoop f name args (c :: cs) k w =
      match matchFact f c args (fun w' =>
              k (w'.setFacts name args.length ((w'.facts name args.length).filter (·.id != c.id)))) w with
      | (w', none) => retractLoop f name args cs k w'
      | r => r := by
  simp only [retractLoop, h, if_true]
  generalize matchFact f c args _ w = r
  obtain ⟨w', s⟩ := r
  cases s <;> rfl

/-- The update loop terminates: a retract produces at most one answer per fact of its snapshot —
    its recursion is on the snapshot, which assertions made meanwhile cannot extend. (In Lean the
    definition is accepted by structural recursion on the snapshot; this is that fact, stated.) -/
theorem retract_bounded_by_snapshot (f : Nat) (name : String) (args : List Term) (k : K) (w : World) :
    retractLoop f name args [] k w = (w, none) := by
  simp [retractLoop]

end Yld.C14
