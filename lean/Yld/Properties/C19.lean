/-
  C19 — the yldpc command line equals the library; debug options only add comments.

  Debug messages are modelled as *arbitrary* strings (they contain the text of quoted atoms and
  file names, i.e. anything). The theorems say that whatever the message, what `comment_lines`
  writes into the output stream consists of comment lines only, so the code that follows starts on
  a fresh line and removing comment lines gives back exactly the code.
-/
import Yld.Proofs.Lines
namespace Yld.C19

def isComment (l : List Char) : Bool := l.head? == some '#'

/-- Every line `comment_lines` produces — for every message, with embedded \n, \r\n or \r — is a
    comment line, and the output ends with a line break. -/
theorem comment_lines_are_comments (msg : List Char) :
    ∃ ls, pyLines (commentLines msg) = ls ++ [[]] ∧ ∀ l ∈ ls, isComment l = true := by
  refine ⟨(splitLines msg).map (fun l => '#' :: ' ' :: l), ?_, ?_⟩
  · have := pyLines_commentLines_append msg []
    simpa [pyLines, splitLines, splitAux] using this
  · intro l hl
    simp only [List.mem_map] at hl
    obtain ⟨l', _, rfl⟩ := hl
    rfl

/-- Debug output only adds comment lines: for every message and every following text, the
    non-comment lines of `comment_lines(msg) ++ text` are exactly the non-comment lines of `text`. -/
theorem debug_only_adds_comments (msg text : List Char) :
    (pyLines (commentLines msg ++ text)).filter (fun l => !isComment l)
      = (pyLines text).filter (fun l => !isComment l) := by
  rw [pyLines_commentLines_append, List.filter_append]
  have : ((splitLines msg).map (fun l => '#' :: ' ' :: l)).filter (fun l => !isComment l) = [] := by
    rw [List.filter_eq_nil_iff]
    intro l hl
    simp only [List.mem_map] at hl
    obtain ⟨l', _, rfl⟩ := hl
    simp [isComment]
  rw [this, List.nil_append]

/-- … and the same for any number of debug messages written before a piece of code. -/
theorem debug_messages_only_add_comments (msgs : List (List Char)) (text : List Char) :
    (pyLines ((msgs.map commentLines).flatten ++ text)).filter (fun l => !isComment l)
      = (pyLines text).filter (fun l => !isComment l) := by
  induction msgs with
  | nil => simp
  | cons m ms ih =>
    simp only [List.map_cons, List.flatten_cons, List.append_assoc]
    rw [debug_only_adds_comments, ih]

/-- `-d` is exactly the three specific debug flags together. -/
theorem debug_flag_is_all (f : Flags) (h : f.debug = true) :
    f.effParser = true ∧ f.effGenerator = true ∧ f.effFilename = true := by
  simp [Flags.effParser, Flags.effGenerator, Flags.effFilename, h]

/-- The premises are satisfiable with a message that tries to break out of the comment. -/
example : pyLines (commentLines "x\rPWNED = 1\r\n#".toList) =
    ["# x".toList, "# PWNED = 1".toList, "# #".toList, []] := by decide

end Yld.C19
