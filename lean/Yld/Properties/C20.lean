/-
  C20 — Python predicates are interchangeable with compiled ones.
-/
import Yld.Model.Api
import Yld.Proofs.PyFacts
namespace Yld.C20

/-- Whether generated code (or a Python predicate) yields True or False is irrelevant to every
    consumer in the model: the two statements have the same semantics. -/
theorem yield_value_irrelevant (q : Q) (env : Env) : exec q env .yieldT = exec q env .yieldF := by
  funext k w; simp [exec]

/-- A registered Python generator that unifies its arguments with each of its rows and yields
    once per solution behaves exactly like the dynamic facts with the same rows: same answers in
    the same order, same bindings, same reaction to an abandoning consumer. -/
theorem py_pred_is_facts (f : Nat) (rows : List Fact) (args : List Term) (i : Nat) :
    runPy f rows none i args = matchAll f args rows := by
  funext k w
  induction rows generalizing w i with
  | nil =>
    have : ((none : Option Nat) == some i) = false := rfl
    simp [runPy, matchAll, this]
  | cons r rs ih =>
    simp only [runPy, matchAll]
    have : ((none : Option Nat) == some i) = false := rfl
    simp only [this, Bool.false_eq_true, if_false]
    cases h : matchFact f r args k w with
    | mk w' s =>
      cases s with
      | none => simp [ih]
      | some s => rfl

/-- An exception raised inside the function reaches the consumer of the query unchanged. -/
theorem py_exception_propagates (f : Nat) (row : Fact) (rows : List Fact) (args : List Term) (k : K) (w : World) :
    runPy f (row :: rows) (some 0) 0 args k w = (w, some (.exn "UserError")) := by
  simp [runPy]

/-- `query` passes whatever the definition's generator does straight through (`yield from`):
    the result of the chain for a single definition is the result of that definition. -/
theorem chain_single (cfg : Cfg) (f : Nat) (d : Def) (args : List Term) (k : K) (w : World) :
    runChain cfg (f+2) [d] args k w = runDef cfg (f+1) d args k w := by
  simp only [runChain]
  cases h : runDef cfg (f+1) d args k w with
  | mk w' s => cases s <;> simp [runChain]

/-- **Interchangeable.** A Python predicate that unifies its arguments with each of its rows in turn and the
    compiled predicate whose clauses are those rows written as facts are the same definition: the same
    generator for every consumer and every world (same yields, same cells, same outcome), for rows in the
    canonical form in which facts are stored and calls of the rows' arity. -/
theorem python_predicate_is_the_predicate_of_its_rows (cfg : Cfg) (f : Nat) (name : String) (rows : List Fact) (args : List Term)
    (hok : ∀ r ∈ rows, RowOK r) (hlen : ∀ r ∈ rows, r.args.length = args.length) (k : K) (w : World) :
    runDef cfg (f+1) (.py { rows := rows, raiseAt := none }) args k w =
    runDef cfg (f+1) (.prolog { name := name, arity := args.length, clauses := rows.map factClause } .reference) args k w :=
  py_pred_is_the_fact_predicate cfg f name rows args hok hlen k w

/-- Not vacuous: two rows in canonical form, `p(a, X, X)` and `p(b, 3, f(Y))`. -/
example : ∀ r ∈ PF.exRows, RowOK r := PF.exRows_ok

end Yld.C20
