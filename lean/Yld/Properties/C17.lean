/-
  C17 — evaluate_bounded returns a prefix of the answers and restores the interpreter.

  The model counts depth in Prolog calls (fuel); CPython counts frames, so the model predicts
  *that* the result is a prefix, not *where* it is cut (partial; the correspondence check compares
  the real result with the reference answer sequence).
-/
import Yld.Model.Api
import Yld.Proofs.Restore2
import Yld.Proofs.FuelMono
import Yld.Proofs.Prefix
namespace Yld.C17

/-- evaluate_bounded never lets a recursion-depth error escape. -/
theorem no_recursion_error_escapes (e : Engine) (m : Mode) (limit : Nat) (name : String) (args : List Term) (r : Option Nat) :
    (e.evaluateBounded m limit name args r).2.ending ≠ some .oof := by
  unfold Engine.evaluateBounded
  simp only
  generalize (e.query m limit name args _).2.ending = x
  cases x with
  | none => simp
  | some s => cases s <;> simp

/-- What it returns are answers the query produced, in order: a prefix of the collected
    sequence (nothing is returned when the projection's exception escapes). -/
theorem result_is_prefix (e : Engine) (m : Mode) (limit : Nat) (name : String) (args : List Term) (r : Option Nat) :
    (e.evaluateBounded m limit name args r).2.answers <+:
      (e.query m limit name args (match r with | some k => .raise k | none => .all)).2.answers := by
  unfold Engine.evaluateBounded
  simp only
  split
  · exact List.nil_prefix
  · exact List.prefix_refl _

/-- The fact store and definitions of the engine are those the query left; evaluate_bounded adds
    nothing of its own (the interpreter-wide recursion limit is restored by `finally` in the code;
    that part is the runtime's and is checked by the correspondence). -/
theorem engine_state_is_querys (e : Engine) (m : Mode) (limit : Nat) (name : String) (args : List Term) (r : Option Nat) :
    (e.evaluateBounded m limit name args r).1 =
      (e.query m limit name args (match r with | some k => .raise k | none => .all)).1 := rfl

/-- In every case — normal completion, recursion limit reached anywhere in the search, projection
    raising at the k-th answer — all variables are bound afterwards exactly as before the call. -/
theorem variables_unbound_afterwards (e : Engine) (m : Mode) (limit : Nat) (name : String) (args : List Term) (r : Option Nat) :
    (e.evaluateBounded m limit name args r).1.w.b = e.w.b :=
  evaluate_bounded_restores e m limit name args r

/-! ### The limit only cuts: it never changes what is found -/

/-- The engine is monotone in the limit: with a larger limit (and a consumer that does at least
    as much) a run either is the same run, or the run with the smaller limit was cut off. -/
theorem engine_monotone_in_the_limit (cfg : Cfg) (f : Nat) (name : String) (args : List Term) :
    GenBelow (query cfg f name args) (query cfg (f + 1) name args) :=
  query_fuel_mono cfg f name args

/-- A run that is not cut off is the same run at every larger limit: same answers, order,
    bindings, store, ending. -/
theorem uncut_run_is_limit_independent (cfg : Cfg) (f f' : Nat) (hle : f ≤ f') (name : String) (args : List Term)
    (k : K) (w : World) (h : (query cfg f name args k w).2 ≠ some .oof) :
    query cfg f' name args k w = query cfg f name args k w :=
  query_fuel_stable_le cfg f f' hle name args k w h

/-- At the API, with the recording consumer of `evaluate_bounded` / `YP.query` (all answers, stop
    after k, raise at k): a finite search that completes within the limit returns, with any larger
    limit, exactly what it returned. -/
theorem complete_search_returns_every_answer (e : Engine) (mode : Mode) (f : Nat) (name : String) (args : List Term)
    (sched : Sched) (h : (e.query mode f name args sched).2.ending ≠ some .oof) :
    e.query mode (f + 1) name args sched = e.query mode f name args sched :=
  engine_query_fuel_stable e mode f name args sched h

/-- **What `evaluate_bounded` returns is a prefix of the answer sequence.** The answers recorded
    with limit `f` are a prefix of the answers recorded with any larger limit `f'` — also when the
    smaller limit cuts the search off in the middle, anywhere (inside unification, a nested call,
    findall, a retract): the limit only cuts, it never reorders, drops or invents an answer. -/
theorem bounded_result_is_a_prefix_of_the_answers (e : Engine) (mode : Mode) (f f' : Nat) (hle : f ≤ f')
    (name : String) (args : List Term) :
    (e.query mode f name args .all).2.answers <+: (e.query mode f' name args .all).2.answers :=
  bounded_answers_prefix_le e mode f f' hle name args

end Yld.C17
