/-
  C17 — evaluate_bounded returns a prefix of the answers and restores the interpreter.

  The model counts depth in Prolog calls (fuel); CPython counts frames, so the model predicts
  *that* the result is a prefix, not *where* it is cut (partial; the correspondence check compares
  the real result with the reference answer sequence).
-/
import Yld.Model.Api
import Yld.Proofs.Restore2
namespace Yld.C17

/-- evaluate_bounded never lets a recursion-depth error escape. -/
theorem no_recursion_error_escapes (e : Engine) (m : Mode) (limit : Nat) (name : String) (args : List Term) (r : Option Nat) :
    (e.evaluateBounded m limit name args r).2.ending ≠ some .oof := by
  unfold Engine.evaluateBounded
  simp only
  generalize (e.query m limit name args _).2.ending = x
  cases x with
  | none => simp
  | some s => cases s <;> simp

/-- What it returns are answers the query produced, in order: a prefix of the collected
    sequence (nothing is returned when the projection's exception escapes). -/
theorem result_is_prefix (e : Engine) (m : Mode) (limit : Nat) (name : String) (args : List Term) (r : Option Nat) :
    (e.evaluateBounded m limit name args r).2.answers <+:
      (e.query m limit name args (match r with | some k => .raise k | none => .all)).2.answers := by
  unfold Engine.evaluateBounded
  simp only
  split
  · exact List.nil_prefix
  · exact List.prefix_refl _

/-- The fact store and definitions of the engine are those the query left; evaluate_bounded adds
    nothing of its own (the interpreter-wide recursion limit is restored by `finally` in the code;
    that part is the runtime's and is checked by the correspondence). -/
theorem engine_state_is_querys (e : Engine) (m : Mode) (limit : Nat) (name : String) (args : List Term) (r : Option Nat) :
    (e.evaluateBounded m limit name args r).1 =
      (e.query m limit name args (match r with | some k => .raise k | none => .all)).1 := rfl

/-- In every case — normal completion, recursion limit reached anywhere in the search, projection
    raising at the k-th answer — all variables are bound afterwards exactly as before the call. -/
theorem variables_unbound_afterwards (e : Engine) (m : Mode) (limit : Nat) (name : String) (args : List Term) (r : Option Nat) :
    (e.evaluateBounded m limit name args r).1.w.b = e.w.b :=
  evaluate_bounded_restores e m limit name args r

end Yld.C17
