/-
  C10 — text outside the grammar is rejected, never partially compiled.

  The executable recogniser of the model (`recognise`, `frontend`) is compared on every run with an
  independent Earley recogniser built from the parser rules of prolog.g4 (harness/g4.py) and with
  the generated ANTLR lexer. The statements here are the leak classes the property names, as
  theorems about the lexer model: such inputs have no token sequence at all, so no clause
  of them can be compiled.
-/
import Yld.Model.Parser
import Yld.Proofs.Grammar
import Yld.Proofs.GrammarComplete
import Yld.Proofs.LexFaithful
namespace Yld.C10

private theorem scan_no_quote (cs : List Char) (n : Nat) (b : Bool) (h : '\'' ∉ cs) : scanString cs n b none = none := by
  induction cs generalizing n b with
  | nil => rfl
  | cons c cs ih =>
    have hc : (c == '\'') = false := by
      have : c ≠ '\'' := fun e => h (e ▸ List.mem_cons_self)
      simpa using this
    simp only [scanString, hc, Bool.false_eq_true, if_false]
    exact ih _ _ (fun m => h (List.mem_cons_of_mem _ m))

/-- An unterminated quoted atom is a lexical error wherever it starts. -/
theorem unterminated_quote_rejected (cs : List Char) (h : '\'' ∉ cs) : lexOne ('\'' :: cs) = none := by
  simp only [lexOne, show isWs '\'' = false by decide, Bool.false_eq_true, if_false,
    show ('\'' == '%') = false by decide, beq_self_eq_true, if_true]
  rw [scan_no_quote cs 1 false h]; rfl

private theorem comment_no_newline (cs : List Char) (n : Nat) (h : '\n' ∉ cs ∧ '\r' ∉ cs) : scanComment cs n = none := by
  induction cs generalizing n with
  | nil => rfl
  | cons c cs ih =>
    have h1 : (c == '\n') = false := by
      have : c ≠ '\n' := fun e => h.1 (e ▸ List.mem_cons_self)
      simpa using this
    have h2 : (c == '\r') = false := by
      have : c ≠ '\r' := fun e => h.2 (e ▸ List.mem_cons_self)
      simpa using this
    simp only [scanComment, h1, h2, Bool.or_self, Bool.false_eq_true, if_false]
    exact ih _ ⟨fun m => h.1 (List.mem_cons_of_mem _ m), fun m => h.2 (List.mem_cons_of_mem _ m)⟩

/-- A comment that is not closed by a line break is a lexical error (the grammar's COMMENT rule
    requires the line break). -/
theorem unterminated_comment_rejected (cs : List Char) (h : '\n' ∉ cs ∧ '\r' ∉ cs) : lexOne ('%' :: cs) = none := by
  simp only [lexOne, show isWs '%' = false by decide, Bool.false_eq_true, if_false, beq_self_eq_true, if_true]
  rw [comment_no_newline cs 1 h]; rfl

/-- Characters outside the lexicon start no token. -/
theorem foreign_characters_rejected (rest : List Char) :
    lexOne ('"' :: rest) = none ∧ lexOne ('#' :: rest) = none ∧ lexOne ('{' :: rest) = none ∧
    lexOne ('@' :: rest) = none ∧ lexOne ('&' :: rest) = none ∧ lexOne ('$' :: rest) = none ∧
    lexOne ('~' :: rest) = none ∧ lexOne ('^' :: rest) = none ∧ lexOne ('*' :: rest) = none := by
  refine ⟨?_, ?_, ?_, ?_, ?_, ?_, ?_, ?_, ?_⟩ <;> rfl

/-- One position without a token makes the whole text lexically invalid: the lexer never skips. -/
theorem lex_error_is_fatal (f : Nat) (cs : List Char) (acc : List Tok) (h : lexOne cs = none) (hne : cs ≠ []) :
    lexAll (f+1) cs acc = none := by
  cases cs with
  | nil => exact absurd rfl hne
  | cons c cs => simp [lexAll, h]

/-- A text that does not lex is not a sentence, and the front end rejects it. -/
theorem not_lexed_not_compiled (s : String) (h : lex s = none) :
    recognise s = false ∧ frontend s = .error .lexical := by
  simp [recognise, frontend, h]

/-- Anything left over after the last complete clause makes the text no sentence: the recogniser
    accepts only when the token list is consumed entirely. -/
theorem leftover_rejected (f : Nat) (toks : List Tok) (e : FrontErr)
    (h : parseClauseSyn (4 * toks.length + 16) toks = .error e) (hne : toks ≠ []) :
    recogniseToks (f+1) toks = false := by
  cases toks with
  | nil => exact absurd rfl hne
  | cons t ts => simp only [recogniseToks]; rw [h]

/-! ### The model parser accepts only sentences of the grammar

`Generated.grammar` is the BNF of the parser rules of prolog.g4, regenerated from the file on every
run (EBNF expanded by harness/g4.py); `Derives` is derivability in that table. -/

/-- A token list the model's recogniser accepts derives from `program`. -/
theorem recogniser_accepts_only_sentences (f : Nat) (toks : List Tok) (h : recogniseToks f toks = true) :
    Derives Generated.grammar (false, "program") (kinds toks) :=
  recogniseToks_sound f toks h

/-- Every text the model front end (lexer, parser, visitor) accepts is a sentence of the grammar
    of prolog.g4: whatever is outside the grammar is rejected by the model, which tie T1 compares
    with the real compiler on every generated and corrupted text. -/
theorem front_end_accepts_only_sentences (s : String) (r : List SClause × Bool) (h : frontend s = .ok r) :
    ∃ toks, lex s = some toks ∧ Derives Generated.grammar (false, "program") (kinds toks) :=
  frontend_sound s r h

/-- Non-vacuity: `p.` is a sentence. -/
example : recogniseToks 2 [.atom "p", .dot] = true := by decide

/-! ### The lexer neither omits nor alters anything -/

/-- The text is cut into consecutive segments, each either skipped or a token whose text is the
    segment verbatim (a quoted atom keeps its raw text, quotes and backslashes included). -/
theorem lexer_is_faithful (s : String) (toks : List Tok) (h : lex s = some toks) : Lexed s.toList toks :=
  lex_faithful s toks h

/-- … and the only things skipped are white space and comments. -/
theorem only_white_space_and_comments_are_skipped (cs : List Char) (n : Nat) (h : lexOne cs = some (none, n)) :
    ∃ c rest, cs = c :: rest ∧ (isWs c = true ∨ c = '%') :=
  skipped_is_ws_or_comment cs n h

/-- **The model's recogniser decides the language of the grammar**: a token list is accepted
    exactly when its kinds derive from `program` in the BNF regenerated from prolog.g4 — in
    particular every string outside the grammar (unbalanced brackets, missing full stop, stray or
    repeated separators, anything left over after the last clause) is rejected, and with the fuel
    `recognise` uses no sentence is rejected for lack of it. -/
theorem recogniser_decides_the_grammar (toks : List Tok) :
    recogniseToks (toks.length + 1) toks = true ↔ Derives Generated.grammar (false, "program") (kinds toks) :=
  recogniseToks_iff toks

end Yld.C10
