/-
  C09 — call/N, once/1, findall/3, = and \= agree with their standard definitions.
-/
import Yld.Proofs.Restore2
namespace Yld.C09

/-- once(G) fails, without raising, when G has no answer. -/
theorem once_fails_when_goal_fails (k : K) (w : World) : onceGen Gen.fail k w = (w, none) := by
  simp [onceGen, Gen.fail, leaveOnce]

/-- once(G) has G's first answer only: the consumer is run at the first answer and G is not
    resumed, whatever else G could produce. -/
theorem once_first_answer_only (g : Gen) (k : K) (w : World) :
    onceGen (Gen.seq Gen.succeed g) k w = k w := by
  simp only [onceGen, Gen.seq, Gen.succeed, wrapK]
  cases h : k w with
  | mk w' s => cases s <;> simp [leaveOnce]

/-- call(G, A1..An) with a compound G (inline or reached through bound variables) is G with
    A1..An appended to its arguments; with an atom G the arguments are exactly A1..An. -/
theorem call_appends_arguments (cfg : Cfg) (f : Nat) (g : Term) (name : String) (as extra : List Term) (k : K) (w : World)
    (h : walk w.b (f+1) g = some (.fn name as)) :
    callGoal cfg (f+1) g extra k w = query cfg f name (as ++ extra) k w := by
  simp [callGoal, h]
theorem call_atom_goal (cfg : Cfg) (f : Nat) (g : Term) (name : String) (extra : List Term) (k : K) (w : World)
    (h : walk w.b (f+1) g = some (.atom name)) :
    callGoal cfg (f+1) g extra k w = query cfg f name extra k w := by
  simp [callGoal, h]

/-- A goal that is not callable raises (YPException), it is not silently ignored. -/
theorem call_number_raises (cfg : Cfg) (f : Nat) (i : Int) (k : K) (w : World) :
    callGoal cfg (f+1) (.int i) [] k w = (w, some (.exn "YPException")) := by
  simp [callGoal, walk]

/-- As a goal, X = Y has the answers of unification. -/
theorem eq_is_unify (cfg : Cfg) (f : Nat) (a b : Term) : runBuiltin cfg (f+1) "=" [a, b] = unify f a b := by
  funext k w; simp [runBuiltin]

/-- … and leaves no binding behind. -/
theorem eq_restores (cfg : Cfg) (f : Nat) (a b : Term) : Restoring (runBuiltin cfg (f+1) "=" [a, b]) := by
  rw [eq_is_unify]; exact unify_restoring f a b

/-- findall/3, once/1, call/N, \\=/2 and the database builtins leave no binding made by their
    goal: every builtin restores, for every consumer, at every fuel. -/
theorem builtins_leave_no_binding (cfg : Cfg) (f : Nat) (b : String) (args : List Term) : Restoring (runBuiltin cfg f b args) :=
  (allRestoring cfg f).2.2.2.1 b args

/-- The consumer findall/3 runs its goal with never abandons it and binds nothing. -/
theorem findall_collects_without_binding (f : Nat) (tmpl : Term) : Disciplined (findallCollect f tmpl) :=
  findallCollect_disciplined f tmpl

end Yld.C09
