/-
  C09 — call/N, once/1, findall/3, = and \= agree with their standard definitions.
-/
import Yld.Proofs.Restore2
import Yld.Proofs.NeqSpec
import Yld.Proofs.LogicMeta
namespace Yld.C09

/-- once(G) fails, without raising, when G has no answer. -/
theorem once_fails_when_goal_fails (k : K) (w : World) : onceGen Gen.fail k w = (w, none) := by
  simp [onceGen, Gen.fail, leaveOnce]

/-- once(G) has G's first answer only: the consumer is run at the first answer and G is not
    resumed, whatever else G could produce. -/
theorem once_first_answer_only (g : Gen) (k : K) (w : World) :
    onceGen (Gen.seq Gen.succeed g) k w = k w := by
  simp only [onceGen, Gen.seq, Gen.succeed, wrapK]
  cases h : k w with
  | mk w' s => cases s <;> simp [leaveOnce]

/-- call(G, A1..An) with a compound G (inline or reached through bound variables) is G with
    A1..An appended to its arguments; with an atom G the arguments are exactly A1..An. -/
theorem call_appends_arguments (cfg : Cfg) (f : Nat) (g : Term) (name : String) (as extra : List Term) (k : K) (w : World)
    (h : walk w.b (f+1) g = some (.fn name as)) :
    callGoal cfg (f+1) g extra k w = query cfg f name (as ++ extra) k w := by
  simp [callGoal, h]
theorem call_atom_goal (cfg : Cfg) (f : Nat) (g : Term) (name : String) (extra : List Term) (k : K) (w : World)
    (h : walk w.b (f+1) g = some (.atom name)) :
    callGoal cfg (f+1) g extra k w = query cfg f name extra k w := by
  simp [callGoal, h]

/-- A goal that is not callable raises (YPException), it is not silently ignored. -/
theorem call_number_raises (cfg : Cfg) (f : Nat) (i : Int) (k : K) (w : World) :
    callGoal cfg (f+1) (.int i) [] k w = (w, some (.exn "YPException")) := by
  simp [callGoal, walk]

/-- As a goal, X = Y has the answers of unification. -/
theorem eq_is_unify (cfg : Cfg) (f : Nat) (a b : Term) : runBuiltin cfg (f+1) "=" [a, b] = unify f a b := by
  funext k w; simp [runBuiltin]

/-- … and leaves no binding behind. -/
theorem eq_restores (cfg : Cfg) (f : Nat) (a b : Term) : Restoring (runBuiltin cfg (f+1) "=" [a, b]) := by
  rw [eq_is_unify]; exact unify_restoring f a b

/-- findall/3, once/1, call/N, \\=/2 and the database builtins leave no binding made by their
    goal: every builtin restores, for every consumer, at every fuel. -/
theorem builtins_leave_no_binding (cfg : Cfg) (f : Nat) (b : String) (args : List Term) : Restoring (runBuiltin cfg f b args) :=
  (allRestoring cfg f).2.2.2.1 b args

/-- The consumer findall/3 runs its goal with never abandons it and binds nothing. -/
theorem findall_collects_without_binding (f : Nat) (tmpl : Term) : Disciplined (findallCollect f tmpl) :=
  findallCollect_disciplined f tmpl

/-! ### `\\=` against unifiability (for an engine whose `=` is the builtin: `StdEq`) -/

/-- X \\= Y fails whenever X and Y have a unifier: the continuation never runs. -/
theorem neq_fails_on_unifiable_terms (cfg : Cfg) (w : World) (h : StdEq cfg w) (f : Nat) (a b : Term)
    (θ : Val) (hθ : Solves θ w.b) (hu : a.subst θ = b.subst θ) :
    ∃ r : R, (r.2 = none ∨ r.2 = some .oof) ∧ ∀ k, runBuiltin cfg (f+5) "\\=" [a, b] k w = r :=
  neq_fails_when_unifiable cfg w h f a b θ hθ hu

/-- X \\= Y succeeds exactly once, binding nothing, when X and Y have no unifier (or the limit is hit,
    or the attempt built a cyclic term, which the model flags as unspecified). -/
theorem neq_succeeds_on_non_unifiable_terms (cfg : Cfg) (w : World) (h : StdEq cfg w) (f : Nat) (a b : Term)
    (hno : ∀ θ, Solves θ w.b → a.subst θ ≠ b.subst θ) (hsolv : Solvable w.b) (hcyc : w.cyc = false) :
    (∃ w', w'.b = w.b ∧ w'.core = w.core ∧ ∀ k, runBuiltin cfg (f+5) "\\=" [a, b] k w = k w') ∨
    (∃ r : R, r.2 = some .oof ∧ ∀ k, runBuiltin cfg (f+5) "\\=" [a, b] k w = r) ∨
    (∃ r : R, r.1.cyc = true ∧ ∀ k, runBuiltin cfg (f+5) "\\=" [a, b] k w = r) :=
  neq_succeeds_without_unifier cfg w h f a b hno hsolv hcyc

/-- … and it fails only then: a failure on an acyclic heap (no cyclic term built) exhibits a unifier. -/
theorem neq_failure_exhibits_a_unifier (cfg : Cfg) (w : World) (h : StdEq cfg w) (f : Nat) (a b : Term)
    (hsolv : Solvable w.b)
    (hfail : (runBuiltin cfg (f+5) "\\=" [a, b] (fun w' => (w', some .stop)) w).2 = none)
    (hc : (runBuiltin cfg (f+5) "\\=" [a, b] (fun w' => (w', some .stop)) w).1.cyc = false) :
    ∃ θ, Solves θ w.b ∧ a.subst θ = b.subst θ :=
  neq_fails_only_when_unifiable cfg w h f a b hsolv hfail hc

/-- The hypothesis is that of a fresh engine. -/
example : StdEq { blacklist := ({} : Engine).blacklist, defs := ({} : Engine).defs, mode := .compiled } ({} : Engine).w :=
  ⟨by rfl, by rfl, by rfl⟩

/-! ### findall/3 and once/1 against the logical reading

For a goal of a Horn program with any closed fact store; `HoldsF db preds` is what follows from program
and store (Yld/Proofs/LogicFacts.lean). Through `call_appends_arguments` the goal term stands for
`query cfg f name args`; `findallCollect` is the list comprehension of `findall`. -/

/-- Every instance of every element findall collects is an instance of the template for which the goal
    follows from program and store. -/
theorem findall_elements_are_consequences (cfg : Cfg) (preds : List Pred) (h : HornCfg cfg preds)
    (f f' : Nat) (name : String) (args : List Term) (tmpl : Term) (hname : userName name = true)
    (w : World) (hcl : DbClosed w.db) (hsc : w.Scoped) (hsolv : Solvable w.b) (hcyc : w.cyc = false)
    (hargs : ∀ t ∈ args, ∀ x ∈ t.vars, x < w.next) (htmpl : ∀ x ∈ tmpl.vars, x < w.next)
    (hc : (query cfg f name args (findallCollect f' tmpl) { w with acc := [] :: w.acc }).1.cyc = false) :
    ∀ e ∈ collected (query cfg f name args (findallCollect f' tmpl) { w with acc := [] :: w.acc }),
      ∀ ρ : Nat → Term, ∃ θ, Solves θ w.b ∧ e.subst ρ = tmpl.subst θ ∧
        HoldsF w.db preds name (args.map (Term.subst θ)) :=
  findall_collects_only_consequences cfg preds h f f' name args tmpl hname w hcl hsc hsolv hcyc hargs htmpl hc

/-- Without cut, when the goal's enumeration ends normally, every instance of the template whose goal
    instance follows is an instance of a collected element. -/
theorem findall_misses_no_consequence (cfg : Cfg) (preds : List Pred) (h : HornCfg cfg preds)
    (hnocut : ∀ p ∈ preds, ∀ c ∈ p.clauses, c.body.cutFree = true)
    (f f' : Nat) (name : String) (args : List Term) (tmpl : Term) (hname : userName name = true)
    (w : World) (hcl : DbClosed w.db) (hsc : w.Scoped)
    (hargs : ∀ t ∈ args, ∀ x ∈ t.vars, x < w.next) (htmpl : ∀ x ∈ tmpl.vars, x < w.next)
    (hend : (query cfg f name args (findallCollect f' tmpl) { w with acc := [] :: w.acc }).2 = none)
    (θ : Nat → Term) (hθ : Solves θ w.b) (hh : HoldsF w.db preds name (args.map (Term.subst θ))) :
    ∃ e ∈ collected (query cfg f name args (findallCollect f' tmpl) { w with acc := [] :: w.acc }),
      ∃ ρ : Nat → Term, e.subst ρ = tmpl.subst θ :=
  findall_collects_every_consequence cfg preds h hnocut f f' name args tmpl hname w hcl hsc hargs htmpl hend θ hθ hh

/-- once(G) runs its continuation only where `G` holds … -/
theorem once_continues_only_where_the_goal_holds (cfg : Cfg) (preds : List Pred) (h : HornCfg cfg preds)
    (f : Nat) (name : String) (args : List Term) (hname : userName name = true)
    (w : World) (hcl : DbClosed w.db) (hsc : w.Scoped) (hargs : ∀ t ∈ args, ∀ x ∈ t.vars, x < w.next)
    (k1 k2 : K) (hq1 : Quiet k1) (hq2 : Quiet k2)
    (hk : ∀ w', GoalHoldsF w.db preds name args w' → k1 w' = k2 w') :
    onceGen (query cfg f name args) k1 w = onceGen (query cfg f name args) k2 w :=
  once_sees_only_consequences cfg preds h f name args hname w hcl hsc hargs k1 k2 hq1 hq2 hk

/-- … and (no cut) does not simply fail when some instance of `G` follows from program and store. -/
theorem once_does_not_fail_when_provable (cfg : Cfg) (preds : List Pred) (h : HornCfg cfg preds)
    (hnocut : ∀ p ∈ preds, ∀ c ∈ p.clauses, c.body.cutFree = true)
    (f : Nat) (name : String) (args : List Term) (hname : userName name = true)
    (w : World) (hcl : DbClosed w.db) (hsc : w.Scoped) (hargs : ∀ t ∈ args, ∀ x ∈ t.vars, x < w.next)
    (θ : Nat → Term) (hθ : Solves θ w.b) (hh : HoldsF w.db preds name (args.map (Term.subst θ)))
    (s : Sig) :
    (onceGen (query cfg f name args) (fun w' => (w', some s)) w).2 ≠ none :=
  once_succeeds_when_provable cfg preds h hnocut f name args hname w hcl hsc hargs θ hθ hh s

end Yld.C09
