/-
  C18 — compilation is a deterministic function of the source text.

  The model compiler is a Lean function, so the model is deterministic by construction; the
  content of the claim is that the code *is* that function. Two things carry it:
  * tie T1 (checked on every run): the real output's Python AST equals the model's, with the
    declaration order not normalised, in several processes / hash seeds / histories;
  * the obligations below over tables regenerated from /repo on every run.
-/
import Yld.Model.Emit
import Yld.Model.Parser
import Yld.Generated.Tables
namespace Yld.C18

/-- No place in the compiler modules whose value can depend on anything but the source text
    (set iteration, hash(), id(), clocks, randomness, environment). The table is regenerated
    from yp_generator.py, yp_prolog_visitor.py and compiler.py by harness/extract.py; the pinned
    tree's `list(set(...))` in filter_free_variables is such a site. -/
theorem no_oracle_sites : Generated.oracleSites = [] := by decide

/-- `filter_free_variables` after the repair: declarations come out in order of first
    occurrence — the de-duplication never reorders, it only drops later repetitions. -/
theorem dedup_sublist (xs : List String) : (dedup xs).Sublist xs := by
  unfold dedup
  suffices h : ∀ (acc : List String), ∃ ys,
      xs.foldl (fun acc x => if acc.contains x then acc else acc ++ [x]) acc = acc ++ ys ∧ ys.Sublist xs by
    obtain ⟨ys, h1, h2⟩ := h []
    rw [h1]; simpa using h2
  induction xs with
  | nil => intro acc; exact ⟨[], by simp, List.Sublist.refl _⟩
  | cons y ys ih =>
    intro acc
    simp only [List.foldl_cons]
    by_cases hc : acc.contains y
    · simp only [hc, if_true]
      obtain ⟨zs, h1, h2⟩ := ih acc
      exact ⟨zs, h1, h2.cons _⟩
    · simp only [hc, Bool.false_eq_true, if_false]
      obtain ⟨zs, h1, h2⟩ := ih (acc ++ [y])
      exact ⟨y :: zs, by rw [h1]; simp, h2.cons_cons _⟩

/-- Every name that is declared occurs in the input, and every input name is declared. -/
theorem dedup_mem (xs : List String) (x : String) : x ∈ dedup xs ↔ x ∈ xs := by
  unfold dedup
  suffices h : ∀ (acc : List String),
      x ∈ xs.foldl (fun acc x => if acc.contains x then acc else acc ++ [x]) acc ↔ x ∈ acc ∨ x ∈ xs by
    simpa using h []
  induction xs with
  | nil => intro acc; simp
  | cons y ys ih =>
    intro acc
    simp only [List.foldl_cons, ih, List.mem_cons]
    by_cases hc : acc.contains y
    · simp only [hc, if_true]
      have : y ∈ acc := by simpa using hc
      constructor
      · rintro (h | h)
        · exact Or.inl h
        · exact Or.inr (Or.inr h)
      · rintro (h | h | h)
        · exact Or.inl h
        · subst h; exact Or.inl this
        · exact Or.inr h
    · simp only [hc, Bool.false_eq_true, if_false, List.mem_append, List.mem_singleton]
      constructor
      · rintro ((h | h) | h)
        · exact Or.inl h
        · exact Or.inr (Or.inl h)
        · exact Or.inr (Or.inr h)
      · rintro (h | h | h)
        · exact Or.inl (Or.inl h)
        · exact Or.inl (Or.inr h)
        · exact Or.inr h

/-- The compiler model has no state that survives a compilation: the whole pipeline is a
    function of the text (counters for anonymous variables and if-then-else labels are
    arguments that start from their initial value in `frontend` / `compileProgram`). -/
theorem compile_stateless (s : String) (history : List String) :
    (history.foldl (fun _ h => (frontend h).toOption.map (fun r => compileProgram (groupClauses r.1))) none,
      (frontend s).toOption.map (fun r => compileProgram (groupClauses r.1))).2
    = (frontend s).toOption.map (fun r => compileProgram (groupClauses r.1)) := rfl

end Yld.C18
