/-
  C13 — a stored fact is an independent copy of the asserted term.
-/
import Yld.Proofs.Store
import Yld.Proofs.Restore
namespace Yld.C13

/-- The stored fact is a function of the *resolved value* of the asserted arguments at the moment
    of the assertion only: two worlds that resolve the arguments to the same terms store the same
    fact (whatever the later history of the variables involved). -/
theorem assert_snapshot (f : Nat) (name : String) (values vs : List Term) (app : Bool) (w1 w2 : World)
    (h1 : values.mapM (resolve w1.b f) = some vs) (h2 : values.mapM (resolve w2.b f) = some vs)
    (hs : w1.stamp = w2.stamp) (hf : w1.facts name values.length = w2.facts name values.length) :
    (assertFact f name values app w1).1.facts name values.length
      = (assertFact f name values app w2).1.facts name values.length := by
  simp only [assertFact, h1, h2]
  show (World.setFacts _ _ _ _).facts _ _ = (World.setFacts _ _ _ _).facts _ _
  rw [facts_setFacts_same, facts_setFacts_same, hs, hf]

private theorem vars_rename_fn (ρ : Nat → Nat) (g : String) (args : List Term) :
    (Term.rename ρ (.fn g args)) = .fn g (args.map (Term.rename ρ)) := by
  simp [Term.rename, List.map_attach_eq_pmap, List.pmap_eq_map]

private theorem vars_fn (g : String) (args : List Term) : (Term.fn g args).vars = (args.map Term.vars).flatten := by
  simp [Term.vars, List.map_attach_eq_pmap, List.pmap_eq_map]

/-- Unbound variables inside a stored fact belong to the fact and are fresh at every use: the
    terms a use unifies the caller's arguments with mention only cells allocated for this use
    (numbers ≥ the allocation counter at the moment of the use). -/
theorem fact_vars_fresh (base : Nat) (t : Term) : ∀ x ∈ (t.rename (· + base)).vars, base ≤ x := by
  induction t using Term.rec (motive_2 := fun ts => ∀ t ∈ ts, ∀ x ∈ (t.rename (· + base)).vars, base ≤ x) with
  | var n => intro x hx; simp [Term.rename, Term.vars] at hx; omega
  | atom s => intro x hx; simp [Term.rename, Term.vars] at hx
  | int i => intro x hx; simp [Term.rename, Term.vars] at hx
  | fn g args ih =>
    intro x hx
    rw [vars_rename_fn, vars_fn] at hx
    simp only [List.map_map, List.mem_flatten, List.mem_map, Function.comp] at hx
    obtain ⟨l, ⟨a, ha, rfl⟩, hxl⟩ := hx
    exact ih a ha x hxl
  | nil => rename_i ht _ _; cases ht
  | cons a as iha ihas =>
    rename_i t ht x hx
    cases ht with
    | head => exact iha x hx
    | tail _ h => exact ihas t h x hx

/-- Each use allocates its own block of cells, so two simultaneous uses of one fact work on
    disjoint variables and cannot constrain each other. -/
theorem use_allocates (f : Nat) (fact : Fact) (args : List Term) (k : K) (w : World)
    (h : args.length = fact.args.length) :
    matchFact f fact args k w =
      unifyList (unify f) args (fact.args.map (Term.rename (· + w.next))) k { w with next := w.next + fact.nvars } := by
  simp [matchFact, h]

/-- Using a fact leaves no binding behind, so a later use (or the asserting clause) sees the
    stored terms unchanged. -/
theorem use_restores (f : Nat) (fact : Fact) (args : List Term) : Restoring (matchFact f fact args) := by
  intro k hk w
  unfold matchFact
  simp only
  split
  · exact unifyList_restores (unify f) (unify_restoring f) _ _ k hk _
  · rfl

end Yld.C13
