/-
  C16 — source literals and Python values denote the same terms.
-/
import Yld.Model.Api
import Yld.Model.Lexer
import Yld.Model.Emit
namespace Yld.C16

/-- How a quoted atom is written: `'` is written `\'`, nothing else is escaped. -/
def escapeQuote : List Char → List Char
  | [] => []
  | c :: cs => if c = '\'' then '\\' :: '\'' :: escapeQuote cs else c :: escapeQuote cs

def quoted (s : List Char) : List Char := '\'' :: (escapeQuote s ++ ['\''])

private theorem filter_escape (s : List Char) (h : '\\' ∉ s) :
    (escapeQuote s).filter (· != '\\') = s := by
  induction s with
  | nil => rfl
  | cons c cs ih =>
    have hc : c ≠ '\\' := fun e => h (e ▸ List.mem_cons_self)
    have ih' := ih (fun m => h (List.mem_cons_of_mem _ m))
    simp only [escapeQuote]
    split
    · rename_i hq; subst hq
      simp [List.filter_cons, ih']
    · simp [List.filter_cons, hc, ih']

/-- For every text free of backslashes — any characters, quotes, newlines, non-ASCII — the quoted
    form denotes the text: `unquoteString` inverts the quoting. -/
theorem unquote_quote (s : List Char) (h : '\\' ∉ s) : unquoteChars (quoted s) = s := by
  unfold unquoteChars quoted
  simp only [List.drop_one, List.tail_cons, List.dropLast_concat]
  exact filter_escape s h

private theorem scan_escape (s rest : List Char) (h : '\\' ∉ s) (n : Nat) (best : Option Nat) :
    scanString (escapeQuote s ++ '\'' :: rest) n false best = some (n + (escapeQuote s).length + 1) := by
  induction s generalizing n best with
  | nil => simp [escapeQuote, scanString]
  | cons c cs ih =>
    have hc : c ≠ '\\' := fun e => h (e ▸ List.mem_cons_self)
    have ih' := ih (fun m => h (List.mem_cons_of_mem _ m))
    simp only [escapeQuote]
    split
    · rename_i hq; subst hq
      simp only [List.cons_append, scanString]
      simp only [show ('\\' == '\'') = false by decide, Bool.false_eq_true, if_false,
        show ('\\' == '\\') = true by decide, beq_self_eq_true, if_true]
      rw [ih']
      simp only [List.length_cons]; congr 1; omega
    · rename_i hq
      have h1 : (c == '\'') = false := by simpa using hq
      have h2 : (c == '\\') = false := by simpa using hc
      simp only [List.cons_append, scanString, h1, Bool.false_eq_true, if_false, h2]
      rw [ih']
      simp only [List.length_cons]; congr 1; omega

/-- … and that quoted form is one STRING token of the lexer, whatever follows it. -/
theorem quoted_is_one_token (s rest : List Char) (h : '\\' ∉ s) :
    lexOne (quoted s ++ rest) = some (some (.str (String.ofList (quoted s))), (quoted s).length) := by
  unfold quoted
  simp only [List.cons_append, List.append_assoc, List.singleton_append, lexOne]
  simp only [show isWs '\'' = false by decide, Bool.false_eq_true, if_false,
    show ('\'' == '%') = false by decide, beq_self_eq_true, if_true]
  simp only [List.nil_append]
  rw [scan_escape s rest h]
  simp only [Option.map_some, List.length_cons, List.length_append, List.length_nil]
  have hlen : 1 + (escapeQuote s).length + 1 = ('\'' :: (escapeQuote s ++ ['\''])).length := by
    simp only [List.length_cons, List.length_append, List.length_nil]; omega
  have htake : List.take (1 + (escapeQuote s).length + 1) ('\'' :: (escapeQuote s ++ '\'' :: rest))
      = '\'' :: (escapeQuote s ++ ['\'']) := by
    rw [hlen]
    have : '\'' :: (escapeQuote s ++ '\'' :: rest) = ('\'' :: (escapeQuote s ++ ['\''])) ++ rest := by simp
    rw [this, List.take_left']
    rfl
  rw [htake]
  congr 2
  simp only [List.length_cons, List.length_append, List.length_nil] at hlen
  omega

/-- `[t1,…,tn]` is `'.'(t1, '.'(…, [])…)`: the list literal and the nested pair pattern that
    ends in `[]` denote the same term (`makelist` folds with `listpair`). -/
theorem list_is_nested_pairs (env : Env) (items : List STerm) :
    STerm.eval env (.list items) = items.foldr (fun h t => Term.fn "." [STerm.eval env h, t]) (.atom "[]") := by
  simp only [STerm.eval, List.map_attach_eq_pmap, List.pmap_eq_map]
  induction items with
  | nil => rfl
  | cons i is ih => simp [mkList, ih]

/-- `to_python` of a proper list of atoms/integers is the Python list of their names/values. -/
theorem to_python_list (f : Nat) (ts : List Term) (h : ∀ t ∈ ts, ∃ s, t = .atom s ∧ s ≠ "[]") :
    toPython (f + ts.length + 1) (mkList ts) = .list (ts.map fun t => match t with | .atom s => .str s | _ => .err) := by
  induction ts generalizing f with
  | nil => simp [mkList, toPython]
  | cons t ts ih =>
    obtain ⟨s, rfl, hs⟩ := h _ List.mem_cons_self
    have ih' := ih f (fun t ht => h t (List.mem_cons_of_mem _ ht))
    simp only [mkList, List.length_cons, List.map_cons]
    rw [show f + (ts.length + 1) + 1 = (f + ts.length + 1) + 1 by omega]
    simp only [toPython, if_true, ih', hs, if_false]

example : unquoteChars (quoted "it's\na 五".toList) = "it's\na 五".toList := by decide

end Yld.C16
