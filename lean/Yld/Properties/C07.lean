/-
  C07 — the fact database behaves as ordered lists for every history.
-/
import Yld.Proofs.Store
import Yld.Proofs.StoreShape
import Yld.Proofs.RetractAllSpec
import Yld.Proofs.LogicStore
namespace Yld.C07

/-- assertz appends: the facts of name/arity afterwards are the old ones followed by the new
    fact, whose arguments are the resolved values, renamed apart. -/
theorem assertz_appends (f : Nat) (name : String) (values vs : List Term) (w : World)
    (h : values.mapM (resolve w.b f) = some vs) :
    ∃ fact, (assertFact f name values true w).2 = none ∧
      fact.args = (canonVars vs).1 ∧ fact.id = w.stamp ∧
      (assertFact f name values true w).1.facts name values.length = w.facts name values.length ++ [fact] := by
  refine ⟨{ id := w.stamp, nvars := (canonVars vs).2, args := (canonVars vs).1 }, ?_, rfl, rfl, ?_⟩
  · simp [assertFact, h]
  · simp only [assertFact, h, if_true]
    exact facts_setFacts_same _ _ _ _

/-- asserta prepends. -/
theorem asserta_prepends (f : Nat) (name : String) (values vs : List Term) (w : World)
    (h : values.mapM (resolve w.b f) = some vs) :
    ∃ fact, fact.args = (canonVars vs).1 ∧
      (assertFact f name values false w).1.facts name values.length = fact :: w.facts name values.length := by
  refine ⟨{ id := w.stamp, nvars := (canonVars vs).2, args := (canonVars vs).1 }, rfl, ?_⟩
  simp only [assertFact, h, Bool.false_eq_true, if_false]
  exact facts_setFacts_same _ _ _ _

/-- Asserting a fact of one name/arity leaves every other predicate's facts as they were. -/
theorem assert_frame (f : Nat) (name name' : String) (values : List Term) (a' : Nat) (app : Bool) (w : World)
    (hne : (name', a') ≠ (name, values.length)) :
    (assertFact f name values app w).1.facts name' a' = w.facts name' a' := by
  unfold assertFact
  split
  · rfl
  · simp only
    exact facts_setFacts_other _ _ _ _ _ _ hne

/-- A query enumerates the matching facts in list order: first the first fact, then the rest. -/
theorem query_in_list_order (f : Nat) (args : List Term) (c : Fact) (cs : List Fact) :
    matchAll f args (c :: cs) = Gen.seq (matchFact f c args) (matchAll f args cs) := by
  funext k w
  simp only [matchAll, Gen.seq]
  cases h : matchFact f c args k w with
  | mk w' s => cases s <;> rfl

/-- A predicate without facts: queries and retract fail, retractall succeeds (exactly once) —
    none of them raises. -/
theorem no_facts_query_fails (f : Nat) (name : String) (args : List Term) (k : K) (w : World)
    (h : w.facts name args.length = []) : matchDynamic f name args k w = (w, none) := by
  simp [matchDynamic, h, matchAll]
theorem no_facts_retract_fails (f : Nat) (name : String) (args : List Term) (k : K) (w : World) :
    retractLoop f name args [] k w = (w, none) := by
  simp [retractLoop]
theorem no_facts_retractall_succeeds (f : Nat) (args : List Term) (w : World) :
    retractAllLoop f args [] [] w = (w, .ok []) := by
  simp [retractAllLoop]

/-- clear removes everything. -/
theorem clear_removes_everything (e : Engine) (name : String) (a : Nat) : e.clear.w.facts name a = [] := by
  simp [Engine.clear, World.facts]

/-- Zero-argument facts are ordinary facts under the key (name, 0): an atom goal and a compound
    goal name their predicate in the same way. -/
theorem atom_goal_is_zero_arity (f : Nat) (w : World) (s : String) :
    factNameArgs (f+1) w (.atom s) = .ok (s, []) := by
  simp [factNameArgs, walk]

/-! ### retract and retractall -/

/-- Unification (hence matching a stored fact) never touches the store: the consumer is called at
    most once, with the store as it was, and what it hands back is left alone. -/
theorem matching_does_not_touch_the_store (f : Nat) (c : Fact) (args : List Term) (w : World) :
    DBShape (matchFact f c args) w := matchFact_dbshape f c args w

/-- **One step of retract**, for the next fact `c` of the snapshot that is still in the store:
    `c` does not match and the loop goes on with the store as it was; or matching faults; or the
    consumer is called exactly once, in a world where exactly `c` has been removed, and the loop
    goes on with the rest of the snapshot when the consumer resumes. -/
theorem retract_one_step (f : Nat) (name : String) (args : List Term) (c : Fact) (cs : List Fact) (w : World)
    (hin : (w.facts name args.length).any (·.id == c.id) = true) :
    (∃ w', w'.db = w.db ∧ ∀ k, retractLoop f name args (c :: cs) k w = retractLoop f name args cs k w')
    ∨ (∃ r : R, r.1.db = w.db ∧ r.2 ≠ none ∧ ∀ k, retractLoop f name args (c :: cs) k w = r)
    ∨ (∃ (pre : World) (post : World → World), pre.db = w.db ∧ (∀ w', (post w').db = w'.db) ∧
        ∀ k, retractLoop f name args (c :: cs) k w =
          andThenR (fun w' => retractLoop f name args cs k w')
            (post (k (pre.setFacts name args.length ((w.facts name args.length).filter (·.id != c.id)))).1,
             (k (pre.setFacts name args.length ((w.facts name args.length).filter (·.id != c.id)))).2)) :=
  retract_step f name args c cs w hin

/-- What the consumer of a retract answer sees: this predicate's facts in order with exactly the
    matched fact gone; every other predicate as it was. -/
theorem retract_answer_sees (name : String) (n : Nat) (c : Fact) (pre w : World) (hp : pre.db = w.db) :
    (pre.setFacts name n ((w.facts name n).filter (·.id != c.id))).facts name n = (w.facts name n).filter (·.id != c.id)
    ∧ ∀ name' n', (name', n') ≠ (name, n) →
        (pre.setFacts name n ((w.facts name n).filter (·.id != c.id))).facts name' n' = w.facts name' n' :=
  retract_answer_store name n c pre w hp

/-- A fact somebody else removed while the retract was suspended is skipped. -/
theorem retract_skips_facts_removed_meanwhile (f : Nat) (name : String) (args : List Term) (c : Fact) (cs : List Fact)
    (k : K) (w : World) (hout : (w.facts name args.length).any (·.id == c.id) = false) :
    retractLoop f name args (c :: cs) k w = retractLoop f name args cs k w :=
  retract_skips_removed f name args c cs k w hout

/-- retractall only deletes: what it keeps is a sublist of the facts, in their order. -/
theorem retractall_keeps_a_sublist (f : Nat) (args : List Term) (cs keep : List Fact) (w w' : World) (keep' : List Fact)
    (h : retractAllLoop f args cs keep w = (w', .ok keep')) : ∃ sub, keep' = keep ++ sub ∧ sub.Sublist cs :=
  retractAll_keeps_sublist f args cs keep w w' keep' h

/-- **retractall removes exactly the facts that unify with the pattern.** The bindings are as before;
    the facts kept are — in their order — those for which no solution of the heap unifies the pattern
    with a fresh copy of the fact (`RetractAllSpec.keep`); the facts dropped do unify with it, on an
    acyclic heap when no cyclic term was built (`RetractAllSpec.drop`). For every pattern: non-linear
    (`p(X,X)`), partially bound, aliased through the heap. -/
theorem retractall_removes_exactly_the_unifying_facts (f : Nat) (args : List Term) (cs keep : List Fact) (w w' : World)
    (keep' : List Fact) (h : retractAllLoop f args cs keep w = (w', .ok keep')) :
    w'.b = w.b ∧ w'.db = w.db ∧
    ∃ kept, keep' = keep ++ kept ∧ RetractAllSpec w.b args (Solvable w.b ∧ w'.cyc = false) w.next cs kept := by
  obtain ⟨hb, hd, _, r⟩ := retractAll_spec f args cs keep w w' keep' h
  exact ⟨hb, hd, r⟩

/-- In particular a fact that survives does not unify with the pattern … -/
theorem retractall_survivors_do_not_unify {b : Bind} {args : List Term} {acyc : Prop} :
    ∀ {n : Nat} {cs kept : List Fact}, RetractAllSpec b args acyc n cs kept →
      ∀ c ∈ kept, ∃ base, ¬ FactUnifies b base c args
  | _, _, _, .nil _, c, hc => by cases hc
  | _, _, _, .drop _ _ _ _ _ rest, c, hc => retractall_survivors_do_not_unify rest c hc
  | n, _, _, .keep _ c' _ _ hno rest, c, hc => by
      cases hc with
      | head => exact ⟨n, hno⟩
      | tail _ h' => exact retractall_survivors_do_not_unify rest c h'

/-- … and the survivors are a sublist of the facts: nothing is added or reordered. -/
theorem retractall_survivors_in_order {b : Bind} {args : List Term} {acyc : Prop} :
    ∀ {n : Nat} {cs kept : List Fact}, RetractAllSpec b args acyc n cs kept → kept.Sublist cs
  | _, _, _, .nil _ => .slnil
  | _, _, _, .drop _ _ _ _ _ rest => .cons _ (retractall_survivors_in_order rest)
  | _, _, _, .keep _ _ _ _ _ rest => .cons₂ _ (retractall_survivors_in_order rest)

/-! ### The store and the logical reading of program + facts (`HoldsF`, Yld/Proofs/LogicFacts.lean) -/

/-- More facts, more consequences: the reading is monotone in the store. -/
theorem more_facts_more_consequences (preds : List Pred) (db db' : List ((String × Nat) × List Fact)) (hle : DbLe db db')
    (name : String) (args : List Term) (h : HoldsF db preds name args) : HoldsF db' preds name args :=
  holdsF_mono preds db db' hle name args h

/-- After `assert_fact` / asserta / assertz the store is closed again, nothing that followed before is lost, the
    bindings are untouched, and every instance of the asserted term (as resolved at that moment) follows. -/
theorem assert_adds_exactly_its_fact_to_the_consequences (preds : List Pred) (f : Nat) (name : String) (values vs : List Term)
    (app : Bool) (w : World) (hcl : DbClosed w.db) (hres : values.mapM (resolve w.b f) = some vs) :
    (assertFact f name values app w).2 = none ∧
    DbClosed (assertFact f name values app w).1.db ∧
    DbLe w.db (assertFact f name values app w).1.db ∧
    (assertFact f name values app w).1.b = w.b ∧
    ∀ τ : Nat → Term, HoldsF (assertFact f name values app w).1.db preds name ((canonVars vs).1.map (Term.subst τ)) :=
  assert_adds_a_consequence preds f name values vs app w hcl hres

/-- What retract and retractall do — keep a sublist of one predicate's facts — can only remove consequences. -/
theorem retracting_removes_only (preds : List Pred) (w : World) (name : String) (arity : Nat) (keep : List Fact)
    (hsub : ∀ c ∈ keep, c ∈ w.facts name arity) :
    DbLe (w.setFacts name arity keep).db w.db ∧
    ∀ n a, HoldsF (w.setFacts name arity keep).db preds n a → HoldsF w.db preds n a :=
  setFacts_sublist_removes_only preds w name arity keep hsub

end Yld.C07
