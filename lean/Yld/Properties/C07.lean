/-
  C07 — the fact database behaves as ordered lists for every history.
-/
import Yld.Proofs.Store
namespace Yld.C07

/-- assertz appends: the facts of name/arity afterwards are the old ones followed by the new
    fact, whose arguments are the resolved values, renamed apart. -/
theorem assertz_appends (f : Nat) (name : String) (values vs : List Term) (w : World)
    (h : values.mapM (resolve w.b f) = some vs) :
    ∃ fact, (assertFact f name values true w).2 = none ∧
      fact.args = (canonVars vs).1 ∧ fact.id = w.stamp ∧
      (assertFact f name values true w).1.facts name values.length = w.facts name values.length ++ [fact] := by
  refine ⟨{ id := w.stamp, nvars := (canonVars vs).2, args := (canonVars vs).1 }, ?_, rfl, rfl, ?_⟩
  · simp [assertFact, h]
  · simp only [assertFact, h, if_true]
    exact facts_setFacts_same _ _ _ _

/-- asserta prepends. -/
theorem asserta_prepends (f : Nat) (name : String) (values vs : List Term) (w : World)
    (h : values.mapM (resolve w.b f) = some vs) :
    ∃ fact, fact.args = (canonVars vs).1 ∧
      (assertFact f name values false w).1.facts name values.length = fact :: w.facts name values.length := by
  refine ⟨{ id := w.stamp, nvars := (canonVars vs).2, args := (canonVars vs).1 }, rfl, ?_⟩
  simp only [assertFact, h, Bool.false_eq_true, if_false]
  exact facts_setFacts_same _ _ _ _

/-- Asserting a fact of one name/arity leaves every other predicate's facts as they were. -/
theorem assert_frame (f : Nat) (name name' : String) (values : List Term) (a' : Nat) (app : Bool) (w : World)
    (hne : (name', a') ≠ (name, values.length)) :
    (assertFact f name values app w).1.facts name' a' = w.facts name' a' := by
  unfold assertFact
  split
  · rfl
  · simp only
    exact facts_setFacts_other _ _ _ _ _ _ hne

/-- A query enumerates the matching facts in list order: first the first fact, then the rest. -/
theorem query_in_list_order (f : Nat) (args : List Term) (c : Fact) (cs : List Fact) :
    matchAll f args (c :: cs) = Gen.seq (matchFact f c args) (matchAll f args cs) := by
  funext k w
  simp only [matchAll, Gen.seq]
  cases h : matchFact f c args k w with
  | mk w' s => cases s <;> rfl

/-- A predicate without facts: queries and retract fail, retractall succeeds (exactly once) —
    none of them raises. -/
theorem no_facts_query_fails (f : Nat) (name : String) (args : List Term) (k : K) (w : World)
    (h : w.facts name args.length = []) : matchDynamic f name args k w = (w, none) := by
  simp [matchDynamic, h, matchAll]
theorem no_facts_retract_fails (f : Nat) (name : String) (args : List Term) (k : K) (w : World) :
    retractLoop f name args [] k w = (w, none) := by
  simp [retractLoop]
theorem no_facts_retractall_succeeds (f : Nat) (args : List Term) (w : World) :
    retractAllLoop f args [] [] w = (w, .ok []) := by
  simp [retractAllLoop]

/-- clear removes everything. -/
theorem clear_removes_everything (e : Engine) (name : String) (a : Nat) : e.clear.w.facts name a = [] := by
  simp [Engine.clear, World.facts]

/-- Zero-argument facts are ordinary facts under the key (name, 0): an atom goal and a compound
    goal name their predicate in the same way. -/
theorem atom_goal_is_zero_arity (f : Nat) (w : World) (s : String) :
    factNameArgs (f+1) w (.atom s) = .ok (s, []) := by
  simp [factNameArgs, walk]

end Yld.C07
