/-
  The statement `reference_eq_refbody` without well-formedness hypotheses is false.
  Run:  cd /tmp/equivproof && lake build Yld.Proofs.Activation && lake env lean ActivationCounterexample.lean
-/
import Yld.Proofs.Activation
open Yld

-- p(X,Y).
def cexFact : Pred := Pred.mk "p" 2 [Clause.mk [STerm.var "X", STerm.var "Y"] Body.tru]
-- p(X,Y) :- X = a, Y = b.
def cexRule : Pred := Pred.mk "p" 2 [Clause.mk [STerm.var "X", STerm.var "Y"]
  (Body.conj (Body.call "=" [STerm.var "X", STerm.atom "a"]) (Body.call "=" [STerm.var "Y", STerm.atom "b"]))]

def cexE (p : Pred) : Engine := { defs := builtinDefs ++ [("p_2", [Def.prolog p .reference])] }

-- query variables beyond the allocation counter (the default engine has w.next = 1000)
#eval ((cexE cexFact |>.withMode .reference).query .reference 100 "p" [.var 1001, .var 1000] .all).2
#eval ((cexE cexFact |>.withMode .refbody).query .refbody 100 "p" [.var 1001, .var 1000] .all).2
#eval ((cexE cexRule |>.withMode .reference).query .reference 100 "p" [.var 1001, .var 1000] .all).2
#eval ((cexE cexRule |>.withMode .refbody).query .refbody 100 "p" [.var 1001, .var 1000] .all).2
-- allocated query variables: the same answers
#eval ((cexE cexRule |>.withMode .reference).query .reference 100 "p" [.var 1, .var 0] .all).2
#eval ((cexE cexRule |>.withMode .refbody).query .refbody 100 "p" [.var 1, .var 0] .all).2
