"""Tie T1: the real compiler's output, parsed with Python's `ast`, in the S-expression form the
Lean model of the compiler emits. Whitespace, comments and quoting style do not matter; every
statement, loop, flag assignment, name and constant does."""
import ast
from .common import Sym


def expr(e):
    if isinstance(e, ast.Name):
        return [Sym('name'), e.id]
    if isinstance(e, ast.Constant):
        if e.value is True:
            return Sym('true')
        if e.value is False:
            return Sym('false')
        if isinstance(e.value, str):
            return [Sym('str'), e.value]
        if isinstance(e.value, int):
            return [Sym('int'), e.value]
        return [Sym('other'), repr(e.value)]
    if isinstance(e, ast.Call) and isinstance(e.func, ast.Name) and not e.keywords:
        return [Sym('call'), e.func.id] + [expr(a) for a in e.args]
    if isinstance(e, ast.List):
        return [Sym('list')] + [expr(a) for a in e.elts]
    return [Sym('other'), ast.dump(e)]


def stmt(s):
    if isinstance(s, ast.FunctionDef):
        a = s.args
        plain = not (a.vararg or a.kwarg or a.kwonlyargs or a.posonlyargs or a.defaults or s.decorator_list)
        return [Sym('def'), s.name, [x.arg for x in a.args] if plain else [Sym('other')], [stmt(x) for x in s.body]]
    if isinstance(s, ast.Assign) and len(s.targets) == 1 and isinstance(s.targets[0], ast.Name):
        return [Sym('assign'), s.targets[0].id, expr(s.value)]
    if isinstance(s, ast.For) and isinstance(s.target, ast.Name) and not s.orelse:
        return [Sym('for'), s.target.id, expr(s.iter), [stmt(x) for x in s.body]]
    if isinstance(s, ast.If) and not s.orelse:
        return [Sym('if'), expr(s.test), [stmt(x) for x in s.body]]
    if isinstance(s, ast.Expr) and isinstance(s.value, ast.Yield):
        return [Sym('yield'), expr(s.value.value) if s.value.value is not None else Sym('none')]
    if isinstance(s, ast.Return) and s.value is None:
        return [Sym('return')]
    if isinstance(s, ast.Break):
        return [Sym('break')]
    if isinstance(s, ast.Pass):
        return [Sym('pass')]
    return [Sym('other'), ast.dump(s)]


def module(text):
    tree = ast.parse(text)
    return [stmt(s) for s in tree.body]


# ---------------------------------------------------------------- C12 whitelist
ALLOWED_CALLEES = {'query', 'unify', 'atom', 'functor', 'makelist', 'listpair', 'variable'}
ALLOWED_GLOBAL_NAMES = {'ATOM_NIL'}


def whitelist_violations(text):
    """walks the real output's AST: only the node types and names the code generator is meant
    to produce. Returns a list of complaints."""
    bad = []
    tree = ast.parse(text)
    for top in tree.body:
        if not isinstance(top, ast.FunctionDef):
            bad.append('module-level statement: ' + type(top).__name__)
            continue
        if top.decorator_list or top.args.defaults or top.args.vararg or top.args.kwarg:
            bad.append('unexpected function signature in ' + top.name)
        params = {a.arg for a in top.args.args}
        assigned = set()
        for n in ast.walk(top):
            if isinstance(n, ast.Assign):
                for t in n.targets:
                    if isinstance(t, ast.Name):
                        assigned.add(t.id)
            if isinstance(n, ast.For) and isinstance(n.target, ast.Name):
                assigned.add(n.target.id)
        for n in ast.walk(top):
            if isinstance(n, (ast.FunctionDef, ast.arguments, ast.arg, ast.Assign, ast.For, ast.If, ast.Expr, ast.Yield,
                              ast.Return, ast.Break, ast.Pass, ast.Name, ast.Constant, ast.Call, ast.List, ast.Load, ast.Store)):
                pass
            else:
                bad.append('node type %s in %s' % (type(n).__name__, top.name))
            if isinstance(n, ast.Call):
                if not isinstance(n.func, ast.Name) or n.func.id not in ALLOWED_CALLEES:
                    bad.append('call of %s in %s' % (ast.dump(n.func), top.name))
                if n.keywords:
                    bad.append('keyword arguments in ' + top.name)
            if isinstance(n, ast.Name) and isinstance(n.ctx, ast.Load):
                if n.id not in params and n.id not in assigned and n.id not in ALLOWED_CALLEES and n.id not in ALLOWED_GLOBAL_NAMES:
                    bad.append('free name %s in %s' % (n.id, top.name))
            if isinstance(n, ast.Name) and isinstance(n.ctx, ast.Store):
                if n.id in ALLOWED_CALLEES or n.id in ALLOWED_GLOBAL_NAMES or n.id in ('True', 'False', 'None'):
                    bad.append('assignment to API name %s in %s' % (n.id, top.name))
    return bad
