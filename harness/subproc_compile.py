"""Child process for C18: performs a sequence of compilations and prints their outputs as JSON.
Run as: PYTHONHASHSEED=<n> python subproc_compile.py < job.json"""
import json, sys, io


def main():
    job = json.load(sys.stdin)
    import yldprolog.compiler as C

    class Sub(C.CompilerContext):
        debug_filename = True

    class SubGen(C.CompilerContext):
        debug_generator = True
        debug_parser = True
        outf = None

    class Plain:
        debug_filename = ''
        debug_parser = False
        debug_generator = False
        current_source_file = ''
        outf = None
    outs = []
    for kind, payload, opt in job['actions']:
        if kind == 'write':
            # (re)write a source file, keeping its time stamp: payload = [path, text]
            import os
            with open(payload[0], 'wb') as f:
                f.write(payload[1].encode('utf8'))
            os.utime(payload[0], ns=(1600000000 * 10**9, 1600000000 * 10**9))
            outs.append(['ok', ''])
            continue
        try:
            if opt == 'default':
                args = ()
            elif opt == 'sub-debug-filename':
                args = (Sub,)
            elif opt == 'sub-debug-all':
                SubGen.outf = io.StringIO()
                args = (SubGen,)
            else:
                args = (Plain,)
            if kind == 'string':
                r = C.compile_prolog_from_string(payload, *args)
            else:
                r = C.compile_prolog_from_file(payload, *args)
            if opt == 'sub-debug-all':
                r = SubGen.outf.getvalue() + r
            outs.append(['ok', r])
        except Exception as e:
            outs.append(['raise', type(e).__name__])
    json.dump(outs, sys.stdout)


main()
