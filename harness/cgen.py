"""Generator of source texts for the compiler-side properties (C10, C11, C12, C16, C18, C19):
programs over the whole documented syntax with boundary lexical forms."""
from . import src as S

PLAIN_ATOMS = ['a', 'b', 'foo', 'bar_1', 'x', 'nil', 'yield', 'return', 'def', 'pass', 'query', 'atom', 'variable', 'unify',
               'doBreak', 'cutIf1', 'l1', 'arg1', 'x1', 'high_yield', 'lambda', 'class', 'import', 'not', 'is']
QUOTED_ATOMS = ['hello world', 'True', 'None', 'Foo', "it's", 'a"b', '#', 'x = 1', '(', ')', '[]', '', ' ', '%d', '{0}', 'a.b', '1a',
                'line1\nline2', 'tab\there', 'cr\rhere', 'crlf\r\nhere', '五輪書', 'é', 'ß', ' sep', 'naïve yield', 'def f():',
                'import os', '__import__("os")', "'''", '"""', '\x00nul', '\x1b[0m', 'a\n  pass\nimport_me = 1\ndef y', 'true', 'fail',
                '\r# after cr', 'x\rPWNED = 1\r#', '$CUTIF', ':-', '.', ',', '|']
VAR_NAMES = ['X', 'Y', 'Z', 'Xs', 'XS', 'True', 'False', 'None', 'ATOM_NIL', 'Yield', 'Crop_yield', 'DoBreak', 'L1', 'Arg1', 'X1',
             'V_X', '_x', '_X1', '__builtins__', '__debug__', '_ab', '_Ab', '_aB', 'Query', 'A', 'B', 'Lambda', 'Def', 'Return']
PRED_NAMES = ['p', 'q', 'r', 'foo', 'member', 'yield', 'high_yield', 'query', 'atom', 'call_n', 'p_1', 'class', 'def', 'x1', 'l1', 'arg1',
              'doBreak', 'once', 'True', 'Foo', '五輪書', 'é', '__init', '__x', '_', '__']
BAD_PRED_NAMES = ['hello world', 'a.b', '1a', '', 'x(a):\n  pass\nimport_me = 1\ndef y', "it's", 'a-b', 'ﬁ']
NUMERALS = ['0', '1', '7', '42', '007', '00', '010', '123456789012345678901234567890']


class CGen:
    def __init__(self, rnd, hostile=0.3, ops=True, directives=0.1, bad_heads=0.0, nonascii_heads=0.1):
        self.rnd = rnd
        self.hostile = hostile
        self.ops = ops
        self.directives = directives
        self.bad_heads = bad_heads
        self.nonascii_heads = nonascii_heads
        # structures named by numerals, name/arity terms: in the grammar, and the compiler raises on them
        # only when it builds code for them - so they are mostly put where no code is built
        self.odd_terms = False

    def atom(self):
        r = self.rnd
        if r.random() < self.hostile:
            a = r.choice(QUOTED_ATOMS)
            if r.random() < 0.15:
                a = S.escaped_spelling(a, r)       # redundant backslashes in the source spelling
            return ('A', a)
        a = r.choice(PLAIN_ATOMS)
        return ('A', a, r.random() < 0.1)       # sometimes quoted although not necessary

    def var(self):
        r = self.rnd
        if r.random() < 0.12:
            return ('_',)
        return ('V', r.choice(VAR_NAMES))

    def term(self, depth=2):
        r = self.rnd
        x = r.random()
        if x < 0.3:
            return self.var()
        if x < 0.55 or depth <= 0:
            return self.atom()
        if x < 0.65:
            return ('N', r.choice(NUMERALS))
        if x < 0.66 and self.odd_terms:
            if r.random() < 0.6:
                return ('NF', r.choice(NUMERALS), [self.term(depth - 1) for _ in range(r.randint(0, 2))])
            return ('SL', r.choice(PLAIN_ATOMS), r.choice(NUMERALS))
        if x < 0.8:
            name = self.atom()[1]
            return ('F', name, [self.term(depth - 1) for _ in range(r.randint(0, 3))])
        if x < 0.88:
            return ('L', [self.term(depth - 1) for _ in range(r.randint(0, 3))])
        if x < 0.94:
            return ('P', [self.term(depth - 1) for _ in range(r.randint(1, 2))], self.var())
        if self.ops and x < 0.98:
            return ('OP', r.choice(S.BINOPS), self.term(depth - 1), self.term(depth - 1))
        if self.ops:
            return ('UOP', r.choice(['-', '+']), self.term(depth - 1))
        return self.atom()

    def pred_name(self, head=False):
        r = self.rnd
        if head:
            if r.random() < self.bad_heads:
                return r.choice(BAD_PRED_NAMES)
            names = [n for n in PRED_NAMES if n.isascii() or r.random() < self.nonascii_heads]
            return r.choice(names)
        if r.random() < self.hostile * 0.5:
            return r.choice(QUOTED_ATOMS)
        return r.choice(PRED_NAMES)

    def goal(self):
        r = self.rnd
        x = r.random()
        if x < 0.08:
            return 'tru'
        if x < 0.16:
            return 'fail'
        if x < 0.24:
            return 'cut'
        if x < 0.26 and self.odd_terms:
            return ('ncall', r.choice(NUMERALS), [self.term(1) for _ in range(r.randint(0, 2))])
        if x < 0.36 and self.ops:
            op = r.choice(S.BINOPS)
            return ('call', op, [self.term(1), self.term(1)], r.choice(['infix', 'infix', 'functional']))
        return ('call', self.pred_name(), [self.term(1) for _ in range(r.randint(0, 3))])

    def body(self, size):
        r = self.rnd
        if size <= 1:
            return self.goal()
        x = r.random()
        if x < 0.1:
            return ('neg', self.body(size - 1))
        if x < 0.16:
            # a part of the body for which the compiler builds no code
            saved, self.odd_terms = self.odd_terms, r.random() < 0.7
            try:
                dead = self.body(size - 1)
            finally:
                self.odd_terms = saved
            return r.choice([('conj', 'fail', dead), ('ite', 'fail', dead), ('conj', ('conj', 'cut', 'fail'), dead),
                             ('disj', ('ite', 'fail', dead), 'tru')])
        ls = r.randint(1, size - 1)
        k = r.choice(['conj', 'conj', 'conj', 'disj', 'ite'])
        return (k, self.body(ls), self.body(size - ls))

    def clause(self):
        r = self.rnd
        name = self.pred_name(head=True)
        self.odd_terms = r.random() < 0.03
        try:
            return self.clause_(name)
        finally:
            self.odd_terms = False

    def clause_(self, name):
        r = self.rnd
        args = [self.term(2) for _ in range(r.choice([0, 1, 1, 2, 2, 3]))]
        if r.random() < 0.4:
            return (name, args, 'tru')
        return (name, args, self.body(r.randint(1, 5)), True)

    def program(self, n=None):
        n = n or self.rnd.randint(1, 6)
        return [self.clause() for _ in range(n)]

    def text(self, clauses, decorate=True):
        """program text with random layout: comments, blank lines, redundant parentheses"""
        r = self.rnd
        parts = []
        for c in clauses:
            if decorate and r.random() < 0.15:
                parts.append('% a comment ' + r.choice(["with 'quote", 'plain', 'p(x).', '']) + '\n')
            if decorate and r.random() < self.directives:
                parts.append(':- ' + r.choice(['dynamic(foo)', 'initialization', 'foo(_)', 'true']) + '.\n')
            parts.append(S.clause_text(c, parens=r.choice(['min', 'min', 'rand', 'max']), rnd=r))
            parts.append(r.choice(['\n', '\n', '\n\n', ' ', '\r\n', '\t\n']))
        return ''.join(parts)


def long_conjunction(rnd, n, head_args=0, tail=None):
    """boundary shapes for the nesting limit: n goals, optional trailing goal"""
    goals = [('call', 'q', [])] * n
    if tail:
        goals = goals + [tail]
    body = goals[-1]
    for g in reversed(goals[:-1]):
        body = ('conj', g, body)
    return ('p', [('A', 'a')] * head_args, body, True)


def deep_term(depth, kind='f'):
    t = ('A', 'a')
    for _ in range(depth):
        t = ('F', 'f', [t]) if kind == 'f' else ('L', [t])
    return t


def nested_ite(depth):
    b = ('call', 'q', [])
    for _ in range(depth):
        b = ('disj', ('ite', ('call', 'q', []), b), ('call', 'q', []))
    return ('p', [], b, True)
