"""Generic driver for the properties that are decided on generated programs + queries:
C01, C03, C05, C06, C09, C20 share it with different generator knobs and schedules."""
from . import common, gen, scen, src as S, real as R
from .frame import Check
from .common import Sym


def source_to_model_row(args):
    """a source fact's argument list -> (nvars, model terms) with local variable numbering"""
    names = {}

    def go(t):
        k = t[0]
        if k == 'V':
            if t[1] not in names:
                names[t[1]] = len(names)
            return [Sym('v'), names[t[1]]]
        if k == '_':
            names[object()] = len(names)
            return [Sym('v'), len(names) - 1]
        if k == 'A':
            return [Sym('a'), t[1]]
        if k == 'N':
            return [Sym('i'), int(t[1])]
        if k == 'F':
            return [Sym('f'), t[1]] + [go(a) for a in t[2]]
        if k == 'L':
            return gen.mlist([go(a) for a in t[1]])
        if k == 'P':
            items = [go(a) for a in t[1]]
            tail = go(t[2])
            for it in reversed(items):
                tail = [Sym('f'), '.', it, tail]
            return tail
        raise ValueError(t)
    terms = [go(a) for a in args]
    return (len(names), terms)


def body_features(b, acc=None, pos='top'):
    acc = acc if acc is not None else set()
    if isinstance(b, str):
        if b == 'cut':
            acc.add('cut@' + pos)
        return acc
    k = b[0]
    if k == 'call':
        if b[1] in ('call', 'once', 'findall', '=', '\\='):
            acc.add(b[1])
        return acc
    if k == 'neg':
        acc.add('neg')
        body_features(b[1], acc, 'neg')
    elif k == 'conj':
        body_features(b[1], acc, pos)
        body_features(b[2], acc, pos)
    elif k == 'disj':
        if not isinstance(b[1], str) and b[1][0] == 'ite':
            acc.add('ite-else')
            body_features(b[1][1], acc, 'cond')
            body_features(b[1][2], acc, 'then' if pos != 'cond' else 'cond')
        else:
            acc.add('disj')
            body_features(b[1], acc, 'branch' if pos != 'cond' else 'cond')
        body_features(b[2], acc, ('branch' if pos not in ('cond',) else 'cond'))
    elif k == 'ite':
        acc.add('ite')
        body_features(b[1], acc, 'cond')
        body_features(b[2], acc, 'then' if pos != 'cond' else 'cond')
    return acc


_CFG = {}


def configure(prop, **kw):
    _CFG[prop] = kw


def case(rep, drv, rnd, i, tier):
    cfg = _CFG[rep.prop]
    g = gen.ProgGen(rnd, cfg['knobs'](rnd))
    prog = g.program()
    ops = [('load', 'overwrite', prog)]
    qs = g.queries(cfg.get('queries_per_prog', 3))
    for name, args in qs:
        ops.append(('query', name, ('all',), args))
    if cfg.get('sched_mode') == 'abandon':
        # every abandonment point of every query, by close(), by dropping and by a raising consumer
        try:
            res = drv.ask(R.scenario_model(ops, 'reference'))[1:]
        except common.ModelTimeout:
            rep.count('model-budget-exceeded-skipped')
            return
        extra = []
        for (name, args), r in zip(qs, res[1:]):
            na = min(scen.count_answers(r), 12)
            for k in range(0, na + 1):
                how = rnd.choice(['close', 'drop'])
                extra.append(('query', name, ('stop', k), args, how))
                if k >= 1 and rnd.random() < 0.5:
                    if rnd.random() < 0.4:
                        extra.append(('query', name, ('raise', k), args, 'throw'))
                        rep.count('exception-thrown-into-the-generator')
                    else:
                        extra.append(('query', name, ('raise', k), args))
                    rep.count('consumer-raises')
                rep.count('abandon-points')
            if na >= 1 and rnd.random() < 0.6:
                # evaluate_bounded whose projection function raises at the k-th answer
                extra.append(('eb', 3000, name, rnd.randint(1, na), args))
                rep.count('evaluate_bounded-projection-raises')
            # and the same query again: the answers must be the same as the first time
            extra.append(('query', name, ('all',), args))
        # a registered Python predicate that delegates to the engine's unification with `yield from`
        prows = [(0, [[Sym('a'), 'a']]), (1, [[Sym('f'), 'f', [Sym('v'), 0]]]), (0, [[Sym('a'), 'b']])][:rnd.randint(1, 3)]
        extra.append(('regpy', 'pydel', 1, prows, None, 'explicit', 'delegate'))
        for k in range(0, len(prows) + 1):
            extra.append(('query', 'pydel', rnd.choice([('raise', max(k, 1)), ('stop', k)]), [[Sym('v'), 0]], rnd.choice(['throw', 'close', 'drop'])))
        extra.append(('query', 'pydel', ('all',), [[Sym('v'), 0]]))
        # retractall binds nothing, whatever it removed
        for a_ in rnd.sample(['a', 'b', 'c'], rnd.randint(1, 3)):
            extra.append(('assert', 'seen', 'z', [[Sym('a'), a_]]))
        extra.append(('query', 'retractall', rnd.choice([('all',), ('stop', 1)]), [[Sym('f'), 'seen', [Sym('v'), 0]]]))
        extra.append(('query', 'seen', ('all',), [[Sym('v'), 0]]))
        # a builtin queried directly: `query` delegates straight to the generator of the unification
        t = rnd.choice([[Sym('a'), 'a'], [Sym('f'), 'f', [Sym('v'), 1], [Sym('a'), 'b']], [Sym('v'), 1]])
        extra.append(('query', '=', rnd.choice([('raise', 1), ('stop', 1), ('all',)]), [[Sym('v'), 0], t], rnd.choice(['throw', 'close', 'drop'])))
        extra.append(('query', '=', ('all',), [[Sym('v'), 0], [Sym('a'), 'again']]))
        ops = ops + extra
    v = scen.three_way(rep, drv, ops, 'case %d' % i)
    rep.count('programs')
    feats = set()
    for c in prog:
        feats |= body_features(c[2])
    for f in feats:
        rep.count('feature:' + f)
    if v in ('ok', 'model'):
        try:
            res = drv.ask(R.scenario_model(ops, 'reference'))[1:]
        except common.ModelTimeout:
            res = []
        for op, r in zip(ops, res):
            if op[0] == 'query' and op[2][0] == 'all':
                na = scen.count_answers(r)
                rep.count('answers=%s' % (na if na < 3 else '3+'))
                if na >= 1:
                    rep.nontriv(scen.norm([S.program_text(prog), op[1], op[3]]))
    if i < 3:
        rep.sample({'prolog': S.program_text(prog), 'queries': [scen.norm(list(o)) for o in ops[1:8]]})


def run(prop, tier, knobs_fn, n_quick, n_thorough, rule, sched_mode='all', queries_per_prog=3):
    from . import par
    n = n_quick if tier == 'quick' else n_thorough
    configure(prop, knobs=knobs_fn, sched_mode=sched_mode, queries_per_prog=queries_per_prog)
    with Check(prop, tier) as chk:
        par.run_cases(chk.rep, 'harness.progcheck', 'case', n)
        chk.finish(rule=rule)


def replay(payload):
    ops = scen.ops_from_json(payload['ops'])
    print('real     :', [scen.norm(x) for x in R.run_scenario(ops)])
    d = common.Driver()
    print('reference:', common.sx(d.ask(R.scenario_model(ops, 'reference'))))
    print('compiled :', common.sx(d.ask(R.scenario_model(ops, 'compiled'))))
