"""Running the real compiler and loader on a source text, and the model front end + compiler
on the same text (ties T1)."""
import ast, inspect, io
from . import common, pyast, real as R
from .common import Sym, sx
import yldprolog.engine as E
import yldprolog.compiler as C


def real_compile(text, debug=None):
    """('ok', code, debug_text) | ('raise', exception class name, message)"""
    class Ctx:
        debug_filename = bool(debug and debug.get('filename'))
        debug_parser = bool(debug and debug.get('parser'))
        debug_generator = bool(debug and debug.get('generator'))
        current_source_file = (debug or {}).get('source_file', 'input.prolog')
        outf = io.StringIO()
    try:
        code = C.compile_prolog_from_string(text, Ctx)
    except RecursionError:
        return ('raise', 'RecursionError', '')
    except Exception as e:
        return ('raise', type(e).__name__, str(e)[:200])
    return ('ok', code, Ctx.outf.getvalue())


def model_compile(drv, text):
    """('ok', nonascii?, stmts) | ('error', kind)"""
    m = drv.ask([Sym('compiletext'), text])
    if str(m[0]) == 'ok':
        return ('ok', str(m[1]) == 'nonascii', m[2:])
    return ('error', str(m[1]).split('.')[-1])


def model_front(drv, text):
    m = drv.ask([Sym('front'), text])
    if str(m[0]) == 'ok':
        return ('ok', str(m[1]) == 'nonascii', m[2:])
    return ('error', str(m[1]).split('.')[-1])


def heads_of(front_clauses):
    """{'name_arity': clause count} from the model front end's clause list"""
    out = {}
    for c in front_clauses:
        key = '%s_%d' % (c[1], len(c[2]))
        out[key] = out.get(key, 0) + 1
    return out


def load_check_same_path(code):
    """the code is written to a path from which the engine has loaded another script before (a recompiled
    output file, loaded again): None, or what is wrong with the definitions afterwards"""
    import tempfile, os
    fd, path = tempfile.mkstemp(prefix='yldverif', suffix='.py')
    try:
        with os.fdopen(fd, 'w', encoding='utf8') as f:
            f.write('def earlier_1(arg1):\n    if False:\n        yield False\n')
        yp = E.YP()
        yp.load_script_from_file(path)
        with open(path, 'w', encoding='utf8') as f:
            f.write(code)
        before = dict(yp.eval_context)
        try:
            yp.load_script_from_file(path)
        except Exception as e:
            return 'load_script_from_file raised %s: %s' % (type(e).__name__, str(e)[:100]), set()
        added = {k for k in yp.eval_context if k not in before or yp.eval_context[k] is not before[k]}
        added.discard('__builtins__')
        return None, added
    finally:
        os.unlink(path)


def load_check(code):
    """loads the code into a fresh engine; returns (problem or None, set of keys added)"""
    try:
        compile(code, '<generated>', 'exec')
    except (SyntaxError, ValueError, RecursionError, MemoryError) as e:
        return 'generated text is not loadable Python: %s: %s' % (type(e).__name__, str(e)[:100]), set()
    yp = E.YP()
    before = dict(yp.eval_context)
    try:
        yp.load_script_from_string(code)
    except Exception as e:
        return 'load_script_from_string raised %s: %s' % (type(e).__name__, str(e)[:100]), set()
    added = {k for k in yp.eval_context if k not in before}
    # a program may redefine a builtin predicate (its key is a name_arity key like any other);
    # it must never replace one of the API names handed to loaded code
    changed = {k for k in before if yp.eval_context[k] is not before[k] and k != '__builtins__'}
    api = [k for k in changed if k in yp.eval_blacklist and not (k[-1:].isdigit() or k.endswith('_n'))]
    if api:
        return 'loading replaced engine API names: %s' % sorted(api), added
    added |= changed
    if yp.eval_context.get('__builtins__') != {}:
        return 'loading changed __builtins__', added
    for k in added:
        f = yp.eval_context[k]
        if not inspect.isgeneratorfunction(f):
            return '%s is not a generator function' % k, added
    return None, added
