"""Three-way comparison of operation histories: real engine (real compiler output loaded into
the real engine) vs. the model of the compiled code vs. the reference semantics.

  real  = ref   is the property (answers, order, multiplicity, completion, no leftover binding)
  real  = comp  validates the model of the emitted code / engine (tie T2)
  comp  = ref   re-tests the compiler-correctness theorems on the executable definitions
"""
import traceback
from . import common, real as R, src as S
from .common import Sym, sx


def norm(x):
    return sx(x)


class Timeout(BaseException):
    """not an Exception: `except Exception` in the engine or the harness must not swallow it"""


def _alarm(signum, frame):
    raise Timeout()


def run_real(ops, budget_s=10.0):
    """run against the real code under a wall-clock budget (a query that never comes back is
    a finding for the properties that promise termination)"""
    import signal
    old = signal.signal(signal.SIGALRM, _alarm)
    signal.setitimer(signal.ITIMER_REAL, budget_s)
    try:
        return R.run_scenario(ops), None
    except Timeout:
        return None, 'timeout: the real engine did not finish within %.0f s' % budget_s
    except RecursionError:
        return None, 'RecursionError'
    except Exception as e:
        return None, ''.join(traceback.format_exception_only(type(e), e)).strip()
    finally:
        signal.setitimer(signal.ITIMER_REAL, 0)
        signal.signal(signal.SIGALRM, old)


def _hit_limit(real, err):
    if err == 'RecursionError':
        return True
    if real is None:
        return False
    for r in real:
        try:
            if len(r) > 2 and sx(r[2]) == 'oof':
                return True
        except TypeError:
            pass
    return False


def run_real_robust(ops, rep=None):
    """like run_real; when the interpreter's own recursion limit (1000 frames) ends a query, the
    history is run again from scratch with a limit of 8000: no property promises that a deep but
    finite structure (a result list of several hundred elements, say) fits into CPython's default
    limit, and the model does not count frames. A search that is still cut at 8000 frames is
    reported as it is (and judged: the model must then run out of fuel too)."""
    import sys
    real, err = run_real(ops)
    if err is not None and err.startswith('timeout'):
        # wall-clock budgets depend on what else the machine is doing: before a history counts as "does not
        # finish" it gets a second run with six times the budget
        real, err = run_real(ops, budget_s=60.0)
        if rep is not None:
            rep.count('slow-history-rerun-with-60s')
    if _hit_limit(real, err):
        old = sys.getrecursionlimit()
        sys.setrecursionlimit(max(old, 8000))
        try:
            real2, err2 = run_real(ops, budget_s=30.0)
        finally:
            sys.setrecursionlimit(old)
        if not _hit_limit(real2, err2):
            if rep is not None:
                rep.count('interpreter-recursion-limit-rerun-with-8000')
            return real2, err2
    return real, err


_T1_SEEN = {}


def t1(drv, text):
    """None, or how the real compiler's output for `text` differs from the model compiler's"""
    if text in _T1_SEEN:
        return _T1_SEEN[text]
    from . import comp as CP, pyast
    out = None
    real = CP.real_compile(text)
    try:
        model = CP.model_compile(drv, text)
    except common.ModelTimeout:
        return None
    if real[0] == 'ok' and model[0] == 'ok':
        if sx(pyast.module(real[1])) != sx(model[2]):
            out = 'T1 emitted Python differs from the model of the compiler'
    elif real[0] != 'ok' and model[0] == 'ok' and not model[1]:
        out = 'T1 real compiler rejects what the model accepts'
    elif real[0] == 'ok' and model[0] != 'ok':
        out = 'T1 real compiler accepts what the model rejects'
    if len(_T1_SEEN) > 2000:
        _T1_SEEN.clear()
    _T1_SEEN[text] = out
    return out


def three_way(rep, drv, ops, label, fuel=4000, skip_ref_ops=()):
    """Runs one scenario. Returns 'ok', 'property' (real disagrees with the reference: a
    property violation, already reported), 'model' (real agrees with the reference on every
    observation but the model of the code does not), 'crash'."""
    rep.evaluations += 1
    real, err = run_real_robust(ops, rep)
    texts = [S.program_text(op[2]) for op in ops if op[0] == 'load']
    if err is not None and err.startswith('timeout'):
        # not finishing is a violation only if the search is small: the model must finish it easily
        try:
            t0 = __import__('time').time()
            m = drv.ask(R.scenario_model(ops, 'reference', fuel))
            if 'oof' in sx(m) or __import__('time').time() - t0 > 3.0:
                rep.count('both-exceed-budget-skipped')
                return 'skipped'
        except common.ModelTimeout:
            rep.count('both-exceed-budget-skipped')
            return 'skipped'
    if err is not None:
        rep.violation({'kind': 'real code raised', 'error': err, 'ops': ops_json(ops), 'prolog': texts, 'label': label},
                      known_key=None)
        return 'crash'
    try:
        ref = drv.ask(R.scenario_model(ops, 'reference', fuel))
        comp = drv.ask(R.scenario_model(ops, 'compiled', fuel))
        # the queried predicate's function run from its printed Python text by the model of Python
        pyt = drv.ask(R.scenario_model(ops, 'python', fuel))
    except common.ModelTimeout:
        rep.count('model-budget-exceeded-skipped')
        return 'skipped'
    if ref == Sym('bad-op') or comp == Sym('bad-op'):
        raise RuntimeError('driver rejected scenario: ' + sx(R.scenario_model(ops, 'reference', fuel))[:2000])
    ref = ref[1:]
    comp = comp[1:]
    pyt = pyt[1:] if pyt != Sym('bad-op') else None
    verdict = 'ok'
    # tie T1 on every program of the history: the text the real compiler emits is the model's
    for text in texts:
        tie = t1(drv, text)
        if tie:
            rep.disagreements_checked += 1
            rep.broken_ties.append({'tie': tie, 'label': label, 'text': text})
            verdict = 'model'
    flat_ops = []
    for op in ops:
        flat_ops.append(op)
        if op[0] == 'query_load':
            flat_ops.append(('load-after-suspended-query',))
        if op[0] == 'prebuilt':
            flat_ops.append(('query-built-before-the-previous-operation',))
    for i, op in enumerate(flat_ops):
        r, f, c = norm(real[i]), norm(ref[i]), norm(comp[i])
        if 'oof' in f or 'oof' in c:
            # out of fuel in the model / unspecified depth: later operations may see other side effects
            rep.count('fuel-exhausted-skipped')
            break
        if f.endswith('cyclic)') or c.endswith('cyclic)'):
            # a binding X := t with X inside t was made: unspecified (no occurs check); the real
            # engine may abort such a query half-way, so the rest of the history is not comparable
            rep.count('cyclic-term-skipped')
            break
        if r != f:
            rep.disagreements_checked += 1
            rep.violation({'kind': 'answers differ from the reference semantics', 'label': label, 'op_index': i,
                           'op': ops_json([op])[0], 'real': r, 'reference': f, 'model_of_code': c,
                           'ops': ops_json(ops), 'prolog': texts})
            return 'property'
        if r != c:
            verdict = 'model'
            rep.disagreements_checked += 1
            rep.broken_ties.append({'tie': 'T2 model-of-compiled-code vs real', 'label': label, 'op_index': i,
                                    'real': r, 'model_of_code': c, 'ops': ops_json(ops), 'prolog': texts})
        if pyt is not None and 'oof' not in norm(pyt[i]) and r != norm(pyt[i]):
            verdict = 'model'
            rep.disagreements_checked += 1
            rep.broken_ties.append({'tie': 'T2p model of Python running the emitted text vs real', 'label': label, 'op_index': i,
                                    'real': r, 'model_python': norm(pyt[i]), 'ops': ops_json(ops), 'prolog': texts})
    else:
        if verdict == 'ok':
            # tie T5: code and model agree with each other; do they agree with Prolog?
            from . import indep
            d = indep.compare(rep, ops, real)
            if d is not None:
                rep.disagreements_checked += 1
                d.update({'kind': 'answers differ from an independent textbook Prolog interpreter (the model of the '
                                  'reference semantics agrees with the code)', 'label': label, 'ops': ops_json(ops), 'prolog': texts})
                rep.violation(d)
                return 'property'
    return verdict


def ops_json(ops):
    def conv(x):
        if isinstance(x, Sym):
            return {'sym': str(x)}
        if isinstance(x, (list, tuple)):
            return [conv(y) for y in x]
        return x
    return [conv(op) for op in ops]


def ops_from_json(j):
    def conv(x):
        if isinstance(x, dict) and 'sym' in x:
            return Sym(x['sym'])
        if isinstance(x, list):
            return tuple(conv(y) for y in x) if False else [conv(y) for y in x]
        return x
    out = []
    for op in j:
        op = conv(op)
        out.append(tuple(op))
    return out


def count_answers(result):
    """number of answers in a (q ANSWERS END BOUND) result"""
    try:
        return len(result[1])
    except Exception:
        return 0
