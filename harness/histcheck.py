"""Generic driver for the properties decided on operation histories (C07, C08, C13, C14)."""
from . import common, scen, src as S, real as R
from .frame import Check


_CFG = {}


def case(rep, drv, rnd, i, tier):
    make_history = _CFG[rep.prop]
    ops = make_history(rnd, rep)
    v = scen.three_way(rep, drv, ops, 'history %d' % i)
    rep.count('histories')
    rep.count('operations', len(ops))
    for op in ops:
        rep.count('op:' + op[0] + (':' + op[1] if op[0] == 'query' and op[1] in (
            'assertz', 'asserta', 'retract', 'retractall', 'az', 'aa', 'rt', 'ra') else ''))
    if v in ('ok', 'model'):
        try:
            res = drv.ask(R.scenario_model(ops, 'reference'))[1:]
        except common.ModelTimeout:
            res = []
        key = scen.norm([list(o[:2]) for o in ops if o[0] != 'query' or o[1] not in ('d0', 'd1', 'd2', 'never', 'p', 'd', 'e', 'seen')]) \
            + scen.norm(res[-3:])
        if any(scen.count_answers(r) for o, r in zip(ops, res) if o[0] == 'query'):
            rep.nontriv(key)
    if i < 2:
        rep.sample({'ops': [scen.norm(list(o)) if o[0] != 'load' else 'load:\n' + S.program_text(o[2]) for o in ops[:12]]})


def run(prop, tier, make_history, n_quick, n_thorough, rule):
    from . import par
    n = n_quick if tier == 'quick' else n_thorough
    _CFG[prop] = make_history
    with Check(prop, tier) as chk:
        par.run_cases(chk.rep, 'harness.histcheck', 'case', n)
        chk.finish(rule=rule)


def replay(payload):
    ops = scen.ops_from_json(payload['ops'])
    print('real     :', [scen.norm(x) for x in R.run_scenario(ops)])
    d = common.Driver()
    print('reference:', common.sx(d.ask(R.scenario_model(ops, 'reference'))))
    print('compiled :', common.sx(d.ask(R.scenario_model(ops, 'compiled'))))
