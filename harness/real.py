"""Runs scenarios (operation histories) against the real yldprolog engine and compiler,
in-process, and reports canonical results in the same shape as the model driver."""
import gc, sys, os
from . import common
from .common import Sym
from . import src as S

import yldprolog.engine as E
import yldprolog.compiler as C


class ConsumerError(Exception):
    pass


class UserError(Exception):
    pass


# what a user's function may raise: the object that arrives at the consumer must be the one raised
_USER_EXC_CLASSES = [UserError, TypeError, ValueError, KeyError, AssertionError, ZeroDivisionError, LookupError, OSError,
                     E.YPException, AttributeError, IndexError]
_RAISED = []
_ROTATE = [0]


def user_exception(tag):
    # every class gets its turn (the class used to depend on the tag alone: some were almost never raised)
    _ROTATE[0] += 1
    cls = _USER_EXC_CLASSES[(sum(map(ord, tag)) + _ROTATE[0]) % len(_USER_EXC_CLASSES)]
    e = cls(tag)
    del _RAISED[:-20]
    _RAISED.append(e)
    _RAISED_ARGS[id(e)] = (e, e.args, str(e))
    for k in list(_RAISED_ARGS)[:-40]:
        del _RAISED_ARGS[k]
    return e


_RAISED_ARGS = {}


def is_user_exception(e):
    """the object that was raised - and still saying what it said"""
    if not any(e is x for x in _RAISED):
        return False
    rec = _RAISED_ARGS.get(id(e))
    return rec is None or (rec[0] is e and e.args == rec[1] and str(e) == rec[2])


class Ctx:
    debug_filename = ''
    debug_parser = False
    debug_generator = False
    current_source_file = ''
    outf = None


def compile_text(text):
    """compile_prolog_from_string, or - for a quarter of the texts and for every text with a carriage
    return in it - compile_prolog_from_file on a file holding exactly these characters (UTF-8): the two
    entry points denote the same program"""
    if '\r' in text or len(text) % 4 == 1:
        import tempfile
        fd, path = tempfile.mkstemp(prefix='yldverif', suffix='.prolog')
        try:
            with os.fdopen(fd, 'wb') as f:
                f.write(text.encode('utf8'))

            class FileCtx(Ctx):
                current_source_file = path
                outf = None
            return C.compile_prolog_from_file(path, FileCtx)
        finally:
            os.unlink(path)
    return C.compile_prolog_from_string(text, Ctx)


# ---------------------------------------------------------------- terms
def build_term(yp, t, vars_):
    """model-level term (sexp lists) -> engine term; ('v', n) are shared variables."""
    k = str(t[0])
    if k == 'v':
        n = int(t[1])
        if n not in vars_:
            vars_[n] = yp.variable()
        return vars_[n]
    if k == 'a':
        if t[1].startswith('$py:'):
            # a Python value used as a constant (None, a str): in the model an atom with a reserved spelling
            # (a new, equal object every time: equal constants unify whether or not they are the same object)
            return {'$py:None': lambda: None, "$py:'txt'": lambda: ''.join(['t', 'xt']),
                    '$py:Fraction(1, 2)': lambda: __import__('fractions').Fraction(1, 2), "$py:b'x'": lambda: bytes([120])}[t[1]]()
        return yp.atom(t[1])
    if k == 'i':
        return int(t[1])
    if k == 'f':
        return yp.functor(t[1], [build_term(yp, a, vars_) for a in t[2:]])
    raise ValueError(t)


def canon_terms(terms):
    """resolved engine terms -> sexp lists with variables numbered by first occurrence"""
    return _canon_terms(terms)


def _canon_terms(terms):
    ids = {}

    def go(t):
        t = E.get_value(t)
        if isinstance(t, E.Variable):
            if id(t) not in ids:
                ids[id(t)] = (len(ids), t)
            return [Sym('v'), ids[id(t)][0]]
        if isinstance(t, E.Atom):
            return [Sym('a'), t.name()]
        if isinstance(t, E.Functor):
            return [Sym('f'), t._name] + [go(a) for a in t._args]
        if isinstance(t, bool):
            return [Sym('pybool'), str(t)]
        if isinstance(t, int):
            return [Sym('i'), t]
        return [Sym('a'), '$py:' + repr(t)]
    return [go(t) for t in terms]


def _variables_of(terms):
    """id -> Variable for the unbound variables reachable from the terms (the objects are kept, so that
    an id is not reused while it is remembered)"""
    out = {}

    def go(t):
        t = E.get_value(t)
        if isinstance(t, E.Variable):
            out[id(t)] = t
        elif isinstance(t, E.Functor):
            for a in t._args:
                go(a)
    for t in terms:
        go(t)
    return out


def flatten_terms(ts):
    out = []

    def go(t):
        out.append(t)
        if str(t[0]) == 'f':
            for a in t[2:]:
                go(a)
    for t in ts:
        go(t)
    return out


def is_bound(v):
    """through the public behaviour of a variable (its representation is the engine's business)"""
    return E.get_value(v) is not v


def bound_count():
    return sum(1 for v in list(E._verif_variables) if is_bound(v))


def exn_name(e):
    if is_user_exception(e):
        return [Sym('exn'), 'UserError']
    if isinstance(e, RecursionError):
        return Sym('oof')
    if isinstance(e, E.YPException):
        return [Sym('exn'), 'YPException']
    if isinstance(e, UserError):
        return [Sym('exn'), 'UserError']
    if isinstance(e, ConsumerError):
        return [Sym('exn'), 'ConsumerError']
    return [Sym('exn'), type(e).__name__]


# ---------------------------------------------------------------- python predicates
def make_pypred(yp, rows, raise_at, yield_val=False, nparams=None, star=False, default_last=False):
    """A generator function that behaves like the facts `rows` (each row: (nvars, [terms]))."""
    def impl(*args):
        for i, (nv, terms) in enumerate(rows):
            if raise_at == i:
                raise user_exception('row %d of %d' % (i, len(rows)))
            vs = {}
            row = [build_term(yp, t, vs) for t in terms]
            if yield_val == 'delegate':
                # the user's generator hands the engine's own generator on: whatever is thrown into the
                # query (close, an exception) arrives inside the unification itself
                if len(row) == 1 and len(args) == 1:
                    yield from E.unify(args[0], row[0])
                else:
                    yield from E.unify_arrays(list(args), row)
                continue
            for _ in E.unify_arrays(list(args), row):
                yield yield_val
        if raise_at == len(rows):
            raise user_exception('end of %d' % len(rows))
    if nparams is None:
        return impl
    if default_last and nparams >= 1:
        names = ['a%d' % i for i in range(nparams)]
        return eval('lambda %s: impl(%s)' % (','.join(names[:-1] + [names[-1] + '=None']), ','.join(names)), {'impl': impl})
    if star and nparams >= 1:
        names = ','.join(['a%d' % i for i in range(nparams - 1)] + ['*rest'])
        return eval('lambda %s: impl(%s)' % (names, names), {'impl': impl})
    names = ','.join('a%d' % i for i in range(nparams))
    return eval('lambda %s: impl(%s)' % (names, names), {'impl': impl})


_SCRIPT_DIR = []
_SCRIPT_LOCK = __import__('threading').Lock()


def cleanup_scripts():
    import shutil
    while _SCRIPT_DIR:
        shutil.rmtree(_SCRIPT_DIR.pop(), True)


def _script_path(k):
    if not _SCRIPT_DIR:
        import tempfile, atexit, shutil
        d = tempfile.mkdtemp(prefix='yldverif-scripts-')
        _SCRIPT_DIR.append(d)
        atexit.register(cleanup_scripts)
    return '%s/script%d.py' % (_SCRIPT_DIR[0], k)


class RealEngine:
    def __init__(self):
        self.yp = E.YP()
        self.vars = {}

    def term(self, t):
        return build_term(self.yp, t, self.vars)

    # -- operations ------------------------------------------------------------
    def load(self, clauses, overwrite=True, fail=False):
        text = S.program_text(clauses)
        if len(text) % 3 == 0:
            # the same program written with parentheses around every compound body: the real compiler
            # reads the text, the model gets the structure, so the reading of redundant parentheses
            # ( `((C -> T) ; E)` is an if-then-else ) is part of what is compared
            code = compile_text(S.program_text(clauses, parens='max'))
        else:
            code = compile_text(text)
        if fail:
            code = code + '\nthis_name_is_not_defined\n'
            try:
                self.yp.load_script_from_string(code, overwrite=overwrite)
            except NameError:
                return Sym('ok')
            return Sym('load-did-not-fail')
        if len(text) % 2:
            # through a file: the same two paths are rewritten and loaded again and again, by every engine
            path = _script_path(len(text) // 2 % 2)
            with _SCRIPT_LOCK:      # write + load is one step of the history, also when engines run on threads
                with open(path, 'w') as f:
                    f.write(code)
                self.yp.load_script_from_file(path, overwrite=overwrite)
        else:
            self.yp.load_script_from_string(code, overwrite=overwrite)
        return Sym('ok')

    def regpy(self, name, arity, rows, raise_at, style='explicit', yield_val=False):
        """arity None = variadic. style: explicit | inferred"""
        if arity is None:
            f = make_pypred(self.yp, rows, raise_at, yield_val)
            self.yp.register_function(name, f, arity=-1)
        elif style == 'inferred':
            f = make_pypred(self.yp, rows, raise_at, yield_val, nparams=arity)
            self.yp.register_function(name, f)
        elif style == 'partial':
            # a callable that is not a plain function (functools.partial of a generator function)
            import functools
            f = functools.partial(make_pypred(self.yp, rows, raise_at, yield_val))
            self.yp.register_function(name, f, arity=arity)
        elif style == 'inferred-default':
            # `def f(a1, .., an=None)`: a parameter with a default value is a parameter
            f = make_pypred(self.yp, rows, raise_at, yield_val, nparams=arity, default_last=True)
            self.yp.register_function(name, f)
        elif style == 'inferred-star':
            # `def f(a1, .., *rest)`: the arity is the number of parameters, the starred one included
            f = make_pypred(self.yp, rows, raise_at, yield_val, nparams=arity, star=True)
            self.yp.register_function(name, f)
        else:
            f = make_pypred(self.yp, rows, raise_at, yield_val)
            self.yp.register_function(name, f, arity=arity)
        return Sym('ok')

    def assert_fact(self, name, terms, append=True):
        # an atom denotes by its name: the predicate name may be an atom object of another engine
        # (one call in three), the facts belong to this engine all the same
        self._asserts = getattr(self, '_asserts', 0) + 1
        name_atom = E.YP().atom(name) if self._asserts % 3 == 0 else self.yp.atom(name)
        try:
            self.yp.assert_fact(name_atom, [self.term(t) for t in terms], append)
        except Exception as e:
            return exn_name(e)
        return Sym('ok')

    def clear(self):
        self.yp.clear()
        return Sym('ok')

    def query(self, name, terms, sched=('all',), how='close'):
        args = [self.term(t) for t in terms]
        own = _variables_of(args)          # the caller's own unbound variables may of course recur
        answers = []
        saved = []        # the documented idiom: [v.get_value() for _ in q], read after the query
        ending = Sym('done')
        kind = sched[0]
        k = sched[1] if len(sched) > 1 else None
        q = self.yp.query(name, args)
        try:
            if kind in ('stop', 'raise') and k == 0:
                ending = Sym('stop') if kind == 'stop' else [Sym('exn'), 'ConsumerError']
                if how == 'close':
                    q.close()
            else:
                for _ in q:
                    answers.append(canon_terms(args))
                    saved.append([E.get_value(a) for a in args])
                    if kind == 'stop' and len(answers) >= k:
                        ending = Sym('stop')
                        if how == 'close':
                            q.close()
                        break
                    if kind == 'raise' and len(answers) >= k:
                        if how == 'throw':
                            # the exception is thrown *into* the suspended generator (generator.throw):
                            # it must come out again, every pending finally having run
                            try:
                                q.throw(ConsumerError())
                            except StopIteration:
                                pass
                            ending = [Sym('exn'), 'exception thrown into the query was swallowed']
                            break
                        raise ConsumerError()
        except ConsumerError as e:
            ending = exn_name(e)
        except Exception as e:
            ending = exn_name(e)
            # the traceback keeps the abandoned frames alive
            e.__traceback__ = None
            del e
        del q
        gc.collect()
        res = [Sym('q'), answers, ending, bound_count()]
        # C13/C15: the answers of a query are copies of its own - apart from the caller's variables, a
        # variable left open in a saved answer of this query occurs in no saved answer of an earlier query
        # (within one query, answers that differ only in a later choice do share the earlier part)
        pool = self.__dict__.setdefault('_saved_pool', [])
        mine = {}
        for sv in saved:
            mine.update({k: v for k, v in _variables_of(sv).items() if k not in own})
        if any(k in old for old in pool for k in mine):
            res.append([Sym('saved-answers-share-variables-with-an-earlier-query')])
        if mine:
            pool.append(mine)
        del pool[:-30]
        # C15: a ground answer saved during the enumeration denotes the same term afterwards
        for a, sv in zip(answers, saved):
            if 'v' not in [str(x[0]) for x in flatten_terms(a)]:
                late = canon_terms(sv)
                if common.sx(late) != common.sx(a):
                    res.append([Sym('saved-value-changed'), a, late])
        return res

    def api_make(self, kind, terms):
        """the iterator of a module-level unify() or of a builtin called as a method of the engine;
        what it needs is evaluated when it is created, its answers are produced when it is consumed"""
        args = [self.term(t) for t in terms]
        if kind == '=':
            return args, E.unify(args[0], args[1])
        return args, getattr(self.yp, kind)(*args)

    def api_iter(self, kind, terms, it=None, count=True):
        if it is None:
            args, it = self.api_make(kind, terms)
        else:
            args, it = it
        answers = []
        ending = Sym('done')
        try:
            for _ in it:
                answers.append(canon_terms(args))
        except Exception as e:
            ending = exn_name(e)
        del it
        if not count:
            return [Sym('q'), answers, ending, 0]      # (the weak set of variables is process-wide: not under threads)
        gc.collect()
        return [Sym('q'), answers, ending, bound_count()]

    def query_load(self, name, terms, k, how, clauses):
        """take k answers of a query, load a script while it is suspended, take the rest"""
        args = [self.term(t) for t in terms]
        answers = []
        q = self.yp.query(name, args)
        loaded = False
        ending = Sym('done')
        try:
            for _ in q:
                answers.append(canon_terms(args))
                if len(answers) == k and not loaded:
                    self.load(clauses, overwrite=(how == 'overwrite'))
                    loaded = True
        except Exception as e:
            ending = exn_name(e)
        if not loaded:
            self.load(clauses, overwrite=(how == 'overwrite'))
        del q
        gc.collect()
        return [[Sym('q'), answers, ending, bound_count()], Sym('ok')]

    def evaluate_bounded(self, limit, name, terms, raise_at, nested=None):
        """nested = (limit2, name2, terms2): the projection itself runs a bounded query on this engine
        (its results and the limits seen around it are appended to nested[3])"""
        args = [self.term(t) for t in terms]
        calls = [0]

        def proj(x):
            calls[0] += 1
            if nested is not None:
                inner, lims = self.evaluate_bounded(nested[0], nested[1], nested[2], None)
                nested[3].append((inner, lims))
            if raise_at is not None and calls[0] >= raise_at:
                raise user_exception('projection %d' % calls[0])
            v = E.get_value(args[0]) if args else None
            if isinstance(v, int) and not isinstance(v, bool) and v > 50:
                _countdown(v)      # a projection that needs stack of its own, in proportion to the answer
            return canon_terms(args)
        before = sys.getrecursionlimit()
        q = self.yp.query(name, args)
        ending = Sym('done')
        answers = []
        try:
            answers = self.yp.evaluate_bounded(q, proj, recursion_limit=limit)
        except Exception as e:
            ending = [Sym('exn'), 'ConsumerError'] if is_user_exception(e) and str(e.args[0]).startswith('projection') else exn_name(e)
        after = sys.getrecursionlimit()
        b1 = bound_count()        # while the caller still holds q
        del q
        gc.collect()
        return [Sym('q'), answers, ending, b1], (before, after)


def _countdown(n):
    return 0 if n <= 0 else 1 + _countdown(n - 1)


def run_op(eng, op):
    k = op[0]
    if k == 'load':
        return eng.load(op[2], overwrite=(op[1] == 'overwrite'))
    if k == 'loadfail':
        return eng.load(op[1], fail=True)
    if k == 'regpy':
        _, name, arity, rows, raise_at, style, yv = op
        return eng.regpy(name, arity, rows, raise_at, style, yv)
    if k == 'assert':
        return eng.assert_fact(op[1], op[3], append=(op[2] == 'z'))
    if k == 'clear':
        return eng.clear()
    if k == 'query':
        how = op[4] if len(op) > 4 else 'close'
        return eng.query(op[1], op[3], op[2], how)
    if k == 'eb':
        return eng.evaluate_bounded(op[1], op[2], op[4], op[3])[0]
    if k == 'apiq':
        return eng.api_iter(op[1], op[2])
    if k == 'compilefail':
        # a compilation that dies half-way (in the clause compiler): nothing of it may stay behind, for
        # this engine or any other
        try:
            compile_text(op[1])
        except Exception:
            return Sym('ok')
        return Sym('compile-did-not-fail')
    if k == 'query_load':
        return eng.query_load(op[1], op[2], op[3], op[4], op[5])
    if k == 'prebuilt':
        # "the query will only be constructed, but not evaluated": the query object is made first, another
        # operation follows, then the query is enumerated - it is a call made at its first step
        args = [eng.term(t) for t in op[2]]
        q = eng.yp.query(op[1], args)
        first = run_op(eng, op[3])
        answers = []
        ending = Sym('done')
        try:
            for _ in q:
                answers.append(canon_terms(args))
        except Exception as e:
            ending = exn_name(e)
        del q
        gc.collect()
        return [first, [Sym('q'), answers, ending, bound_count()]]
    raise ValueError(op)


def run_scenario(ops):
    """ops: list of tuples, see checks. Returns list of results (sexp values)."""
    eng = RealEngine()
    out = []
    for op in ops:
        r = run_op(eng, op)
        if op[0] in ('query_load', 'prebuilt'):
            out.extend(r)          # two results
        else:
            out.append(r)
    return out


def scenario_model(ops, mode, fuel=4000):
    """the same scenario as a driver command"""
    enc = []
    for op in ops:
        k = op[0]
        if k == 'load':
            enc.append([Sym('load'), Sym(op[1])] + S.program_model(op[2]))
        elif k == 'loadfail':
            enc.append([Sym('loadfail')] + S.program_model(op[1]))
        elif k == 'regpy':
            _, name, arity, rows, raise_at, style, yv = op
            enc.append([Sym('regpy'), name, Sym('n') if arity is None else arity,
                        [[nv] + list(ts) for nv, ts in rows],
                        Sym('none') if raise_at is None else raise_at])
        elif k == 'assert':
            enc.append([Sym('assert'), op[1], Sym(op[2])] + list(op[3]))
        elif k == 'clear':
            enc.append([Sym('clear')])
        elif k == 'query':
            sched = op[2]
            s = Sym('all') if sched[0] == 'all' else [Sym(sched[0]), sched[1]]
            enc.append([Sym('query'), op[1], s] + list(op[3]))
        elif k == 'eb':
            enc.append([Sym('eb'), op[1], op[2], Sym('none') if op[3] is None else op[3]] + list(op[4]))
        elif k == 'apiq':
            enc.append([Sym('query'), op[1], Sym('all')] + list(op[2]))
        elif k == 'compilefail':
            enc.append([Sym('loadfail')])
        elif k == 'prebuilt':
            enc.extend(scenario_model([op[3]], mode, fuel)[3:])
            enc.append([Sym('query'), op[1], Sym('all')] + list(op[2]))
        elif k == 'query_load':
            # a call resolves at the moment it is made: the load performed while the query is
            # suspended does not change its answers; afterwards the load is in force
            enc.append([Sym('query'), op[1], Sym('all')] + list(op[2]))
            enc.append([Sym('load'), Sym(op[4]), ] + S.program_model(op[5]))
        else:
            raise ValueError(op)
    return [Sym('scenario'), Sym(mode), fuel] + enc
