"""Source-level Prolog ASTs used by the generators: printing to Prolog text (for the real
compiler) and encoding for the model driver.

Terms:  ('V', name) | ('_',) | ('A', text) | ('N', digits) | ('F', name, [args]) |
        ('L', [items]) | ('P', [items], tailvar)      tailvar = ('V', n) or ('_',)
        ('OP', op, l, r)  infix BINOP term, ('UOP', op, t) prefix UNOP term
Bodies: 'tru' | 'fail' | 'cut' | ('call', name, [args]) | ('conj', a, b) | ('disj', a, b) |
        ('ite', c, t) | ('neg', a)
Clause: (name, [head args], body)
"""
import re
from .common import Sym

BARE_ATOM = re.compile(r'[a-z][A-Za-z0-9_]*\Z')
BINOPS = ['=', '\\=', '==', '\\==', '<', '>', '=<', '>=']


class Raw(str):
    """an atom with a chosen source spelling: the value is the atom's text, `.raw` what is written"""
    def __new__(cls, value, raw):
        o = str.__new__(cls, value)
        o.raw = raw
        return o


def escaped_spelling(s, rnd, p=0.25):
    """quoted spelling with redundant backslashes (unquoting drops every backslash)"""
    out = ["'"]
    for ch in s:
        if ch == "'":
            out.append("\\'")
        else:
            if rnd.random() < p:
                out.append('\\')
            out.append(ch)
    out.append("'")
    return Raw(s, ''.join(out))


def atom_text(s, force_quote=False):
    if isinstance(s, Raw):
        return s.raw
    if not force_quote and BARE_ATOM.match(s) and s not in ('true', 'fail'):
        return s
    if '\\' in s:
        raise ValueError('backslash cannot be written in an atom')
    return "'" + s.replace("'", "\\'") + "'"


def term_text(t, rnd=None):
    k = t[0]
    if k == 'V':
        return t[1]
    if k == '_':
        return '_'
    if k == 'A':
        return atom_text(t[1], len(t) > 2 and t[2])
    if k == 'N':
        return t[1]
    if k == 'F':
        return atom_text(t[1]) + '(' + ','.join(term_text(a) for a in t[2]) + ')'
    if k == 'NF':
        # the grammar's `atom` includes NUMERAL: a structure named by a numeral
        return t[1] + '(' + ','.join(term_text(a) for a in t[2]) + ')'
    if k == 'SL':
        return atom_text(t[1]) + '/' + t[2]          # term : ATOM '/' NUMERAL
    if k == 'L':
        return '[' + ','.join(term_text(a) for a in t[1]) + ']'
    if k == 'P':
        return '[' + ','.join(term_text(a) for a in t[1]) + '|' + term_text(t[2]) + ']'
    if k == 'OP':
        return '(' + term_text(t[2]) + ' ' + t[1] + ' ' + term_text(t[3]) + ')'
    if k == 'UOP':
        return '(' + t[1] + ' ' + term_text(t[2]) + ')'
    raise ValueError(t)


PREC = {'disj': 1, 'ite': 2, 'conj': 3, 'neg': 4}
OPTXT = {'disj': ';', 'ite': '->', 'conj': ','}


def body_prec(b):
    if isinstance(b, str):
        return 5
    return PREC.get(b[0], 5)


def goal_text(b):
    name, args = b[1], b[2]
    if name in BINOPS and len(args) == 2 and (len(b) < 4 or b[3] != 'functional'):
        return term_text(args[0]) + ' ' + name + ' ' + term_text(args[1])
    if name in BINOPS and len(args) == 2:
        return name + '(' + term_text(args[0]) + ',' + term_text(args[1]) + ')'
    if not args:
        return atom_text(name)
    return atom_text(name) + '(' + ','.join(term_text(a) for a in args) + ')'


def body_text(b, parens='min', rnd=None):
    """parens: 'min' (only what precedence requires), 'max' (around every compound),
    'rand' (random redundant ones, needs rnd)."""
    def wrap(s, b, need):
        extra = False
        if parens == 'max' and not isinstance(b, str):
            extra = True
        elif parens == 'rand' and rnd.random() < 0.3:
            extra = True
        return '(' + s + ')' if (need or extra) else s

    def go(b):
        if b == 'tru':
            return 'true'
        if b == 'fail':
            return 'fail'
        if b == 'cut':
            return '!'
        k = b[0]
        if k == 'call':
            return goal_text(b)
        if k == 'ncall':
            return b[1] + '(' + ','.join(term_text(a) for a in b[2]) + ')'
        if k == 'neg':
            a = b[1]
            return '\\+ ' + wrap(go(a), a, body_prec(a) < 4)
        p = PREC[k]
        l, r = b[1], b[2]
        ls = wrap(go(l), l, body_prec(l) <= p)
        rs = wrap(go(r), r, body_prec(r) < p)
        return ls + ' ' + OPTXT[k] + ' ' + rs
    return go(b)


def clause_text(c, parens='min', rnd=None):
    name, args, body = c[0], c[1], c[2]
    head = atom_text(name) if not args else atom_text(name) + '(' + ','.join(term_text(a) for a in args) + ')'
    if body == 'tru' and (len(c) < 4 or not c[3]):
        return head + '.'
    return head + ' :- ' + body_text(body, parens, rnd) + '.'


def program_text(clauses, parens='min', rnd=None):
    return '\n'.join(clause_text(c, parens, rnd) for c in clauses) + '\n'


# ------------------------------------------------------------------ encoding for the model
class Namer:
    """Python-level names of source variables: V_<name>, x<k> for the k-th `_` of the
    compilation unit (textual order)."""

    def __init__(self):
        self.anon = 0

    def var(self, t):
        if t[0] == '_':
            self.anon += 1
            return 'x%d' % self.anon
        return 'V_' + t[1]


def term_model(t, nm):
    k = t[0]
    if k in ('V', '_'):
        return [Sym('V'), nm.var(t)]
    if k == 'A':
        return [Sym('A'), t[1]]
    if k == 'N':
        return [Sym('N'), int(t[1])]
    if k == 'F':
        return [Sym('F'), t[1]] + [term_model(a, nm) for a in t[2]]
    if k == 'L':
        return [Sym('L')] + [term_model(a, nm) for a in t[1]]
    if k == 'P':
        items = [term_model(a, nm) for a in t[1]]
        tail = term_model(t[2], nm)
        for it in reversed(items):
            tail = [Sym('P'), it, tail]
        return tail
    if k == 'OP':
        return [Sym('F'), t[1], term_model(t[2], nm), term_model(t[3], nm)]
    if k == 'UOP':
        return [Sym('F'), t[1], term_model(t[2], nm)]
    raise ValueError(t)


def body_model(b, nm):
    if isinstance(b, str):
        return Sym(b)
    k = b[0]
    if k == 'call':
        return [Sym('call'), b[1]] + [term_model(a, nm) for a in b[2]]
    if k == 'neg':
        return [Sym('neg'), body_model(b[1], nm)]
    l = body_model(b[1], nm)
    r = body_model(b[2], nm)
    return [Sym(k), l, r]


def program_model(clauses):
    nm = Namer()
    out = []
    for c in clauses:
        name, args, body = c[0], c[1], c[2]
        a = [term_model(t, nm) for t in args]
        b = body_model(body, nm)
        out.append([Sym('clause'), name, a, b])
    return out


def body_size(b):
    if isinstance(b, str) or b[0] == 'call':
        return 1
    if b[0] == 'neg':
        return 1 + body_size(b[1])
    return 1 + body_size(b[1]) + body_size(b[2])


def body_shape(b):
    """shape of a body with goal names erased (for counting distinct cases)"""
    if isinstance(b, str):
        return b
    if b[0] == 'call':
        return 'g' if b[1] not in ('=', '\\=') else b[1]
    if b[0] == 'neg':
        return ('neg', body_shape(b[1]))
    return (b[0], body_shape(b[1]), body_shape(b[2]))
