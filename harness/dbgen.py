"""Generators for the fact-store properties C07, C13, C14."""
from . import gen
from .common import Sym

NAMES = [('d0', 1), ('d1', 0), ('d1', 2), ('d2', 1), ('never', 1)]

HELPERS = [
    ('az', [('V', 'T')], ('conj', ('call', '=', [('V', 'G'), ('V', 'T')]), ('call', 'assertz', [('V', 'G')]))),
    ('aa', [('V', 'T')], ('conj', ('call', '=', [('V', 'G'), ('V', 'T')]), ('call', 'asserta', [('V', 'G')]))),
    ('rt', [('V', 'T')], ('conj', ('call', '=', [('V', 'G'), ('V', 'T')]), ('call', 'retract', [('V', 'G')]))),
    ('ra', [('V', 'T')], ('conj', ('call', '=', [('V', 'G'), ('V', 'T')]), ('call', 'retractall', [('V', 'G')]))),
    # assert a fact, bind one of the asserting goal's variables afterwards, and use the store while it is bound
    ('azq', [('V', 'T'), ('V', 'V'), ('V', 'A'), ('V', 'P')],
     ('conj', ('call', 'assertz', [('V', 'T')]), ('conj', ('call', '=', [('V', 'V'), ('V', 'A')]), ('call', 'call', [('V', 'P')])))),
    ('aar', [('V', 'T'), ('V', 'V'), ('V', 'A'), ('V', 'P')],
     ('conj', ('call', 'asserta', [('V', 'T')]), ('conj', ('call', '=', [('V', 'V'), ('V', 'A')]), ('call', 'retract', [('V', 'P')])))),
]


# compiled code that modifies a predicate between two answers of a retract / an enumeration of it
V_ = lambda n: ('V', n)
MOVERS = [
    ('mv0', [], ('conj', ('call', 'retract', [('F', 'd0', [V_('X')])]), ('conj', ('call', 'assertz', [('F', 'd0', [('F', 'f', [V_('X')])])]), 'fail')), True),
    ('mv0', [], 'tru'),
    ('mv2', [], ('conj', ('call', 'retract', [('F', 'd2', [V_('X')])]), ('conj', ('call', 'asserta', [('F', 'd2', [('A', 'n')])]), 'fail')), True),
    ('mv2', [], 'tru'),
    ('nest', [], ('conj', ('call', 'retract', [('F', 'd0', [V_('X')])]), ('conj', ('call', 'retract', [('F', 'd0', [V_('Y')])]), 'fail')), True),
    ('nest', [], 'tru'),
    ('rmw', [], ('conj', ('call', 'retract', [('F', 'd1', [V_('X'), V_('Y')])]), ('conj', ('call', 'retractall', [('F', 'd1', [V_('Y'), ('_',)])]), 'fail')), True),
    ('rmw', [], 'tru'),
    # the same with the answers observed: what a retract answers after another goal removed later facts
    ('rall0', [V_('X')], ('conj', ('call', 'retract', [('F', 'd0', [V_('X')])]), ('call', 'retractall', [('F', 'd0', [('_',)])])), True),
    ('rall2', [V_('X')], ('conj', ('call', 'retract', [('F', 'd2', [V_('X')])]), ('call', 'retractall', [('F', 'd2', [V_('X')])])), True),
    ('rpair', [V_('X'), V_('Y')], ('conj', ('call', 'retract', [('F', 'd0', [V_('X')])]), ('call', 'retract', [('F', 'd0', [V_('Y')])])), True),
    ('ea', [], ('conj', ('call', 'd0', [V_('X')]), ('conj', ('call', 'asserta', [('F', 'd0', [('A', 'k')])]), 'fail')), True),
    ('ea', [], 'tru'),
    ('ez', [], ('conj', ('call', 'd0', [V_('X')]), ('conj', ('call', 'assertz', [('F', 'd0', [V_('X')])]), 'fail')), True),
    ('ez', [], 'tru'),
    # two uses of the facts of one predicate open at the same time (each use works on a copy of its own)
    ('two0', [V_('X'), V_('Y')], ('conj', ('call', 'd0', [V_('X')]), ('call', 'd0', [V_('Y')])), True),
    ('two2', [V_('X'), V_('Y')], ('conj', ('call', 'd2', [V_('X')]), ('call', 'd2', [V_('Y')])), True),
    ('usert', [V_('X'), V_('Y')], ('conj', ('call', 'd0', [V_('X')]), ('call', 'retract', [('F', 'd0', [V_('Y')])])), True),
    ('rkeep', [V_('X'), V_('Y')], ('conj', ('call', 'retract', [('F', 'd1', [V_('X'), V_('Y')])]),
                                   ('conj', ('call', 'retractall', [('F', 'd1', [('_',), V_('Y')])]), ('call', 'assertz', [('F', 'd1', [V_('Y'), V_('X')])]))), True),
]


def v(i):
    return [Sym('v'), i]


def fact_term(name, args):
    return [Sym('f'), name] + args if args else [Sym('a'), name]


def value_term(rnd, nvars=3, p_var=0.12):
    r = rnd.random()
    if r < p_var:
        return v(rnd.randrange(nvars))
    if r < 0.75:
        return [Sym('a'), rnd.choice(['a', 'b', 'c'])]
    if r < 0.85:
        if rnd.random() < 0.2:
            return [Sym('a'), '$py:None']        # a Python value used as a constant
        return [Sym('i'), rnd.randrange(2)]
    return [Sym('f'), 'f', value_term(rnd, nvars, p_var)]


def pattern_term(rnd, nvars=3):
    r = rnd.random()
    if r < 0.5:
        return v(rnd.randrange(nvars))
    if r < 0.85:
        return [Sym('a'), rnd.choice(['a', 'b', 'c'])]
    return [Sym('f'), 'f', pattern_term(rnd, nvars)]


def readback(names):
    ops = []
    for name, arity in names:
        ops.append(('query', name, ('all',), [v(10 + i) for i in range(arity)]))
    return ops


def history(rnd, length):
    """a C07 history: returns ops"""
    ops = [('load', 'overwrite', HELPERS + MOVERS)]
    names = [n for n in NAMES]
    for name, arity in NAMES[:4]:
        for _ in range(rnd.randint(0, 3)):
            ops.append(('assert', name, 'z', [value_term(rnd) for _ in range(arity)]))
    for _ in range(length):
        name, arity = rnd.choice(names)
        r = rnd.random()
        if r < 0.30:
            args = [value_term(rnd) for _ in range(arity)]
            how = rnd.choice(['api-z', 'api-a', 'assertz', 'asserta', 'az', 'aa'])
            if how == 'api-z':
                ops.append(('assert', name, 'z', args))
            elif how == 'api-a':
                ops.append(('assert', name, 'a', args))
            else:
                ops.append(('query', how, ('all',), [fact_term(name, args)]))
        elif r < 0.55:
            args = [pattern_term(rnd, 2) for _ in range(arity)]
            how = rnd.choice(['retract', 'rt'])
            sched = rnd.choice([('all',), ('stop', 1), ('stop', 2), ('stop', 0), ('raise', 1)])
            ops.append(('query', how, sched, [fact_term(name, args)]))
        elif r < 0.68:
            args = [pattern_term(rnd, 2) for _ in range(arity)]
            if arity == 2 and rnd.random() < 0.4:
                args = [v(0), v(0)] if rnd.random() < 0.7 else [v(0), v(1)]      # non-linear / all-variable patterns
            ops.append(('query', rnd.choice(['retractall', 'ra']), ('all',), [fact_term(name, args)]))
        elif r < 0.85:
            args = [pattern_term(rnd, 2) for _ in range(arity)]
            ops.append(('query', name, rnd.choice([('all',), ('all',), ('stop', 1)]), args))
        elif r < 0.905 and arity >= 1:
            args = [value_term(rnd, 2, 0.5) for _ in range(arity)]
            pat = [pattern_term(rnd, 4) for _ in range(arity)]
            ops.append(('query', rnd.choice(['azq', 'aar']), ('all',),
                        [fact_term(name, args), v(rnd.randrange(2)), [Sym('a'), rnd.choice(['a', 'b'])], fact_term(name, pat)]))
        elif r < 0.92:
            if rnd.random() < 0.5:
                # a fact with a variable below the top level, then two goals on it at the same time
                nm = rnd.choice(['d0', 'd2'])
                ops.append(('assert', nm, rnd.choice(['a', 'z']), [[Sym('f'), 'f', v(3)] if rnd.random() < 0.6 else [Sym('f'), 'g', [Sym('a'), 'a'], [Sym('f'), 'f', v(3)]]]))
                p1, p2 = [Sym('f'), 'f', [Sym('a'), 'a']], [Sym('f'), 'f', rnd.choice([[Sym('a'), 'b'], v(5)])]
                ops.append(('query', {'d0': rnd.choice(['two0', 'usert']), 'd2': 'two2'}[nm], rnd.choice([('all',), ('stop', 1)]), [p1, p2]))
            else:
                ops.append(('clear',))
                ops.append(('load', 'overwrite', HELPERS + MOVERS))
        elif r < 0.985:
            if rnd.random() < 0.25:
                # facts that differ only in which variables they share
                ops.append(('assert', 'd1', 'z', [v(0), v(0)]))
                ops.append(('assert', 'd1', rnd.choice(['a', 'z']), [v(0), v(1)]))
                ops.append(('query', 'retract', rnd.choice([('all',), ('stop', 1)]), [fact_term('d1', [[Sym('a'), 'a'], [Sym('a'), 'b']])]))
                ops.extend(readback(names))
            m = rnd.choice(['mv0', 'mv2', 'nest', 'rmw', 'rall0', 'rall2', 'rpair', 'rkeep', 'rall0', 'rpair', 'ea', 'ez'])
            nargs = {'rall0': 1, 'rall2': 1, 'rpair': 2, 'rkeep': 2}.get(m, 0)
            ops.append(('query', m, rnd.choice([('all',), ('all',), ('stop', 1), ('stop', 2)]) if nargs else ('all',), [v(20 + j) for j in range(nargs)]))
        else:
            ops.append(('query', name, ('all',), [v(i) for i in range(arity)]))
        ops.extend(readback(names))
    return ops


# ---------------------------------------------------------------- C13
def sv(n):
    return ('V', n)


def c13_term(rnd, vars_, depth=2):
    r = rnd.random()
    if r < 0.4:
        return sv(rnd.choice(vars_))
    if r < 0.6 or depth <= 0:
        return ('A', rnd.choice(['a', 'b', 'c']))
    if r < 0.8:
        return ('F', rnd.choice(['f', 'g']), [c13_term(rnd, vars_, depth - 1) for _ in range(rnd.randint(1, 2))])
    if r < 0.9:
        return ('L', [c13_term(rnd, vars_, depth - 1) for _ in range(rnd.randint(1, 2))])
    # open-tailed list: [a,b|T]
    return ('P', [c13_term(rnd, vars_, depth - 1) for _ in range(rnd.randint(1, 2))], sv(rnd.choice(vars_)))


def c13_program(rnd):
    """clauses that bind variables before/after/through chains around an assert, then use the fact"""
    vars_ = ['X', 'Y', 'Z', 'W']
    clauses = []
    for ci in range(rnd.randint(1, 3)):
        goals = []
        for _ in range(rnd.randint(0, 3)):
            goals.append(('call', '=', [sv(rnd.choice(vars_)), c13_term(rnd, vars_)]))
        goals.append(('call', rnd.choice(['assertz', 'asserta']), [('F', 'p', [c13_term(rnd, vars_)])]))
        for _ in range(rnd.randint(0, 3)):
            r = rnd.random()
            if r < 0.5:
                goals.append(('call', '=', [sv(rnd.choice(vars_)), c13_term(rnd, vars_, 1)]))
            else:
                goals.append(('call', 'p', [c13_term(rnd, vars_, 1)]))
        if rnd.random() < 0.3:
            goals.append('fail')
        body = goals[-1]
        for g in reversed(goals[:-1]):
            body = ('conj', g, body)
        clauses.append(('t%d' % ci, [sv('X'), sv('W')] if rnd.random() < 0.6 else [], body, True))
    # facts of arity 2: a variable shared between *different* arguments stays shared in the copy
    goals = [('call', '=', [sv(rnd.choice(vars_)), c13_term(rnd, vars_, 1)]) for _ in range(rnd.randint(0, 2))]
    goals.append(('call', rnd.choice(['assertz', 'asserta']), [('F', 'r', [c13_term(rnd, vars_[:2], 1), c13_term(rnd, vars_[:2], 1)])]))
    goals.append(('call', 'r', [c13_term(rnd, vars_, 1), c13_term(rnd, vars_, 1)]))
    body = goals[-1]
    for g in reversed(goals[:-1]):
        body = ('conj', g, body)
    clauses.append(('s2', [sv('X'), sv('W')], body, True))
    clauses.append(('s3', [sv('Y')], ('conj', ('call', 'assertz', [('F', 'r', [sv('X'), ('A', 'k')])]),
                                       ('conj', ('call', '=', [sv('X'), ('A', 'a')]), ('call', 'r', [('A', 'b'), sv('Y')]))), True))
    clauses.append(('s4', [sv('Y')], ('conj', ('call', 'asserta', [('F', 'p', [sv('X')])]),
                                       ('conj', ('call', '=', [sv('X'), ('F', 'f', [('A', 'a')])]), ('call', 'p', [('F', 'f', [sv('Y')])]))), True))
    # a body that uses one fact twice
    clauses.append(('twice', [sv('A'), sv('B')], ('conj', ('call', 'p', [sv('A')]), ('call', 'p', [sv('B')])), True))
    clauses.append(('twice2', [sv('A'), sv('B'), sv('C')],
                    ('conj', ('call', 'p', [sv('A')]), ('conj', ('call', '=', [sv('A'), sv('C')]), ('call', 'p', [sv('B')]))), True))
    return clauses


def c13_history(rnd):
    prog = c13_program(rnd)
    ops = [('load', 'overwrite', prog)]
    tnames = [(c[0], len(c[1])) for c in prog if c[0].startswith('t') and not c[0].startswith('tw')]
    for _ in range(rnd.randint(2, 5)):
        r = rnd.random()
        if r < 0.45:
            name, ar = rnd.choice(tnames)
            ops.append(('query', name, rnd.choice([('all',), ('stop', 1)]), [pattern_term(rnd, 3) for _ in range(ar)]))
        elif r < 0.52:
            ops.append(('assert', 'p', rnd.choice(['a', 'z']), [value_term(rnd, 3, 0.4)]))
        elif r < 0.6:
            if rnd.random() < 0.5:
                ops.append(('assert', 'r', rnd.choice(['a', 'z']), [value_term(rnd, 2, 0.6), value_term(rnd, 2, 0.6)]))
            else:
                nm_ = rnd.choice(['s2', 's3', 's4'])
                ops.append(('query', nm_, rnd.choice([('all',), ('stop', 1)]), [pattern_term(rnd, 3), pattern_term(rnd, 3)] if nm_ == 's2' else [v(23)]))
            ops.append(('query', 'r', ('all',), [[Sym('a'), 'a'], [Sym('a'), 'b']]))
            ops.append(('query', 'r', ('all',), [v(21), [Sym('a'), 'b']]))
            ops.append(('query', 'r', ('all',), [v(21), v(22)]))
        elif r < 0.8:
            ops.append(('query', 'twice', ('all',), [pattern_term(rnd, 3), pattern_term(rnd, 3)]))
        else:
            ops.append(('query', 'twice2', ('all',), [v(0), v(1), pattern_term(rnd, 3)]))
        ops.append(('query', 'p', ('all',), [v(20)]))
        ops.append(('query', 'p', ('all',), [pattern_term(rnd, 2)]))
    return ops


# ---------------------------------------------------------------- C14
def c14_program(rnd):
    vars_ = ['X', 'Y']
    clauses = []
    for ci in range(rnd.randint(1, 3)):
        pred = rnd.choice(['d', 'e'])
        goals = []
        first = rnd.choice(['enum', 'enum', 'retract'])
        pat = ('V', 'X') if rnd.random() < 0.8 else ('A', rnd.choice(['a', 'b']))
        goals.append(('call', pred, [pat]) if first == 'enum' else ('call', 'retract', [('F', pred, [pat])]))
        for _ in range(rnd.randint(1, 3)):
            r = rnd.random()
            t = rnd.choice([('V', 'X'), ('A', 'a'), ('A', 'b'), ('A', 'n'), ('F', 's', [('V', 'X')]), ('V', 'Y')])
            if r < 0.35:
                goals.append(('call', 'assertz', [('F', pred, [t])]))
            elif r < 0.5:
                goals.append(('call', 'asserta', [('F', pred, [t])]))
            elif r < 0.7:
                goals.append(('call', 'retract', [('F', pred, [t])]))
            elif r < 0.8:
                goals.append(('call', 'retractall', [('F', pred, [t])]))
            elif r < 0.9:
                # a second enumeration: of the other predicate (enumerating and growing the same one twice
                # inside each other is exponential in the number of facts)
                goals.append(('call', 'e' if pred == 'd' else 'd', [('V', 'Y')]))
            else:
                goals.append(('call', 'seen', [('V', 'X')]) if False else ('call', 'assertz', [('F', 'seen', [('V', 'X')])]))
        if rnd.random() < 0.5:
            goals.append('fail')
        body = goals[-1]
        for g in reversed(goals[:-1]):
            body = ('conj', g, body)
        clauses.append(('t%d' % ci, [('V', 'X')], body, True))
        if rnd.random() < 0.5:
            clauses.append(('t%d' % ci, [('_',)], 'tru'))
    # the classic loops
    clauses.append(('drain', [], ('conj', ('call', 'd', [('V', 'X')]), ('conj', ('call', 'retract', [('F', 'd', [('V', 'X')])]),
                                   ('conj', ('call', 'assertz', [('F', 'seen', [('V', 'X')])]), 'fail'))), True))
    clauses.append(('drain', [], 'tru'))
    clauses.append(('upd', [], ('conj', ('call', 'retract', [('F', 'd', [('V', 'N')])]),
                                 ('conj', ('call', 'assertz', [('F', 'd', [('F', 's', [('V', 'N')])])]), 'fail')), True))
    clauses.append(('upd', [], 'tru'))
    clauses.append(('grow', [('V', 'X')], ('conj', ('call', 'd', [('V', 'X')]), ('call', 'assertz', [('F', 'd', [('F', 's', [('V', 'X')])])])), True))
    # a suspended retract / enumeration whose not-yet-visited facts another goal removes (answers observed)
    clauses.append(('rr', [('V', 'X')], ('conj', ('call', 'retract', [('F', 'd', [('V', 'X')])]), ('call', 'retractall', [('F', 'd', [('_',)])])), True))
    clauses.append(('rr2', [('V', 'X'), ('V', 'Y')], ('conj', ('call', 'retract', [('F', 'd', [('V', 'X')])]), ('call', 'retract', [('F', 'd', [('V', 'Y')])])), True))
    clauses.append(('er', [('V', 'X')], ('conj', ('call', 'd', [('V', 'X')]), ('call', 'retractall', [('F', 'd', [('_',)])])), True))
    clauses.append(('era', [('V', 'X')], ('conj', ('call', 'd', [('V', 'X')]), ('conj', ('call', 'retract', [('F', 'd', [('V', 'Y')])]),
                                          ('call', 'assertz', [('F', 'd', [('F', 'n', [('V', 'Y')])])]))), True))
    # ... removes a later fact *and* adds one: the number of facts is what the suspended retract left behind
    clauses.append(('aba', [('V', 'X'), ('V', 'Y')], ('conj', ('call', 'retract', [('F', 'd', [('V', 'X')])]),
                                                      ('conj', ('call', 'once', [('F', 'retract', [('F', 'd', [('V', 'Y')])])]),
                                                       ('call', 'assertz', [('F', 'd', [('A', 'n')])]))), True))
    clauses.append(('aba2', [('V', 'X')], ('conj', ('call', 'retract', [('F', 'd', [('V', 'X')])]),
                                           ('conj', ('call', 'once', [('F', 'retract', [('F', 'd', [('V', 'Y')])])]),
                                            ('call', 'asserta', [('F', 'd', [('V', 'Y')])]))), True))
    clauses.append(('nn', [('V', 'X')], ('conj', ('call', 'd', [('V', 'X')]), ('conj', ('neg', ('call', 'd', [('A', 'zz')])), ('call', 'assertz', [('F', 'd', [('A', 'n')])]))), True))
    clauses.append(('nf', [('V', 'X'), ('V', 'L')], ('conj', ('call', 'd', [('V', 'X')]), ('conj', ('call', 'findall', [('V', 'Y'), ('F', 'd', [('V', 'Y')]), ('V', 'L')]),
                                                       ('call', 'assertz', [('F', 'd', [('F', 's', [('V', 'X')])])]))), True))
    # a suspended retract while the facts *in front of* the place it has reached are removed
    clauses.append(('rab', [], ('conj', ('call', 'retract', [('F', 'd', [('A', 'a')])]), ('conj', ('call', 'retractall', [('F', 'd', [('A', 'b')])]), 'fail')), True))
    clauses.append(('rab', [], 'tru'))
    clauses.append(('rab2', [('V', 'X')], ('conj', ('call', 'retract', [('F', 'd', [('F', 'k', [('V', 'X')])])]),
                                          ('call', 'retractall', [('F', 'd', [('A', 'b')])])), True))
    return clauses


def c14_history(rnd):
    prog = c14_program(rnd)
    ops = [('load', 'overwrite', prog)]
    if rnd.random() < 0.25:
        for x in rnd.choice([['b', 'a', 'b', 'a'], ['b', 'b', 'a', 'c', 'a'], ['b', 'a', 'a']]):
            ops.append(('assert', 'd', 'z', [[Sym('a'), x]]))
        ops.append(('query', 'rab', ('all',), []))
        ops.append(('query', 'd', ('all',), [v(10)]))
        for x in ['b', 'k1', 'b', 'k2', 'k3']:
            ops.append(('assert', 'd', 'z', [[Sym('a'), 'b'] if x == 'b' else [Sym('f'), 'k', [Sym('a'), x]]]))
        ops.append(('query', 'rab2', rnd.choice([('all',), ('stop', 2)]), [v(0)]))
        ops.append(('query', 'd', ('all',), [v(10)]))
    for pred in ('d', 'e'):
        for _ in range(rnd.randint(0, 3)):
            ops.append(('assert', pred, 'z', [[Sym('a'), rnd.choice(['a', 'b', 'c'])]]))
    if rnd.random() < 0.3:
        # a query object made before the store changes and enumerated afterwards
        inner = rnd.choice([('assert', 'd', rnd.choice(['a', 'z']), [[Sym('a'), 'late']]),
                            ('query', 'retract', ('all',), [[Sym('f'), 'd', v(5)]]),
                            ('query', 'retractall', ('all',), [[Sym('f'), 'd', v(5)]]),
                            ('assert', 'fresh', 'z', [[Sym('a'), 'only']])])
        ops.append(('prebuilt', rnd.choice(['d', 'd', 'fresh']), [v(0)], inner))
    tn = sorted({c[0] for c in prog if c[0].startswith('t')})
    rb = [('query', 'd', ('all',), [v(10)]), ('query', 'e', ('all',), [v(10)]), ('query', 'seen', ('all',), [v(10)])]
    for _ in range(rnd.randint(2, 5)):
        r = rnd.random()
        if r < 0.6:
            ops.append(('query', rnd.choice(tn), rnd.choice([('all',), ('all',), ('stop', 1), ('stop', 2)]), [v(0)]))
        elif r < 0.72:
            ops.append(('query', 'drain', ('all',), []))
        elif r < 0.84:
            ops.append(('query', 'upd', ('all',), []))
        elif r < 0.93:
            m = rnd.choice(['rr', 'rr2', 'er', 'era', 'aba', 'aba2', 'aba', 'nn', 'nf', 'nn'])
            ops.append(('query', m, rnd.choice([('all',), ('all',), ('stop', 1), ('stop', 2)]), [v(0), v(1)][:2 if m in ('rr2', 'aba', 'nf') else 1]))
        else:
            ops.append(('query', 'grow', rnd.choice([('all',), ('stop', 2)]), [v(0)]))
        ops.extend(rb)
    return ops
