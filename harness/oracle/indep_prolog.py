"""A small textbook Prolog interpreter (pure Python 3, standard library only).

Written from the standard operational semantics of Prolog (depth-first,
left-to-right SLD resolution with a trail and a choicepoint stack), to be
used as an independent oracle for differential testing.

Public interface:  run(clauses, queries, step_budget=200000), PrologError.

Design
------
* Runtime terms: unbound/bound variables are `Var` objects (one mutable
  `ref` slot); everything else is an immutable tuple
      ('a', text)   ('i', int)   ('f', name, (arg, ...))
  Lists are '.'/2 pairs ending in the atom '[]'.
* Stored clauses (program clauses and asserted facts) are *templates*: the
  same tuples, except that variables are ('v', k) and every compound that
  contains a variable is tagged 't' instead of 'f' (ground sub-terms are
  shared, never copied).  Activating a clause instantiates the template with
  a fresh variable array.
* Clause bodies are ordinary terms built with ','/2, ';'/2, '->'/2, '\\+'/1,
  '!', true, fail; the solver dispatches on them, so call/N of such terms
  behaves like the corresponding body.
* The solver is a single loop (no Python recursion per Prolog call):
    - continuation = linked list of frames (goal, cut_barrier, next);
    - choicepoint stack `cps`, each entry records the trail height;
    - cut_barrier = height of `cps` when the clause was entered; `!` truncates
      `cps` to that height.  if-then-else, once/1, \\+/1, call/N and findall/3
      run their inner goal with their own barrier (cut is local there), while
      ','  ';'  and the then/else branches inherit the clause's barrier (cut
      is transparent there).
    - findall/3 and \\+/1 are executed inside the same loop by means of
      special choicepoints / continuation frames, so they nest and recurse
      without using the Python stack.
* Database: per name/arity a tuple of dynamic facts (replaced, never mutated,
  on every update, hence a call's snapshot is simply a reference to the tuple
  that was current when the call started = logical update view) followed by the
  program clauses.
"""

import sys

__all__ = ['run', 'PrologError']


class PrologError(Exception):
    """A Prolog run-time error (instantiation error, type error ...)."""


class _Budget(Exception):
    pass


class Var(object):
    __slots__ = ('ref',)

    def __init__(self):
        self.ref = None


TRUE = ('a', 'true')
NIL = ('a', '[]')

# choicepoint kinds
_GOAL, _CLAUSES, _RETRACT, _FINDALL = 0, 1, 2, 3


# ----------------------------------------------------------------------------
# compilation of the input format into templates
# ----------------------------------------------------------------------------

class _VarMap(object):
    def __init__(self):
        self.names = {}
        self.count = 0

    def named(self, name):
        k = self.names.get(name)
        if k is None:
            k = self.names[name] = self.count
            self.count += 1
        return k

    def anonymous(self):
        k = self.count
        self.count += 1
        return k


def _mk(name, args):
    """Template compound: tagged 't' iff it contains a variable."""
    args = tuple(args)
    for x in args:
        tag = x[0]
        if tag == 'v' or tag == 't':
            return ('t', name, args)
    return ('f', name, args)


def _compile_term(t, vm):
    tag = t[0]
    if tag == 'V':
        return ('v', vm.named(t[1]))
    if tag == '_':
        return ('v', vm.anonymous())
    if tag == 'A':
        return ('a', t[1])
    if tag == 'N':
        return ('i', int(t[1]))
    if tag == 'F':
        return _mk(t[1], [_compile_term(x, vm) for x in t[2]])
    if tag == 'L' or tag == 'P':
        items = [_compile_term(x, vm) for x in t[1]]     # left to right
        r = NIL if tag == 'L' else _compile_term(t[2], vm)
        for h in reversed(items):
            r = _mk('.', (h, r))
        return r
    raise ValueError('bad term: %r' % (t,))


def _compile_body(b, vm):
    if b == 'tru':
        return TRUE
    if b == 'fail':
        return ('a', 'fail')
    if b == 'cut':
        return ('a', '!')
    tag = b[0]
    if tag == 'call':
        name, args = b[1], b[2]
        if not args:
            return ('a', name)
        return _mk(name, [_compile_term(x, vm) for x in args])
    if tag == 'conj':
        x = _compile_body(b[1], vm)
        return _mk(',', (x, _compile_body(b[2], vm)))
    if tag == 'disj':
        x = _compile_body(b[1], vm)
        return _mk(';', (x, _compile_body(b[2], vm)))
    if tag == 'ite':
        x = _compile_body(b[1], vm)
        return _mk('->', (x, _compile_body(b[2], vm)))
    if tag == 'neg':
        return _mk('\\+', (_compile_body(b[1], vm),))
    raise ValueError('bad body: %r' % (b,))


class _Clause(object):
    __slots__ = ('name', 'args', 'body', 'nvars', 'term', 'erased')

    def __init__(self, name, args, body, nvars, term):
        self.name = name        # predicate name
        self.args = args        # tuple of head argument templates
        self.body = body        # body template
        self.nvars = nvars      # number of distinct variables
        self.term = term        # (facts) the whole fact as a template term
        self.erased = False


def _inst(t, vs):
    """Instantiate template t with the variable array vs (entries created
    lazily).  Iterates along the last argument (long lists do not recurse)."""
    tag = t[0]
    if tag == 'v':
        k = t[1]
        v = vs[k]
        if v is None:
            v = vs[k] = Var()
        return v
    if tag != 't':
        return t
    pending = []
    while True:
        args = t[2]
        lead = [_inst(x, vs) for x in args[:-1]]
        pending.append((t[1], lead))
        t = args[-1]
        tag = t[0]
        if tag == 't':
            continue
        if tag == 'v':
            k = t[1]
            r = vs[k]
            if r is None:
                r = vs[k] = Var()
        else:
            r = t
        break
    while pending:
        name, lead = pending.pop()
        lead.append(r)
        r = ('f', name, tuple(lead))
    return r


# ----------------------------------------------------------------------------
# the engine
# ----------------------------------------------------------------------------

class _Engine(object):

    def __init__(self, clauses):
        self.prog = {}      # (name, arity) -> tuple of _Clause (program order)
        self.facts = {}     # (name, arity) -> tuple of _Clause (dynamic facts)
        self.trail = []
        self.cps = []
        self.steps = 0
        self.step_limit = 0
        self.work = 0
        self.work_limit = 0
        prog = {}
        for c in clauses:
            name, head_args, body = c[0], c[1], c[2]
            vm = _VarMap()
            args = tuple(_compile_term(x, vm) for x in head_args)
            bt = _compile_body(body, vm)
            cl = _Clause(name, args, bt, vm.count, None)
            prog.setdefault((name, len(args)), []).append(cl)
        for k, v in prog.items():
            self.prog[k] = tuple(v)

    # ---- terms -----------------------------------------------------------

    def _undo(self, mark):
        trail = self.trail
        while len(trail) > mark:
            trail.pop().ref = None

    def unify(self, a, b):
        """Unification without occurs check; bindings are trailed."""
        trail = self.trail
        stack = []
        n = 0
        while True:
            n += 1
            while a.__class__ is Var:
                r = a.ref
                if r is None:
                    break
                a = r
            while b.__class__ is Var:
                r = b.ref
                if r is None:
                    break
                b = r
            if a is not b:
                if a.__class__ is Var:
                    a.ref = b
                    trail.append(a)
                elif b.__class__ is Var:
                    b.ref = a
                    trail.append(b)
                else:
                    tag = a[0]
                    if tag != b[0] or a[1] != b[1]:
                        return False
                    if tag == 'f':
                        aa = a[2]
                        ba = b[2]
                        k = len(aa)
                        if k != len(ba):
                            return False
                        if k:
                            # push right-to-left, continue with the first pair
                            i = k - 1
                            while i > 0:
                                stack.append((aa[i], ba[i]))
                                i -= 1
                            a = aa[0]
                            b = ba[0]
                            if n > 10000:
                                # guard against cyclic terms (no occurs check)
                                self.work += n
                                n = 0
                                if self.work > self.work_limit:
                                    raise _Budget()
                            continue
            if not stack:
                self.work += n
                return True
            a, b = stack.pop()

    def _walk(self, t, varfn, mkfn):
        """Rebuild t fully dereferenced; unbound variables are mapped by varfn,
        compounds are built by mkfn(name, list_of_args).  Iterates along the
        last argument."""
        pending = []
        while True:
            self.work += 1
            if self.work > self.work_limit:
                raise _Budget()     # (only with huge or cyclic terms)
            while t.__class__ is Var:
                r = t.ref
                if r is None:
                    break
                t = r
            if t.__class__ is Var:
                r = varfn(t)
                break
            if t[0] != 'f':
                r = t
                break
            args = t[2]
            if not args:
                r = mkfn(t[1], [])
                break
            lead = [self._walk(x, varfn, mkfn) for x in args[:-1]]
            pending.append((t[1], lead))
            t = args[-1]
        while pending:
            name, lead = pending.pop()
            lead.append(r)
            r = mkfn(name, lead)
        return r

    def copy_term(self, t):
        """A copy of t with its bindings resolved and fresh variables."""
        m = {}

        def varfn(v):
            w = m.get(v)
            if w is None:
                w = m[v] = Var()
            return w

        return self._walk(t, varfn, lambda name, args: ('f', name, tuple(args)))

    def to_template(self, t):
        m = {}

        def varfn(v):
            k = m.get(v)
            if k is None:
                k = m[v] = len(m)
            return ('v', k)

        return self._walk(t, varfn, _mk), len(m)

    def canonical(self, terms):
        m = {}

        def varfn(v):
            k = m.get(v)
            if k is None:
                k = m[v] = len(m)
            return ('v', k)

        def mkfn(name, args):
            return ('f', name) + tuple(args)

        return tuple(self._walk(t, varfn, mkfn) for t in terms)

    @staticmethod
    def _deref(t):
        while t.__class__ is Var:
            r = t.ref
            if r is None:
                break
            t = r
        return t

    def _callable(self, t, what):
        """Dereference t and check that it is an atom or a compound term."""
        t = self._deref(t)
        if t.__class__ is Var:
            raise PrologError('instantiation_error in %s' % what)
        if t[0] == 'i':
            raise PrologError('type_error(callable, %d) in %s' % (t[1], what))
        return t

    def prepare(self, t):
        """Convert a term to a goal as call/1 does: the control structure
        (',' ';' '->') is dereferenced, goals that are (still) variables are
        wrapped in call/1, numbers are rejected."""
        t = self._deref(t)
        if t.__class__ is Var:
            return ('f', 'call', (t,))
        tag = t[0]
        if tag == 'i':
            raise PrologError('type_error(callable, %d)' % t[1])
        if tag == 'f':
            name = t[1]
            args = t[2]
            if len(args) == 2 and (name == ',' or name == ';' or name == '->'):
                x = self.prepare(args[0])
                return ('f', name, (x, self.prepare(args[1])))
        return t

    # ---- database --------------------------------------------------------

    def _make_fact(self, t):
        tmpl, nvars = self.to_template(t)
        if tmpl[0] == 'a':
            return _Clause(tmpl[1], (), TRUE, nvars, tmpl)
        return _Clause(tmpl[1], tmpl[2], TRUE, nvars, tmpl)

    def _erase(self, cl):
        if cl.erased:
            return
        cl.erased = True
        key = (cl.name, len(cl.args))
        self.facts[key] = tuple(c for c in self.facts.get(key, ()) if c is not cl)

    # ---- solver ----------------------------------------------------------

    def solve(self, goal):
        """Generator: yields once per solution of goal (bindings in place)."""
        cps = self.cps = []
        trail = self.trail = []
        unify = self.unify
        step_limit = self.step_limit
        cont = (goal, 0, None)
        failing = False
        while True:
            # ------------------------------------------------ backtracking
            if failing:
                if not cps:
                    return
                cp = cps[-1]
                mark = cp[1]
                while len(trail) > mark:
                    trail.pop().ref = None
                kind = cp[0]
                if kind == _GOAL:
                    # [_GOAL, mark, cont]
                    cps.pop()
                    cont = cp[2]
                    failing = False
                elif kind == _CLAUSES:
                    # [_CLAUSES, mark, goal_args, alternatives, index, next]
                    i = cp[4]
                    alts = cp[3]
                    barrier = len(cps) - 1
                    if i + 1 >= len(alts):
                        cps.pop()
                    else:
                        cp[4] = i + 1
                    self.steps += 1
                    if self.steps > step_limit:
                        raise _Budget()
                    cl = alts[i]
                    vs = [None] * cl.nvars
                    ok = True
                    gargs = cp[2]
                    hargs = cl.args
                    for j in range(len(hargs)):
                        if not unify(_inst(hargs[j], vs), gargs[j]):
                            ok = False
                            break
                    if ok:
                        body = cl.body
                        if body is TRUE:
                            cont = cp[5]
                        else:
                            cont = (_inst(body, vs), barrier, cp[5])
                        failing = False
                elif kind == _RETRACT:
                    # [_RETRACT, mark, term, snapshot, index, next]
                    i = cp[4]
                    snap = cp[3]
                    if i >= len(snap):
                        cps.pop()
                        continue
                    if i + 1 >= len(snap):
                        cps.pop()
                    else:
                        cp[4] = i + 1
                    cl = snap[i]
                    if cl.erased:
                        continue
                    self.steps += 1
                    if self.steps > step_limit:
                        raise _Budget()
                    vs = [None] * cl.nvars
                    if unify(cp[2], _inst(cl.term, vs)):
                        self._erase(cl)
                        cont = cp[5]
                        failing = False
                else:
                    # [_FINDALL, mark, results, list_arg, next]: goal exhausted
                    cps.pop()
                    lst = NIL
                    for r in reversed(cp[2]):
                        lst = ('f', '.', (r, lst))
                    if unify(cp[3], lst):
                        cont = cp[4]
                        failing = False
                continue

            # ------------------------------------------------ success
            if cont is None:
                yield None
                failing = True
                continue

            # ------------------------------------------------ one goal
            goal, cutb, nxt = cont
            if goal.__class__ is Var:
                # a variable in goal position stands for call(Var)
                goal = ('f', 'call', (goal,))
            tag = goal[0]
            if tag == 'a':
                name = goal[1]
                args = ()
            elif tag == 'f':
                name = goal[1]
                args = goal[2]
            elif tag == '$cut':
                del cps[goal[1]:]
                cont = nxt
                continue
            elif tag == '$negfail':
                # the goal under \+ succeeded: drop its choicepoints (and the
                # "goal failed" alternative) and fail
                del cps[goal[1]:]
                failing = True
                continue
            elif tag == '$collect':
                goal[2].append(self.copy_term(goal[1]))
                failing = True
                continue
            else:
                raise PrologError('type_error(callable, %r)' % (goal[1],))

            self.steps += 1
            if self.steps > step_limit:
                raise _Budget()
            n = len(args)

            if tag == 'a':
                if name == 'true':
                    cont = nxt
                    continue
                if name == 'fail':
                    failing = True
                    continue
                if name == '!':
                    del cps[cutb:]
                    cont = nxt
                    continue
            elif n == 2:
                if name == ',':
                    cont = (args[0], cutb, (args[1], cutb, nxt))
                    continue
                if name == ';':
                    left = self._deref(args[0])
                    if (left.__class__ is not Var and left[0] == 'f'
                            and left[1] == '->' and len(left[2]) == 2):
                        # if-then-else: cut is local to the condition and
                        # transparent in the branches
                        b = len(cps)
                        cps.append([_GOAL, len(trail), (args[1], cutb, nxt)])
                        cont = (left[2][0], b + 1,
                                (('$cut', b), 0, (left[2][1], cutb, nxt)))
                    else:
                        cps.append([_GOAL, len(trail), (args[1], cutb, nxt)])
                        cont = (left, cutb, nxt)
                    continue
                if name == '->':
                    # if-then without else
                    b = len(cps)
                    cont = (args[0], b, (('$cut', b), 0, (args[1], cutb, nxt)))
                    continue
                if name == '=':
                    if unify(args[0], args[1]):
                        cont = nxt
                    else:
                        failing = True
                    continue
                if name == '\\=':
                    mark = len(trail)
                    ok = unify(args[0], args[1])
                    while len(trail) > mark:
                        trail.pop().ref = None
                    if ok:
                        failing = True
                    else:
                        cont = nxt
                    continue
            elif n == 1:
                if name == '\\+':
                    g = self.prepare(args[0])
                    b = len(cps)
                    cps.append([_GOAL, len(trail), nxt])
                    cont = (g, b + 1, (('$negfail', b), 0, None))
                    continue
                if name == 'once':
                    g = self.prepare(args[0])
                    b = len(cps)
                    cont = (g, b, (('$cut', b), 0, nxt))
                    continue
                if name == 'assertz' or name == 'asserta':
                    t = self._callable(args[0], name + '/1')
                    cl = self._make_fact(t)
                    key = (cl.name, len(cl.args))
                    old = self.facts.get(key, ())
                    if name == 'assertz':
                        self.facts[key] = old + (cl,)
                    else:
                        self.facts[key] = (cl,) + old
                    cont = nxt
                    continue
                if name == 'retract':
                    t = self._callable(args[0], 'retract/1')
                    key = (t[1], len(t[2]) if t[0] == 'f' else 0)
                    snap = self.facts.get(key, ())
                    if not snap:
                        failing = True
                        continue
                    cps.append([_RETRACT, len(trail), t, snap, 0, nxt])
                    failing = True      # enter through the retry code
                    continue
                if name == 'retractall':
                    t = self._callable(args[0], 'retractall/1')
                    key = (t[1], len(t[2]) if t[0] == 'f' else 0)
                    mark = len(trail)
                    for cl in self.facts.get(key, ()):
                        self.steps += 1
                        vs = [None] * cl.nvars
                        ok = unify(t, _inst(cl.term, vs))
                        while len(trail) > mark:
                            trail.pop().ref = None
                        if ok:
                            self._erase(cl)
                    if self.steps > step_limit:
                        raise _Budget()
                    cont = nxt
                    continue
            elif n == 3:
                if name == 'findall':
                    g = self.prepare(args[1])
                    results = []
                    b = len(cps)
                    cps.append([_FINDALL, len(trail), results, args[2], nxt])
                    cont = (g, b + 1, (('$collect', args[0], results), 0, None))
                    continue

            if name == 'call' and n >= 1:
                g = self._callable(args[0], 'call/%d' % n)
                if n > 1:
                    if g[0] == 'f':
                        g = ('f', g[1], g[2] + args[1:])
                    else:
                        g = ('f', g[1], args[1:])
                g = self.prepare(g)
                cont = (g, len(cps), nxt)       # cut inside is local
                continue

            # ---- user predicate: dynamic facts first, then program clauses
            key = (name, n)
            alts = self.facts.get(key)
            pc = self.prog.get(key)
            if alts:
                if pc:
                    alts = alts + pc
            else:
                alts = pc
            if not alts:
                failing = True          # unknown predicate: plain failure
                continue
            cps.append([_CLAUSES, len(trail), args, alts, 0, nxt])
            failing = True              # enter through the retry code

    def run_query(self, name, args, step_budget):
        self.steps = 0
        self.step_limit = step_budget
        self.work = 0
        self.work_limit = 50 * step_budget + 100000
        vm = _VarMap()
        tmpl = [_compile_term(x, vm) for x in args]
        vs = [None] * vm.count
        qargs = tuple(_inst(x, vs) for x in tmpl)
        goal = ('f', name, qargs) if qargs else ('a', name)
        answers = []
        try:
            for _ in self.solve(goal):
                answers.append(self.canonical(qargs))
        finally:
            self._undo(0)
            self.cps = []
        return answers


def run(clauses, queries, step_budget=200000):
    """Run the queries one after the other against the program `clauses`.

    Returns a list with one entry per query: ('ok', answers), ('budget',) or
    ('skipped',) (every query after the first 'budget').  The step budget is
    per query.  PrologError propagates."""
    old_limit = sys.getrecursionlimit()
    if old_limit < 20000:
        sys.setrecursionlimit(20000)
    try:
        eng = _Engine(clauses)
        results = []
        stopped = False
        for q in queries:
            if stopped:
                results.append(('skipped',))
                continue
            try:
                answers = eng.run_query(q[0], list(q[1]), step_budget)
            except (_Budget, RecursionError):
                results.append(('budget',))
                stopped = True
            else:
                results.append(('ok', answers))
        return results
    finally:
        sys.setrecursionlimit(old_limit)
