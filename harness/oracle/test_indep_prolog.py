"""Tests for indep_prolog.py.  Run:  python3 /tmp/indep/test_indep_prolog.py"""

import os
import sys
import time

sys.path.insert(0, os.path.dirname(os.path.abspath(__file__)))
from indep_prolog import run, PrologError   # noqa: E402

# ---------------------------------------------------------------- input helpers


def V(n):
    return ('V', n)


def A(t):
    return ('A', t)


def N(d):
    return ('N', str(d))


def F(name, *args):
    return ('F', name, list(args))


def L(*items):
    return ('L', list(items))


def P(items, tail):
    return ('P', list(items), tail)


ANON = ('_',)
X, Y, Z, T, G, H, W = (V(c) for c in 'XYZTGHW')


def call(name, *args):
    return ('call', name, list(args))


def conj(*gs):
    r = gs[-1]
    for g in reversed(gs[:-1]):
        r = ('conj', g, r)
    return r


def disj(*gs):
    r = gs[-1]
    for g in reversed(gs[:-1]):
        r = ('disj', g, r)
    return r


def ite(c, t):
    return ('ite', c, t)


def neg(g):
    return ('neg', g)


def eq(a, b):
    return call('=', a, b)


CUT, TRU, FAIL = 'cut', 'tru', 'fail'


def cl(name, args=(), body='tru'):
    return (name, list(args), body)


# ---------------------------------------------------------------- output helpers

def a(t):
    return ('a', t)


def i(n):
    return ('i', n)


def v(k):
    return ('v', k)


def f(name, *args):
    return ('f', name) + args


nil = a('[]')


def lst(*items, **kw):
    r = kw.get('tail', nil)
    for h in reversed(items):
        r = ('f', '.', h, r)
    return r


def flat(t):
    """canonical list -> (python list of items, tail), iteratively"""
    items = []
    while t[0] == 'f' and t[1] == '.' and len(t) == 4:
        items.append(t[2])
        t = t[3]
    return items, t


# ---------------------------------------------------------------- harness

FAILS = []
COUNT = [0]


def check(desc, got, expected):
    COUNT[0] += 1
    if got != expected:
        FAILS.append(desc)
        print('FAIL: %s\n   got      %r\n   expected %r' % (desc, got, expected))


def ask(clauses, name, args=(), **kw):
    r = run(clauses, [(name, list(args))], **kw)
    assert len(r) == 1
    if r[0][0] != 'ok':
        return r[0]
    return r[0][1]


def ask1(clauses, name, args=(), **kw):
    """answers projected on single-argument queries"""
    r = ask(clauses, name, args, **kw)
    if isinstance(r, tuple):
        return r
    return [x[0] for x in r]


def raises(desc, fn):
    COUNT[0] += 1
    try:
        fn()
    except PrologError:
        return
    except Exception as e:      # pragma: no cover
        FAILS.append(desc)
        print('FAIL: %s raised %r instead of PrologError' % (desc, e))
        return
    FAILS.append(desc)
    print('FAIL: %s did not raise PrologError' % desc)


BASE = [
    cl('p', [N(1)]), cl('p', [N(2)]),
    cl('q', [A('a')]), cl('q', [A('b')]),
]

# ---------------------------------------------------------------- tests


def test_conj_disj():
    prog = BASE + [
        cl('r', [X, Y], conj(call('p', X), call('q', Y))),
        cl('s', [X], disj(disj(eq(X, N(1)), eq(X, N(2))), eq(X, N(3)))),
        cl('s2', [X], disj(eq(X, N(1)), disj(eq(X, N(2)), eq(X, N(3))))),
        cl('s3', [X, Y], conj(disj(eq(X, N(1)), eq(X, N(2))), disj(eq(Y, A('a')), eq(Y, A('b'))))),
        cl('u', [X], disj(call('p', X), call('q', X))),
        cl('w', [X], disj(FAIL, eq(X, N(1)))),
        cl('w2', [X], conj(TRU, eq(X, N(1)), TRU)),
    ]
    check('conj order', ask(prog, 'r', [X, Y]),
          [(i(1), a('a')), (i(1), a('b')), (i(2), a('a')), (i(2), a('b'))])
    check('disj left nested', ask1(prog, 's', [X]), [i(1), i(2), i(3)])
    check('disj right nested', ask1(prog, 's2', [X]), [i(1), i(2), i(3)])
    check('conj of disj', ask(prog, 's3', [X, Y]),
          [(i(1), a('a')), (i(1), a('b')), (i(2), a('a')), (i(2), a('b'))])
    check('disj of calls', ask1(prog, 'u', [X]), [i(1), i(2), a('a'), a('b')])
    check('fail ; X=1', ask1(prog, 'w', [X]), [i(1)])
    check('true, X=1, true', ask1(prog, 'w2', [X]), [i(1)])
    check('query with bound arg', ask(prog, 'r', [N(2), Y]), [(i(2), a('a')), (i(2), a('b'))])
    check('query no solution', ask(prog, 'r', [N(3), Y]), [])
    check('unknown predicate fails', ask(prog, 'nosuch', [X]), [])
    check('same name other arity fails', ask(prog, 'p', [X, Y]), [])
    check('multiplicity', ask1([cl('m', [N(1)]), cl('m', [N(1)])], 'm', [X]), [i(1), i(1)])


def test_cut():
    prog = BASE + [
        cl('t1', [X], conj(CUT, call('p', X))), cl('t1', [N(9)]),
        cl('t2', [X, Y], conj(call('p', X), CUT, call('q', Y))), cl('t2', [N(0), N(0)]),
        cl('t3', [X], conj(call('p', X), CUT)), cl('t3', [N(9)]),
        cl('t4', [X], disj(conj(call('p', X), CUT), eq(X, N(7)))), cl('t4', [N(8)]),
        cl('t5', [X], disj(FAIL, conj(eq(X, N(7)), CUT), eq(X, N(6)))), cl('t5', [N(8)]),
        cl('t6', [X], disj(ite(TRU, conj(CUT, eq(X, N(1)))), eq(X, N(2)))), cl('t6', [N(3)]),
        cl('t6b', [X], disj(ite(TRU, eq(X, N(1))), eq(X, N(2)))), cl('t6b', [N(3)]),
        cl('t7', [X], disj(ite(FAIL, eq(X, N(1))), conj(CUT, eq(X, N(2))))), cl('t7', [N(3)]),
        cl('t7b', [X], disj(ite(FAIL, eq(X, N(1))), eq(X, N(2)))), cl('t7b', [N(3)]),
        # cut in 'then' of if-then without else
        cl('t8', [X], conj(call('p', X), ite(TRU, CUT))), cl('t8', [N(9)]),
        # cut in the then branch also removes choicepoints of earlier goals
        cl('t9', [X, Y], conj(call('p', X), disj(ite(call('q', Y), CUT), TRU))), cl('t9', [N(0), N(0)]),
        # cut only cuts its own clause
        cl('c', [X], call('t3', X)), cl('c', [N(5)]),
        cl('c2', [X, Y], conj(call('p', X), call('t3', Y))),
        # cut-fail
        cl('nt', [X], conj(eq(X, N(1)), CUT, FAIL)), cl('nt', [ANON]),
        # cut after a disjunction (cuts the disjunction's choicepoint)
        cl('d', [X], conj(disj(eq(X, N(1)), eq(X, N(2))), CUT)), cl('d', [N(3)]),
        # cut in the second clause
        cl('e', [N(1)]), cl('e', [N(2)], CUT), cl('e', [N(3)]),
        # cut in a nested disjunction inside a disjunction
        cl('n', [X], disj(disj(conj(eq(X, N(1)), CUT), eq(X, N(2))), eq(X, N(3)))), cl('n', [N(4)]),
        # a clause that is just a cut
        cl('k', [], CUT), cl('k', []),
    ]
    check('cut first', ask1(prog, 't1', [X]), [i(1), i(2)])
    check('cut middle', ask(prog, 't2', [X, Y]), [(i(1), a('a')), (i(1), a('b'))])
    check('cut last', ask1(prog, 't3', [X]), [i(1)])
    check('cut in left branch of ;', ask1(prog, 't4', [X]), [i(1)])
    check('cut in middle branch of ;', ask1(prog, 't5', [X]), [i(7)])
    check('cut in then', ask1(prog, 't6', [X]), [i(1)])
    check('no cut in then (control)', ask1(prog, 't6b', [X]), [i(1), i(3)])
    check('cut in else', ask1(prog, 't7', [X]), [i(2)])
    check('no cut in else (control)', ask1(prog, 't7b', [X]), [i(2), i(3)])
    check('cut in then of if-then', ask1(prog, 't8', [X]), [i(1)])
    check('cut in then cuts earlier goals', ask(prog, 't9', [X, Y]), [(i(1), a('a'))])
    check('cut is local to clause', ask1(prog, 'c', [X]), [i(1), i(5)])
    check('cut is local to clause 2', ask(prog, 'c2', [X, Y]), [(i(1), i(1)), (i(2), i(1))])
    check('cut-fail nt(1)', ask(prog, 'nt', [N(1)]), [])
    check('cut-fail nt(2)', ask(prog, 'nt', [N(2)]), [(i(2),)])
    check('cut-fail nt(X)', ask(prog, 'nt', [X]), [])
    check('cut after disjunction', ask1(prog, 'd', [X]), [i(1)])
    check('cut in second clause', ask1(prog, 'e', [X]), [i(1), i(2)])
    check('cut in second clause, e(3)', ask1(prog, 'e', [N(3)]), [i(3)])
    check('cut in nested ;', ask1(prog, 'n', [X]), [i(1)])
    check('zero-arity cut clause', ask(prog, 'k', []), [()])


def test_ite():
    prog = BASE + [
        cl('i1', [X], disj(ite(call('p', X), TRU), eq(X, N(0)))),
        cl('i2', [X, Y], disj(ite(call('p', X), call('q', Y)), eq(Y, A('z')))),
        cl('i3', [Y], disj(ite(FAIL, eq(Y, N(1))), call('q', Y))),
        cl('i4', [X], ite(eq(X, N(1)), TRU)),
        cl('i5', [X], ite(FAIL, TRU)), cl('i5', [N(1)]),
        cl('i6', [X, Y], ite(call('p', X), call('q', Y))),
        # right branch of a disjunction is an if-then (not an if-then-else)
        cl('i7', [X], disj(eq(X, N(0)), ite(call('p', X), TRU))),
        # condition binds, else must not see the bindings
        cl('i8', [X, Y], disj(ite(conj(eq(X, N(1)), FAIL), eq(Y, A('t'))), eq(Y, A('e')))),
        # nested if-then-else chain
        cl('i9', [X, Y], disj(ite(eq(X, N(1)), eq(Y, A('one'))),
                              disj(ite(eq(X, N(2)), eq(Y, A('two'))), eq(Y, A('other'))))),
        # if-then-else followed by more goals, in the middle of backtracking
        cl('i10', [X, Y], conj(call('p', X), disj(ite(eq(X, N(1)), eq(Y, A('one'))), eq(Y, A('notone'))))),
        # if-then-else leaves outer choicepoints alone
        cl('i11', [X, Y], conj(call('p', X), disj(ite(call('q', Y), TRU), TRU))),
    ]
    check('ite commits to first cond solution', ask1(prog, 'i1', [X]), [i(1)])
    check('ite then has many solutions', ask(prog, 'i2', [X, Y]), [(i(1), a('a')), (i(1), a('b'))])
    check('ite else has many solutions', ask1(prog, 'i3', [Y]), [a('a'), a('b')])
    check('if-then, cond true', ask(prog, 'i4', [N(1)]), [(i(1),)])
    check('if-then, cond false', ask(prog, 'i4', [N(2)]), [])
    check('if-then fails then next clause', ask1(prog, 'i5', [X]), [i(1)])
    check('if-then many cond solutions', ask(prog, 'i6', [X, Y]), [(i(1), a('a')), (i(1), a('b'))])
    check('E ; (C -> T)', ask1(prog, 'i7', [X]), [i(0), i(1)])
    check('else does not see cond bindings', ask(prog, 'i8', [X, Y]), [(v(0), a('e'))])
    check('ite chain 1', ask(prog, 'i9', [N(1), Y]), [(i(1), a('one'))])
    check('ite chain 2', ask(prog, 'i9', [N(2), Y]), [(i(2), a('two'))])
    check('ite chain 3', ask(prog, 'i9', [N(3), Y]), [(i(3), a('other'))])
    check('ite chain unbound', ask(prog, 'i9', [X, Y]), [(i(1), a('one'))])
    check('ite under backtracking', ask(prog, 'i10', [X, Y]), [(i(1), a('one')), (i(2), a('notone'))])
    check('ite keeps outer choicepoints', ask(prog, 'i11', [X, Y]), [(i(1), a('a')), (i(2), a('a'))])


def test_negation():
    prog = BASE + [
        cl('n1', [X], conj(call('p', X), neg(eq(X, N(1))))),
        cl('n2', [X], neg(neg(eq(X, N(1))))),
        cl('n3', [X], neg(call('p', X))),
        cl('n4', [X], conj(neg(call('p', N(3))), eq(X, A('ok')))),
        cl('n5', [X], conj(call('p', X), neg(conj(call('q', Y), eq(Y, A('c')))))),
        cl('n6', [], neg(FAIL)),
        cl('n7', [], neg(TRU)),
        cl('n8', [X], disj(neg(call('p', X)), eq(X, A('alt')))),
        cl('ne', [X, Y], call('\\=', X, Y)),
    ]
    check('\\+ filter', ask1(prog, 'n1', [X]), [i(2)])
    check('\\+ \\+ binds nothing', ask1(prog, 'n2', [X]), [v(0)])
    check('\\+ p(X) fails', ask(prog, 'n3', [X]), [])
    check('\\+ p(3) succeeds', ask1(prog, 'n4', [X]), [a('ok')])
    check('\\+ of conj', ask1(prog, 'n5', [X]), [i(1), i(2)])
    check('\\+ fail', ask(prog, 'n6'), [()])
    check('\\+ true', ask(prog, 'n7'), [])
    check('\\+ then alternative', ask1(prog, 'n8', [X]), [a('alt')])
    check('\\= different', ask(prog, 'ne', [A('a'), A('b')]), [(a('a'), a('b'))])
    check('\\= same', ask(prog, 'ne', [A('a'), A('a')]), [])
    check('\\= unifiable', ask(prog, 'ne', [X, A('a')]), [])
    check('\\= binds nothing', ask(prog, 'ne', [F('f', X, N(1)), F('f', A('a'), N(2))]),
          [(f('f', v(0), i(1)), f('f', a('a'), i(2)))])
    check('\\= as query', ask([], '\\=', [F('f', X), F('g', X)]), [(f('f', v(0)), f('g', v(0)))])


def test_nested():
    prog = BASE + [
        cl('m', [X, Y], disj(conj(call('p', X), disj(ite(eq(X, N(2)), eq(Y, A('two'))), eq(Y, A('other')))),
                             conj(eq(X, N(0)), eq(Y, A('zero'))))),
        # negation inside condition inside disjunction inside conjunction
        cl('m2', [X, Y], conj(call('p', X),
                              disj(ite(neg(eq(X, N(1))), eq(Y, A('not1'))), eq(Y, A('is1'))))),
        # if-then-else inside the condition of an if-then-else
        cl('m3', [X, Y], disj(ite(disj(ite(eq(X, N(1)), FAIL), TRU), eq(Y, A('t'))), eq(Y, A('e')))),
        # once inside findall inside once
        cl('m5', [V('L')], call('once', F('findall', X, F('once', F('p', X)), V('L')))),
        # disjunction inside then, cut inside that disjunction cuts the clause
        cl('m6', [X], conj(call('p', Y), disj(ite(TRU, disj(conj(eq(X, Y), CUT), eq(X, A('no')))), TRU))),
        cl('m6', [A('second')]),
    ]
    check('nested 1', ask(prog, 'm', [X, Y]),
          [(i(1), a('other')), (i(2), a('two')), (i(0), a('zero'))])
    check('nested 2', ask(prog, 'm2', [X, Y]), [(i(1), a('is1')), (i(2), a('not1'))])
    check('nested 3 (X=1)', ask(prog, 'm3', [N(1), Y]), [(i(1), a('e'))])
    check('nested 3 (X=2)', ask(prog, 'm3', [N(2), Y]), [(i(2), a('t'))])
    check('nested 5', ask1(prog, 'm5', [V('L')]), [lst(i(1))])
    check('nested 6', ask1(prog, 'm6', [X]), [i(1)])
    # findall inside \+ inside findall
    prog2 = BASE + [
        cl('qq', [N(1)]),
        cl('m4', [V('L')],
           call('findall', X,
                F(',', F('p', X), F('\\+', F(',', F('findall', Y, F('qq', Y), V('M')), F('=', V('M'), L(X))))),
                V('L'))),
    ]
    # for X=1: findall gives [1] = [1] -> \+ fails; for X=2: [1] = [2] fails -> \+ succeeds
    check('nested 4', ask1(prog2, 'm4', [V('L')]), [lst(i(2))])


def test_call():
    prog = BASE + [
        cl('pair', [A('a'), A('b')]), cl('pair', [A('a'), A('c')]),
        cl('foo', [A('x'), N(1)]),
        cl('c1', [X], call('call', A('p'), X)),
        cl('cg', [G, Y], conj(eq(G, F('q', Y)), call('call', G))),
        cl('c2', [Y], call('call', F('pair', A('a')), Y)),
        cl('c3', [X, Y], call('call', A('pair'), X, Y)),
        cl('c4', [X], conj(eq(G, F('foo', A('x'))), call('call', G, X))),
        cl('lc', [X], conj(call('p', X), call('call', A('!')))),
        cl('lc2', [X], call('call', F(',', F('p', X), A('!')))), cl('lc2', [N(9)]),
        cl('cv', [], call('call', X)),
        cl('cn', [], call('call', N(3))),
        cl('cn2', [], call('call', N(3), A('a'))),
        cl('cv2', [], call('call', F(',', A('true'), X))),
        cl('cbad', [], call('call', F(',', A('fail'), N(1)))),
        cl('cc', [X], call('call', F(';', F('=', X, N(1)), F('=', X, N(2))))),
        cl('cite', [X], call('call', F(';', F('->', F('p', X), A('true')), F('=', X, N(0))))),
        cl('cneg', [X], conj(call('p', X), call('call', F('\\+', F('=', X, N(1)))))),
        cl('ccall', [X], call('call', A('call'), A('p'), X)),
        cl('cz', [], call('call', A('zero'))), cl('zero', []),
        # goal var bound later than clause entry, with closure + 2 extra args
        cl('maplist', [ANON, L(), L()]),
        cl('maplist', [G, P([X], V('Xs')), P([Y], V('Ys'))],
           conj(call('call', G, X, Y), call('maplist', G, V('Xs'), V('Ys')))),
        cl('succ_of', [X, F('s', X)]),
        # variable goal inside a called conjunction: cut in it is local to that goal
        cl('vcut', [V('L')], call('findall', Y, F(',', F('=', X, A('!')), F(',', F('q', Y), X)), V('L'))),
        cl('vcut2', [V('L')], call('findall', Y, F(',', F('q', Y), A('!')), V('L'))),
    ]
    check('call(p, X)', ask1(prog, 'c1', [X]), [i(1), i(2)])
    check('call(G) G in var', ask(prog, 'cg', [G, Y]),
          [(f('q', a('a')), a('a')), (f('q', a('b')), a('b'))])
    check('call(pair(a), Y)', ask1(prog, 'c2', [Y]), [a('b'), a('c')])
    check('call(pair, X, Y)', ask(prog, 'c3', [X, Y]), [(a('a'), a('b')), (a('a'), a('c'))])
    check('call(G, X), G = foo(x)', ask1(prog, 'c4', [X]), [i(1)])
    check('call(!) is local', ask1(prog, 'lc', [X]), [i(1), i(2)])
    check('call((p(X), !)) is local', ask1(prog, 'lc2', [X]), [i(1), i(9)])
    raises('call(unbound)', lambda: ask(prog, 'cv'))
    raises('call(3)', lambda: ask(prog, 'cn'))
    raises('call(3, a)', lambda: ask(prog, 'cn2'))
    raises('call((true, X))', lambda: ask(prog, 'cv2'))
    raises('call((fail, 1))', lambda: ask(prog, 'cbad'))
    check('call of ;', ask1(prog, 'cc', [X]), [i(1), i(2)])
    check('call of if-then-else', ask1(prog, 'cite', [X]), [i(1)])
    check('call of \\+', ask1(prog, 'cneg', [X]), [i(2)])
    check('call(call, p, X)', ask1(prog, 'ccall', [X]), [i(1), i(2)])
    check('call(zero)', ask(prog, 'cz'), [()])
    check('maplist', ask1(prog, 'maplist', [A('succ_of'), L(N(1), A('a')), X])[0:1],
          [a('succ_of')])
    check('maplist result', ask(prog, 'maplist', [A('succ_of'), L(N(1), A('a')), X]),
          [(a('succ_of'), lst(i(1), a('a')), lst(f('s', i(1)), f('s', a('a'))))])
    check('call directly as query', ask(prog, 'call', [A('p'), X]), [(a('p'), i(1)), (a('p'), i(2))])
    check('cut in variable goal is local', ask1(prog, 'vcut', [V('L')]), [lst(a('a'), a('b'))])
    check('cut in findall goal is local to findall', ask1(prog, 'vcut2', [V('L')]), [lst(a('a'))])


def test_once():
    prog = BASE + [
        cl('o1', [X], call('once', F('p', X))),
        cl('o2', [], call('once', A('fail'))),
        cl('o3', [X, Y], conj(call('once', F('p', X)), call('q', Y))),
        cl('o4', [X, Y], conj(call('q', Y), call('once', F('p', X)))),
        cl('o5', [X], call('once', F(';', F('=', X, N(1)), F('=', X, N(2))))),
        cl('o6', [X], call('once', G)),
    ]
    check('once first only', ask1(prog, 'o1', [X]), [i(1)])
    check('once(fail)', ask(prog, 'o2'), [])
    check('once then more', ask(prog, 'o3', [X, Y]), [(i(1), a('a')), (i(1), a('b'))])
    check('once keeps outer choicepoints', ask(prog, 'o4', [X, Y]), [(i(1), a('a')), (i(1), a('b'))])
    check('once of ;', ask1(prog, 'o5', [X]), [i(1)])
    raises('once(unbound)', lambda: ask(prog, 'o6', [X]))


def test_findall():
    LL = V('L')
    prog = BASE + [
        cl('fa', [LL], call('findall', F('f', X, Y), F('p', X), LL)),
        cl('fa2', [LL], conj(call('findall', Y, F('p', ANON), LL), eq(LL, P([A('a')], ANON)))),
        cl('fa3', [X, LL], call('findall', X, F('p', X), LL)),
        cl('fa4', [LL], call('findall', X, F('nosuch', X), LL)),
        cl('fa5', [], call('findall', X, F('p', X), L(N(1)))),
        cl('fa6', [], call('findall', X, F('p', X), L(N(1), N(2)))),
        cl('fa7', [LL], call('findall', F('-', X, Y), F(',', F('p', X), F('q', Y)), LL)),
        cl('fa8', [Z, LL], call('findall', F('g', Z, Z), F('p', ANON), LL)),
        cl('fa9', [LL], call('findall', V('M'), F('findall', X, F('p', X), V('M')), LL)),
        cl('fa10', [X, LL], conj(call('p', X), call('findall', F('-', X, Y), F('q', Y), LL))),
        cl('fa11', [LL], call('findall', X, F(';', F('=', X, N(1)), F(';', F('=', X, N(1)), F('=', X, N(3)))), LL)),
        cl('fa12', [LL], call('findall', X, G, LL)),
        cl('fa13', [LL, V('L2')], conj(call('findall', X, F('p', X), LL), call('findall', X, F('q', X), V('L2')))),
        # template variable bound by goal to a partial structure
        cl('fa14', [LL], call('findall', X, F(';', F('=', X, F('h', Y, Y)), F('=', X, F('h', Y, Z))), LL)),
    ]
    check('findall unbound template vars', ask1(prog, 'fa', [LL]),
          [lst(f('f', i(1), v(0)), f('f', i(2), v(1)))])
    check('findall copies independent', ask1(prog, 'fa2', [LL]), [lst(a('a'), v(0))])
    check('findall leaves no bindings', ask(prog, 'fa3', [X, LL]), [(v(0), lst(i(1), i(2)))])
    check('findall no solutions', ask1(prog, 'fa4', [LL]), [nil])
    check('findall list mismatch', ask(prog, 'fa5'), [])
    check('findall list match', ask(prog, 'fa6'), [()])
    check('findall order', ask1(prog, 'fa7', [LL]),
          [lst(f('-', i(1), a('a')), f('-', i(1), a('b')), f('-', i(2), a('a')), f('-', i(2), a('b')))])
    check('findall outer var copied', ask(prog, 'fa8', [Z, LL]),
          [(v(0), lst(f('g', v(1), v(1)), f('g', v(2), v(2))))])
    check('findall nested', ask1(prog, 'fa9', [LL]), [lst(lst(i(1), i(2)))])
    check('findall sees outer bindings', ask(prog, 'fa10', [X, LL]),
          [(i(1), lst(f('-', i(1), a('a')), f('-', i(1), a('b')))),
           (i(2), lst(f('-', i(2), a('a')), f('-', i(2), a('b'))))])
    check('findall multiplicity', ask1(prog, 'fa11', [LL]), [lst(i(1), i(1), i(3))])
    raises('findall unbound goal', lambda: ask(prog, 'fa12', [LL]))
    check('two findalls', ask(prog, 'fa13', [LL, V('L2')]), [(lst(i(1), i(2)), lst(a('a'), a('b')))])
    check('findall sharing inside one copy', ask1(prog, 'fa14', [LL]),
          [lst(f('h', v(0), v(0)), f('h', v(1), v(2)))])
    check('findall as query', ask([cl('p', [N(1)])], 'findall', [X, F('p', X), LL]),
          [(v(0), f('p', v(0)), lst(i(1)))])


def test_database():
    LL = V('L')
    prog = [
        cl('d', [A('prog')]),
        cl('p2', [N(0)]),
        cl('lp', [], conj(call('p2', X), call('assertz', F('p2', F('s', X))), FAIL)), cl('lp', []),
        cl('lp3', [], conj(call('retract', F('p3', X)), call('assertz', F('p3', F('f', X))), FAIL)), cl('lp3', []),
        cl('rm2', [], call('retractall', F('r', N(2)))),
        cl('as1', [X], conj(call('assertz', F('k', X, Y, Y)), eq(X, N(1)))),
        cl('as2', [], conj(eq(X, N(5)), eq(G, F('m', X)), call('assertz', G))),
    ]
    res = run(prog, [
        ('d', [X]),                                        # 0
        ('assertz', [F('d', A('dyn'))]),                   # 1
        ('d', [X]),                                        # 2 facts first, then clauses
        ('asserta', [F('d', A('first'))]),                 # 3
        ('d', [X]),                                        # 4
        ('lp', []),                                        # 5 terminates
        ('p2', [X]),                                       # 6
        ('lp', []),                                        # 7
        ('p2', [X]),                                       # 8
        ('assertz', [F('p3', N(1))]),                      # 9
        ('assertz', [F('p3', N(2))]),                      # 10
        ('lp3', []),                                       # 11 terminates
        ('p3', [X]),                                       # 12
        ('retract', [F('d', X)]),                          # 13 retract enumerates facts only
        ('d', [X]),                                        # 14
    ])
    check('db 0', res[0], ('ok', [(a('prog'),)]))
    check('db 1', res[1], ('ok', [(f('d', a('dyn')),)]))
    check('db 2 facts first then clauses', res[2], ('ok', [(a('dyn'),), (a('prog'),)]))
    check('db 4 asserta', res[4], ('ok', [(a('first'),), (a('dyn'),), (a('prog'),)]))
    check('db 5 assert loop terminates', res[5], ('ok', [()]))
    check('db 6', res[6], ('ok', [(f('s', i(0)),), (i(0),)]))
    check('db 7', res[7], ('ok', [()]))
    check('db 8', res[8], ('ok', [(f('s', i(0)),), (f('s', f('s', i(0))),), (f('s', i(0)),), (i(0),)]))
    check('db 11 retract/assert loop terminates', res[11], ('ok', [()]))
    check('db 12', res[12], ('ok', [(f('f', i(1)),), (f('f', i(2)),)]))
    check('db 13 retract all solutions', res[13], ('ok', [(f('d', a('first')),), (f('d', a('dyn')),)]))
    check('db 14 program clauses stay', res[14], ('ok', [(a('prog'),)]))

    # retract on backtracking after another goal removed later facts
    res = run(prog, [
        ('assertz', [F('r', N(1))]), ('assertz', [F('r', N(2))]), ('assertz', [F('r', N(3))]),
        ('findall', [X, F(',', F('retract', F('r', X)), A('rm2')), LL]),
        ('r', [X]),
    ])
    check('retract skips facts removed meanwhile', res[3][1][0][2], lst(i(1), i(3)))
    check('all r gone', res[4], ('ok', []))

    # a call sees the snapshot taken when it started, even for removed facts
    res = run(prog, [
        ('assertz', [F('s', N(1))]), ('assertz', [F('s', N(2))]),
        ('findall', [X, F(',', F('s', X), F('retractall', F('s', ANON))), LL]),
        ('s', [X]),
        ('assertz', [F('s', N(1))]), ('assertz', [F('s', N(2))]),
        ('findall', [X, F(',', F('s', X), F('asserta', F('s', N(0)))), LL]),
        ('s', [X]),
    ])
    check('call uses snapshot (removal)', res[2][1][0][2], lst(i(1), i(2)))
    check('after removal', res[3], ('ok', []))
    check('call uses snapshot (asserta)', res[6][1][0][2], lst(i(1), i(2)))
    check('after asserta', res[7], ('ok', [(i(0),), (i(0),), (i(1),), (i(2),)]))

    # retract binds its argument, removes one fact per solution, first match first
    res = run([], [
        ('assertz', [F('t', N(1), A('a'))]), ('assertz', [F('t', N(2), A('b'))]), ('assertz', [F('t', N(3), A('a'))]),
        ('once', [F('retract', F('t', X, A('a')))]),
        ('t', [X, Y]),
        ('retract', [F('t', X, A('zz'))]),
        ('retract', [F('t', X, Y)]),
        ('t', [X, Y]),
        ('retract', [F('t', X, Y)]),
    ])
    check('once(retract)', res[3], ('ok', [(f('retract', f('t', i(1), a('a'))),)]))
    check('after once(retract)', res[4], ('ok', [(i(2), a('b')), (i(3), a('a'))]))
    check('retract no match', res[5], ('ok', []))
    check('retract all', res[6], ('ok', [(f('t', i(2), a('b')),), (f('t', i(3), a('a')),)]))
    check('after retract all', res[7], ('ok', []))
    check('retract on empty', res[8], ('ok', []))

    # retractall with non-linear pattern
    res = run([cl('pp', [N(9), N(9)])], [
        ('assertz', [F('pp', N(1), N(1))]), ('assertz', [F('pp', N(1), N(2))]),
        ('assertz', [F('pp', N(2), N(2))]), ('assertz', [F('pp', N(3), W)]),
        ('assertz', [F('pp', F('g', X), F('g', N(4)))]), ('assertz', [F('pp', F('g', N(5)), F('h', X))]),
        ('retractall', [F('pp', X, X)]),
        ('pp', [X, Y]),
        ('retractall', [F('pp', X, X)]),
        ('retractall', [F('nosuch', X)]),
        ('retractall', [F('pp', ANON, ANON)]),
        ('pp', [X, Y]),
    ])
    check('retractall binds nothing', res[6], ('ok', [(f('pp', v(0), v(0)),)]))
    check('retractall p(X,X)', res[7],
          ('ok', [(i(1), i(2)), (f('g', i(5)), f('h', v(0))), (i(9), i(9))]))
    check('retractall again succeeds once', res[8], ('ok', [(f('pp', v(0), v(0)),)]))
    check('retractall no facts succeeds once', res[9], ('ok', [(f('nosuch', v(0)),)]))
    check('retractall leaves program clauses', res[11], ('ok', [(i(9), i(9))]))

    # assert copies: bindings at that moment, private variables
    res = run(prog, [
        ('as1', [X]),
        ('k', [X, Y, Z]),
        ('k', [N(1), N(2), Z]),
        ('k', [X, Y, Z]),
        ('as2', []),
        ('m', [X]),
        ('assertz', [A('flag')]),
        ('flag', []),
        ('retract', [A('flag')]),
        ('flag', []),
    ])
    check('as1', res[0], ('ok', [(i(1),)]))
    check('stored fact is a private copy', res[1], ('ok', [(v(0), v(1), v(1))]))
    check('use of fact', res[2], ('ok', [(i(1), i(2), i(2))]))
    check('fact unchanged by use', res[3], ('ok', [(v(0), v(1), v(1))]))
    check('assert goal in variable', res[5], ('ok', [(i(5),)]))
    check('assert atom', res[7], ('ok', [()]))
    check('retract atom', res[8], ('ok', [(a('flag'),)]))
    check('atom fact gone', res[9], ('ok', []))

    raises('assertz(unbound)', lambda: run([], [('assertz', [X])]))
    raises('assertz(3)', lambda: run([], [('assertz', [N(3)])]))
    raises('asserta(unbound)', lambda: run([], [('asserta', [X])]))
    raises('retract(unbound)', lambda: run([], [('retract', [X])]))
    raises('retractall(3)', lambda: run([], [('retractall', [N(3)])]))

    # asserta inside an active retract enumeration is not seen; assert during retract
    res = run([], [
        ('assertz', [F('c', N(1))]), ('assertz', [F('c', N(2))]),
        ('findall', [X, F(',', F('retract', F('c', X)), F('asserta', F('c', N(7)))), LL]),
        ('c', [X]),
    ])
    check('retract uses snapshot', res[2][1][0][2], lst(i(1), i(2)))
    check('after', res[3], ('ok', [(i(7),), (i(7),)]))

    # counter idiom
    cprog = [
        cl('inc', [], conj(call('retract', F('cnt', X)), call('assertz', F('cnt', F('s', X))))),
    ]
    res = run(cprog, [('assertz', [F('cnt', A('z'))]), ('inc', []), ('inc', []), ('cnt', [X])])
    check('counter', res[3], ('ok', [(f('s', f('s', a('z'))),)]))
    check('inc deterministic', res[1], ('ok', [()]))


def test_zero_arity_and_empty_compound():
    prog = [
        cl('z', []), cl('z2', [], call('z')), cl('z3', [], conj(call('z'), call('nosuch'))),
        cl('same', [X, X]),
    ]
    check('z', ask(prog, 'z'), [()])
    check('z2', ask(prog, 'z2'), [()])
    check('z3', ask(prog, 'z3'), [])
    check('f() vs f', ask(prog, 'same', [F('f'), A('f')]), [])
    check('f() = f()', ask(prog, 'same', [F('f'), F('f')]), [(f('f'), f('f'))])
    check('f = f', ask(prog, 'same', [A('f'), A('f')]), [(a('f'), a('f'))])
    check('X = f()', ask(prog, 'same', [X, F('f')]), [(f('f'), f('f'))])
    check('f() \\= f', ask(prog, '\\=', [F('f'), A('f')]), [(f('f'), a('f'))])
    check('f() vs f(a)', ask(prog, 'same', [F('f'), F('f', A('a'))]), [])
    check('atom vs number', ask(prog, 'same', [A('1'), N(1)]), [])
    check('[] is an atom', ask(prog, 'same', [L(), A('[]')]), [(nil, nil)])
    res = run([], [('assertz', [F('e')]), ('retract', [A('e')]), ('retract', [F('e')])])
    check('retract(e) does not match stored e()', res[1], ('ok', []))
    check('retract(e()) matches stored e()', res[2], ('ok', [(f('e'),)]))


def test_lists():
    Xs, Ys, Zs = V('Xs'), V('Ys'), V('Zs')
    prog = [
        cl('app', [L(), Ys, Ys]),
        cl('app', [P([X], Xs), Ys, P([X], Zs)], call('app', Xs, Ys, Zs)),
        cl('same', [X, X]),
        cl('mem', [X, P([X], ANON)]),
        cl('mem', [X, P([ANON], T)], call('mem', X, T)),
        cl('rev', [Xs, Ys], call('rev', Xs, L(), Ys)),
        cl('rev', [L(), Ys, Ys]),
        cl('rev', [P([X], Xs), Y, Zs], call('rev', Xs, P([X], Y), Zs)),
    ]
    check('append split', ask(prog, 'app', [X, Y, L(N(1), N(2))]),
          [(nil, lst(i(1), i(2)), lst(i(1), i(2))),
           (lst(i(1)), lst(i(2)), lst(i(1), i(2))),
           (lst(i(1), i(2)), nil, lst(i(1), i(2)))])
    check('append join', ask(prog, 'app', [L(A('a')), L(A('b'), A('c')), Z]),
          [(lst(a('a')), lst(a('b'), a('c')), lst(a('a'), a('b'), a('c')))])
    check('partial list', ask(prog, 'same', [P([A('a'), A('b')], T), L(A('a'), A('b'), A('c'))]),
          [(lst(a('a'), a('b'), a('c')), lst(a('a'), a('b'), a('c')))])
    check('partial list tail', ask(prog, 'same', [F('t', T), F('t', T)])[0][0], f('t', v(0)))
    check('partial list output', ask(prog, 'same', [X, P([N(1)], T)]),
          [(lst(i(1), tail=v(0)), lst(i(1), tail=v(0)))])
    check("'.'(h,t) is a list pair", ask(prog, 'same', [F('.', A('h'), L(A('t'))), L(A('h'), A('t'))]),
          [(lst(a('h'), a('t')), lst(a('h'), a('t')))])
    check("P with empty items is its tail", ask(prog, 'same', [P([], A('x')), X]), [(a('x'), a('x'))])
    check('list length mismatch', ask(prog, 'same', [L(N(1)), L(N(1), N(2))]), [])
    check('member', ask1(prog, 'mem', [X, L(N(1), N(2), N(3))])[0:3], [i(1), i(2), i(3)])
    check('member with open tail, first solution',
          ask(prog, 'once', [F('mem', A('q'), P([A('p')], T))]),
          [(f('mem', a('q'), lst(a('p'), a('q'), tail=v(0))),)])
    check('reverse', ask(prog, 'rev', [L(N(1), N(2), N(3)), X]),
          [(lst(i(1), i(2), i(3)), lst(i(3), i(2), i(1)))])
    check('nested list', ask(prog, 'same', [L(L(N(1)), L()), X])[0][1], lst(lst(i(1)), nil))


def test_numerals():
    prog = [cl('same', [X, X]), cl('n', [N('007')]), cl('n', [N('0')]), cl('n', [N('00')])]
    check('007 = 7', ask(prog, 'same', [N('007'), N('7')]), [(i(7), i(7))])
    check('n(7)', ask(prog, 'n', [N(7)]), [(i(7),)])
    check('n(0) twice', ask(prog, 'n', [N(0)]), [(i(0),), (i(0),)])
    check('n(X)', ask1(prog, 'n', [X]), [i(7), i(0), i(0)])
    check('7 vs 8', ask(prog, 'same', [N(7), N(8)]), [])
    check('big numeral', ask(prog, 'same', [N('123456789012345678901234567890'), X])[0][1],
          i(123456789012345678901234567890))


def test_aliasing_and_canonical():
    prog = [
        cl('q1', [X, Y], eq(X, Y)),
        cl('q2', [X, Y], eq(Y, X)),
        cl('q3', [X, Y], conj(eq(X, Y), eq(Y, N(1)))),
        cl('q4', [X, Y], conj(eq(Y, X), eq(X, N(1)))),
        cl('q5', [X, Y, Z], conj(eq(X, Y), eq(Z, Y))),
        cl('q6', [X, Y, Z], conj(eq(Z, Y), eq(Y, X), eq(Z, F('g', W)))),
        cl('q7', [X, Y, Z], conj(eq(X, Y), eq(Y, Z), eq(Z, X))),
        cl('oc', [], eq(X, F('f', X))),
        cl('t', [ANON, ANON]),
        cl('hd', [X, X, Y]),
    ]
    check('X = Y', ask(prog, 'q1', [X, Y]), [(v(0), v(0))])
    check('Y = X', ask(prog, 'q2', [X, Y]), [(v(0), v(0))])
    check('X = Y, Y = 1', ask(prog, 'q3', [X, Y]), [(i(1), i(1))])
    check('Y = X, X = 1', ask(prog, 'q4', [X, Y]), [(i(1), i(1))])
    check('X = Y, Z = Y', ask(prog, 'q5', [X, Y, Z]), [(v(0), v(0), v(0))])
    check('chain then bind', ask(prog, 'q6', [X, Y, Z]),
          [(f('g', v(0)), f('g', v(0)), f('g', v(0)))])
    check('alias cycle', ask(prog, 'q7', [X, Y, Z]), [(v(0), v(0), v(0))])
    check('no occurs check', ask(prog, 'oc'), [()])
    check('numbering order', ask(prog, 't', [F('f', Y, X), F('g', X, Z, Y)]),
          [(f('f', v(0), v(1)), f('g', v(1), v(2), v(0)))])
    check('anonymous are distinct', ask(prog, '=', [F('f', ANON, ANON), F('f', A('a'), A('b'))]),
          [(f('f', a('a'), a('b')), f('f', a('a'), a('b')))])
    check('anonymous numbering', ask(prog, 't', [F('f', ANON, X, ANON), X]),
          [(f('f', v(0), v(1), v(2)), v(1))])
    check('query var shared across args', ask(prog, 'hd', [X, F('f', Y), Y]),
          [(f('f', v(0)), f('f', v(0)), v(0))])
    check('head nonlinear', ask(prog, 'hd', [A('a'), A('b'), Y]), [])
    # fresh variables for each activation
    prog2 = [cl('fr', [F('f', X)]), cl('two', [X, Y], conj(call('fr', X), call('fr', Y)))]
    check('fresh vars per activation', ask(prog2, 'two', [X, Y]), [(f('f', v(0)), f('f', v(1)))])
    # variable scope is one clause: X in two clauses unrelated
    prog3 = [cl('a1', [X], call('a2', Y)), cl('a2', [X], eq(X, N(1)))]
    check('clause scope', ask(prog3, 'a1', [X]), [(v(0),)])
    # 4th clause component ignored
    check('flag ignored', ask([('p', [N(1)], 'tru', 'whatever')], 'p', [X]), [(i(1),)])


def test_multi_query_and_budget():
    prog = [
        cl('loop', [], call('loop')),
        cl('lrec', [X], call('lrec', F('s', X))),
        cl('p', [N(1)]),
    ]
    res = run(prog, [('p', [X]), ('loop', []), ('p', [X])], step_budget=5000)
    check('budget', res, [('ok', [(i(1),)]), ('budget',), ('skipped',)])
    res = run(prog, [('lrec', [A('z')]), ('p', [X])], step_budget=5000)
    check('budget growing term', res, [('budget',), ('skipped',)])
    res = run(prog, [('p', [X]), ('p', [N(2)]), ('p', [X])])
    check('multi query', res, [('ok', [(i(1),)]), ('ok', []), ('ok', [(i(1),)])])
    # database persists across queries, query variables do not
    res = run(prog, [('=', [X, N(1)]), ('=', [X, N(2)]), ('assertz', [F('p', X)]), ('p', [X])])
    check('query scopes', res[0:2], [('ok', [(i(1), i(1))]), ('ok', [(i(2), i(2))])])
    check('db persists', res[3], ('ok', [(v(0),), (i(1),)]))
    check('empty queries', run(prog, []), [])
    # cyclic term in an answer cannot be printed: reported as budget (not a hang)
    res = run([], [('=', [X, F('f', X)])], step_budget=1000)
    check('cyclic answer', res, [('budget',)])
    # the recursion limit is restored
    lim = sys.getrecursionlimit()
    run(prog, [('p', [X])])
    check('recursion limit restored', sys.getrecursionlimit(), lim)


def test_deep_and_fast():
    Xs, Ys, Zs = V('Xs'), V('Ys'), V('Zs')
    n = 6000
    big = L(*[N(k) for k in range(n)])
    prog = [
        cl('walk', [L()]),
        cl('walk', [P([ANON], T)], call('walk', T)),
        cl('app', [L(), Ys, Ys]),
        cl('app', [P([X], Xs), Ys, P([X], Zs)], call('app', Xs, Ys, Zs)),
        # non tail recursive: len in successor notation
        cl('len', [L(), A('z')]),
        cl('len', [P([ANON], T), F('s', V('N'))], call('len', T, V('N'))),
        cl('len2', [L(), A('z')]),
        cl('len2', [P([ANON], T), F('s', V('N'))], conj(call('len2', T, V('N')), TRU)),
        cl('mem', [X, P([X], ANON)]),
        cl('mem', [X, P([ANON], T)], call('mem', X, T)),
        cl('nrev', [L(), L()]),
        cl('nrev', [P([X], Xs), Ys], conj(call('nrev', Xs, Zs), call('app', Zs, L(X), Ys))),
    ]
    t0 = time.time()
    r = ask(prog, 'walk', [big])
    check('deep walk', len(r), 1)
    r = ask(prog, 'app', [big, L(A('end')), X])
    check('deep append', flat(r[0][2]), ([i(k) for k in range(n)] + [a('end')], nil))
    r = ask(prog, 'len2', [big, X])
    s = r[0][1]
    depth = 0
    while s[0] == 'f' and s[1] == 's' and len(s) == 3:
        s = s[2]
        depth += 1
    check('deep len (non tail recursive)', (depth, s), (n, a('z')))
    r = ask(prog, 'findall', [X, F('mem', X, big), Y])
    check('findall over big list', flat(r[0][2]), ([i(k) for k in range(n)], nil))
    t1 = time.time()
    print('deep tests: %.2fs' % (t1 - t0))
    # speed: nrev of 60 elements = ~2000 calls
    small = L(*[N(k) for k in range(60)])
    t0 = time.time()
    r = ask(prog, 'nrev', [small, X])
    dt = time.time() - t0
    check('nrev', r[0][1], lst(*[i(k) for k in range(59, -1, -1)]))
    print('nrev 60 (about 2000 calls): %.3fs' % dt)
    check('nrev fast enough', dt < 0.5, True)
    # deep stack of choicepoints: mem leaves one per element
    r = ask(prog, 'findall', [X, F(',', F('mem', X, big), F('mem', X, L(N(n - 1)))), Y], step_budget=10 ** 6)
    check('deep choicepoints', r[0][2], lst(i(n - 1)))
    # many facts asserted
    cprog = [
        cl('fill', [L()]),
        cl('fill', [P([X], T)], conj(call('assertz', F('item', X)), call('fill', T))),
    ]
    res = run(cprog, [('fill', [L(*[N(k) for k in range(2000)])]), ('findall', [X, F('item', X), Y]),
                      ('retractall', [F('item', ANON)]), ('item', [X])])
    check('many facts', flat(res[1][1][0][2]), ([i(k) for k in range(2000)], nil))
    check('many facts removed', res[3], ('ok', []))


def main():
    tests = [test_conj_disj, test_cut, test_ite, test_negation, test_nested, test_call, test_once,
             test_findall, test_database, test_zero_arity_and_empty_compound, test_lists,
             test_numerals, test_aliasing_and_canonical, test_multi_query_and_budget,
             test_deep_and_fast]
    for t in tests:
        before = len(FAILS)
        t()
        print('%-45s %s' % (t.__name__, 'ok' if len(FAILS) == before else 'FAILED'))
    print('%d checks, %d failures' % (COUNT[0], len(FAILS)))
    return 1 if FAILS else 0


if __name__ == '__main__':
    sys.exit(main())
