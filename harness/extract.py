"""Tie T0: translator from /repo's current sources to Lean tables.

Reads engine.py, yp_generator.py, yp_prolog_visitor.py, compiler.py and prologLexer.py with
Python's `ast` module and regenerates lean/Yld/Generated/Tables.lean. Theorems quantify over
these tables, so a source change that alters a table re-checks (and can break) a proof.
"""
import ast, os, re, sys
from . import common

SRC = os.path.join(common.REPO, 'src', 'yldprolog')
OUT = os.path.join(common.LEAN_DIR, 'Yld', 'Generated', 'Tables.lean')


def lean_str(s):
    out = ['"']
    for ch in s:
        if ch == '"':
            out.append('\\"')
        elif ch == '\\':
            out.append('\\\\')
        elif ch == '\n':
            out.append('\\n')
        elif ch == '\r':
            out.append('\\r')
        elif ch == '\t':
            out.append('\\t')
        elif ord(ch) < 32 or ord(ch) == 127:
            out.append('\\x%02x' % ord(ch))
        else:
            out.append(ch)
    out.append('"')
    return ''.join(out)


def lean_list(items):
    return '[' + ', '.join(items) + ']'


def parse(name):
    path = os.path.join(SRC, name)
    return ast.parse(open(path, encoding='utf8').read(), path)


def find_class(tree, name):
    for n in tree.body:
        if isinstance(n, ast.ClassDef) and n.name == name:
            return n
    raise KeyError(name)


def find_method(cls, name):
    for n in cls.body:
        if isinstance(n, ast.FunctionDef) and n.name == name:
            return n
    raise KeyError(name)


def api_names(engine):
    yp = find_class(engine, 'YP')
    m = find_method(yp, '_set_default_eval_context')
    for n in ast.walk(m):
        if isinstance(n, ast.Assign) and isinstance(n.value, ast.Dict):
            keys = []
            for k in n.value.keys:
                if not (isinstance(k, ast.Constant) and isinstance(k.value, str)):
                    raise ValueError('non-literal key in eval context')
                keys.append(k.value)
            return keys
    raise ValueError('eval_context dict literal not found')


def builtin_keys(engine):
    """(prolog name, key, method name) for every register_function call in _set_builtin_predicates"""
    yp = find_class(engine, 'YP')
    m = find_method(yp, '_set_builtin_predicates')
    out = []
    for n in ast.walk(m):
        if isinstance(n, ast.Call) and isinstance(n.func, ast.Attribute) and n.func.attr == 'register_function':
            name = n.args[0].value
            f = n.args[1]
            arity = None
            for kw in n.keywords:
                if kw.arg == 'arity':
                    arity = ast.literal_eval(kw.value)
            if len(n.args) > 2:
                arity = ast.literal_eval(n.args[2])
            if isinstance(f, ast.Attribute):       # self.method
                fn = find_method(yp, f.attr)
                params = len(fn.args.args) - 1 + len(fn.args.kwonlyargs) + (1 if fn.args.vararg else 0)
                fname = f.attr
            else:                                   # module-level function
                fn = [x for x in engine.body if isinstance(x, ast.FunctionDef) and x.name == f.id][0]
                params = len(fn.args.args) + (1 if fn.args.vararg else 0)
                fname = f.id
            if arity is None:
                arity = params
            key = '%s_n' % name if arity < 0 else '%s_%d' % (name, arity)
            out.append((name, key, fname))
    return out


MUTABLE_CALLS = {'dict', 'list', 'set', 'defaultdict', 'OrderedDict', 'deque', 'WeakSet', 'WeakValueDictionary', 'Counter'}


def is_mutable_value(v):
    if isinstance(v, (ast.Dict, ast.List, ast.Set, ast.ListComp, ast.DictComp, ast.SetComp)):
        return True
    if isinstance(v, ast.Call):
        f = v.func
        name = f.id if isinstance(f, ast.Name) else (f.attr if isinstance(f, ast.Attribute) else '')
        return name in MUTABLE_CALLS
    return False


def shared_state_sites(engine, allow=('_verif_variables',)):
    """module-level mutable bindings, mutable class attributes, mutable default arguments,
    global/nonlocal statements in engine.py. The verification hook's weak set is allowed
    (guarded by YLDPROLOG_VERIF, write-only)."""
    sites = []

    def targets(n):
        return [t.id for t in n.targets if isinstance(t, ast.Name)] if isinstance(n, ast.Assign) else \
            ([n.target.id] if isinstance(n, ast.AnnAssign) and isinstance(n.target, ast.Name) else [])

    def scan_block(body, where):
        for n in body:
            if isinstance(n, (ast.Assign, ast.AnnAssign)) and n.value is not None and is_mutable_value(n.value):
                for t in targets(n):
                    if t not in allow:
                        sites.append('%s:%d mutable %s' % (where, n.lineno, t))
            if isinstance(n, (ast.If, ast.Try, ast.With)):
                for sub in ('body', 'orelse', 'finalbody'):
                    scan_block(getattr(n, sub, []), where)
    scan_block(engine.body, 'module')
    for n in ast.walk(engine):
        if isinstance(n, ast.ClassDef):
            scan_block(n.body, 'class ' + n.name)
        if isinstance(n, (ast.Global, ast.Nonlocal)):
            # nonlocal inside rename_variables would be fine, but none is used: keep it strict
            sites.append('line %d %s %s' % (n.lineno, type(n).__name__.lower(), ','.join(n.names)))
        if isinstance(n, (ast.FunctionDef, ast.Lambda)):
            for d in list(n.args.defaults) + [d for d in n.args.kw_defaults if d is not None]:
                if is_mutable_value(d):
                    sites.append('line %d mutable default argument' % d.lineno)
    return sites


ORACLE_CALLS = {'set', 'frozenset', 'hash', 'id', 'vars', 'dir', 'globals', 'locals'}
ORACLE_MODULES = {'random', 'time', 'datetime', 'uuid', 'os', 'secrets', 'threading', 'tempfile', 'socket'}


def oracle_sites(mods):
    """places in the compiler modules whose result can depend on something other than the
    source text: set iteration, hash(), id(), clocks, randomness, environment"""
    sites = []
    for name, tree in mods:
        for n in ast.walk(tree):
            if isinstance(n, ast.Call) and isinstance(n.func, ast.Name) and n.func.id in ORACLE_CALLS:
                sites.append('%s:%d %s()' % (name, n.lineno, n.func.id))
            if isinstance(n, (ast.Set, ast.SetComp)):
                sites.append('%s:%d set display' % (name, n.lineno))
            if isinstance(n, ast.Import):
                for a in n.names:
                    if a.name.split('.')[0] in ORACLE_MODULES:
                        sites.append('%s:%d import %s' % (name, n.lineno, a.name))
            if isinstance(n, ast.ImportFrom) and n.module and n.module.split('.')[0] in ORACLE_MODULES:
                sites.append('%s:%d from %s import' % (name, n.lineno, n.module))
    return sites


def lexer_tables():
    text = open(os.path.join(SRC, 'prologLexer.py'), encoding='utf8').read()
    tree = ast.parse(text)
    cls = find_class(tree, 'prologLexer')
    out = {}
    for n in cls.body:
        if isinstance(n, ast.Assign) and isinstance(n.targets[0], ast.Name) and n.targets[0].id in ('literalNames', 'symbolicNames', 'ruleNames'):
            out[n.targets[0].id] = ast.literal_eval(n.value)
    return out


def generator_constants(gen):
    consts = {}
    for n in gen.body:
        if isinstance(n, ast.Assign) and isinstance(n.targets[0], ast.Name) and n.targets[0].id == '_output_header':
            consts['header'] = ast.literal_eval(n.value)
    g = find_class(gen, 'YPPythonCodeGenerator')
    init = find_method(g, '__init__')
    for n in ast.walk(init):
        if isinstance(n, ast.Assign) and isinstance(n.targets[0], ast.Attribute) and n.targets[0].attr == 'tabwidth':
            consts['tabwidth'] = ast.literal_eval(n.value)
    return consts


def cli_options(comp):
    opts = []
    for n in comp.body:
        if isinstance(n, ast.FunctionDef) and n.name == 'main':
            for d in n.decorator_list:
                if isinstance(d, ast.Call) and isinstance(d.func, ast.Attribute) and d.func.attr == 'option':
                    names = [a.value for a in d.args if isinstance(a, ast.Constant)]
                    flag = any(kw.arg == 'is_flag' for kw in d.keywords)
                    opts.append((names, flag))
    return opts


def tables():
    engine = parse('engine.py')
    gen = parse('yp_generator.py')
    vis = parse('yp_prolog_visitor.py')
    comp = parse('compiler.py')
    return {
        'api': api_names(engine),
        'builtins': builtin_keys(engine),
        'shared': shared_state_sites(engine),
        'oracle': oracle_sites([('yp_generator.py', gen), ('yp_prolog_visitor.py', vis), ('compiler.py', comp)]),
        'lexer': lexer_tables(),
        'gen': generator_constants(gen),
        'cli': cli_options(comp),
    }


def render(t):
    L = []
    L.append('/-  GENERATED by harness/extract.py from /repo/src/yldprolog — do not edit.')
    L.append('    Regenerated on every check run; theorems in Yld/Properties quantify over these tables. -/')
    L.append('namespace Yld.Generated')
    L.append('')
    L.append('/-- keys of `_set_default_eval_context` (engine.py) -/')
    L.append('def apiNames : List String := ' + lean_list([lean_str(s) for s in t['api']]))
    L.append('')
    L.append('/-- `_set_builtin_predicates`: (Prolog name, context key, implementing function) -/')
    L.append('def builtins : List (String × String × String) := ' +
             lean_list(['(%s, %s, %s)' % (lean_str(a), lean_str(b), lean_str(c)) for a, b, c in t['builtins']]))
    L.append('')
    L.append('/-- module-level mutable bindings, mutable class attributes, mutable default arguments and')
    L.append('    global/nonlocal statements found in engine.py -/')
    L.append('def sharedStateSites : List String := ' + lean_list([lean_str(s) for s in t['shared']]))
    L.append('')
    L.append('/-- places in the compiler modules whose value can depend on something other than the source text -/')
    L.append('def oracleSites : List String := ' + lean_list([lean_str(s) for s in t['oracle']]))
    L.append('')
    lx = t['lexer']
    for k in ('literalNames', 'symbolicNames', 'ruleNames'):
        L.append('def lexer_%s : List String := ' % k + lean_list([lean_str(s) for s in lx.get(k, [])]))
    L.append('')
    L.append('def generatorHeader : String := ' + lean_str(t['gen'].get('header', '')))
    L.append('def generatorTabwidth : Nat := %d' % t['gen'].get('tabwidth', 0))
    L.append('')
    L.append('/-- click options of `main`: (names, is_flag) -/')
    L.append('def cliOptions : List (List String × Bool) := ' +
             lean_list(['(%s, %s)' % (lean_list([lean_str(n) for n in names]), 'true' if flag else 'false') for names, flag in t['cli']]))
    L.append('')
    L.append('end Yld.Generated')
    return '\n'.join(L) + '\n'


def render_grammar():
    """the parser rules of prolog.g4 as BNF productions (EBNF expanded by harness/g4.py)"""
    from . import g4
    rec = g4.recogniser()
    rows = []
    for lhs, alts in rec.by_lhs.items():
        for alt in alts:
            syms = []
            for s in alt:
                if isinstance(s, tuple):
                    syms.append('(true, %s)' % lean_str(s[1]))
                else:
                    syms.append('(false, %s)' % lean_str(s))
            rows.append('  (%s, [%s])' % (lean_str(lhs), ', '.join(syms)))
    return ('/-  GENERATED by harness/extract.py from /repo/src/yldprolog/prolog.g4 (parser rules, EBNF expanded to\n'
            '    BNF by harness/g4.py) — do not edit. Regenerated on every check run. -/\n'
            'namespace Yld.Generated\n\n'
            '/-- productions: (left-hand side, right-hand side); a symbol is (isTerminal, name); terminals are\n'
            '    token kinds as `Tok.kind` names them -/\n'
            'def grammar : List (String × List (Bool × String)) := [\n' + ',\n'.join(rows) + '\n]\n\n'
            'end Yld.Generated\n')


def _write_if_changed(path, text):
    os.makedirs(os.path.dirname(path), exist_ok=True)
    old = open(path).read() if os.path.exists(path) else None
    if old != text:
        with open(path, 'w') as f:
            f.write(text)


def write_tables():
    text = render(tables())
    _write_if_changed(OUT, text)
    _write_if_changed(os.path.join(os.path.dirname(OUT), 'Grammar.lean'), render_grammar())
    return text


if __name__ == '__main__':
    sys.stdout.write(write_tables())
