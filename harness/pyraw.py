"""Tie T2q: CPython against the model of Python (`Yld.Model.Py`) on *arbitrary* programs of the
emitted subset, not only on the shapes the compiler prints.

A generated script (generator functions built from `for … in unify(..)`, `for … in query(..)`,
one-element loops, `if <flag>`, `if True/False`, flag assignments, `yield`, `return`, `break`,
`x = variable()`, `x = y`) is loaded into the real engine with `load_script_from_string` and run
by CPython; the same text, parsed by Python's own `ast` into the S-expression form of tie T1, is
run by the driver with `pyStmts`/`pyCall` (op `rawscenario`). Answers, endings (including
`UnboundLocalError` for a flag read before it is assigned, a consumer that stops or raises) and
the number of variables left bound must agree.

What the generator respects, because the model does not represent it: a name is either a term
variable (declared at the top of the function, as the compiler does) or a flag (a flag that is
read is assigned somewhere in the function, so that reading it early is UnboundLocalError and not
NameError); loop targets are never read; `break` only inside a loop; every function contains a
`yield`; functions call only functions defined earlier (no recursion).
"""
from . import common, real as R, pyast, scen
from .common import Sym, sx

FLAGS = ['doBreak', 'cutIf1', 'cutIf2', 'seen']
ATOMS = ['a', 'b', 'c']


class G:
    def __init__(self, rnd):
        self.r = rnd
        self.funcs = []          # (name, arity)
        self.loopvar = 0

    def term(self, tvars, d=2):
        r = self.r
        k = r.random()
        if k < 0.35 and tvars:
            return r.choice(tvars)
        if k < 0.6 or d == 0:
            return "atom(%r)" % r.choice(ATOMS) if r.random() < 0.8 else str(r.randint(0, 3))
        if k < 0.75:
            return "functor(%r, [%s])" % (r.choice(['f', 'g']), ', '.join(self.term(tvars, d - 1) for _ in range(r.randint(1, 2))))
        if k < 0.85:
            return "makelist([%s])" % ', '.join(self.term(tvars, d - 1) for _ in range(r.randint(1, 3)))
        if k < 0.93:
            return "listpair(%s, %s)" % (self.term(tvars, d - 1), self.term(tvars, d - 1))
        return "ATOM_NIL"

    def stmts(self, tvars, depth, in_loop, n=None):
        out = []
        for _ in range(n if n is not None else self.r.randint(1, 3)):
            out.extend(self.stmt(tvars, depth, in_loop))
        return out

    def stmt(self, tvars, depth, in_loop):
        """list of lines (without indentation of the enclosing block)"""
        r = self.r
        k = r.random()
        ind = lambda ls: ['    ' + l for l in ls]
        if depth <= 0 or k < 0.22:
            c = r.random()
            if c < 0.45:
                return ['yield %s' % r.choice(['False', 'False', 'True'])]
            if c < 0.65:
                return ['%s = %s' % (r.choice(FLAGS), r.choice(['True', 'False']))]
            if c < 0.75 and in_loop:
                return ['break']
            if c < 0.83:
                return ['return']
            if c < 0.9:
                return ['pass']
            return ['yield False']
        self.loopvar += 1
        lv = 'l%d' % self.loopvar
        if k < 0.45:
            return ['for %s in unify(%s, %s):' % (lv, self.term(tvars), self.term(tvars))] + ind(self.stmts(tvars, depth - 1, True))
        if k < 0.62:
            if self.funcs and r.random() < 0.7:
                name, ar = r.choice(self.funcs)
            else:
                name, ar = 'fact', 1
            args = ', '.join(self.term(tvars) for _ in range(ar))
            return ['for %s in query(%r, [%s]):' % (lv, name, args)] + ind(self.stmts(tvars, depth - 1, True))
        if k < 0.74:
            return ['for _ in [1]:'] + ind(self.stmts(tvars, depth - 1, True))
        if k < 0.92:
            return ['if %s:' % r.choice(FLAGS)] + ind(self.stmts(tvars, depth - 1, in_loop))
        return ['if %s:' % r.choice(['True', 'False'])] + ind(self.stmts(tvars, depth - 1, in_loop))

    def function(self, idx):
        r = self.r
        ar = r.randint(1, 2)
        name = 'g%d' % idx
        params = ['arg%d' % (i + 1) for i in range(ar)]
        lines = []
        tvars = list(params)
        for v in r.sample(['X', 'Y', 'Z'], r.randint(0, 2)):
            lines.append('%s = %s' % (v, 'variable()' if r.random() < 0.7 else r.choice(tvars)))
            tvars.append(v)
        for f in FLAGS:
            if r.random() < 0.75:
                lines.append('%s = %s' % (f, r.choice(['True', 'False'])))
        body = self.stmts(tvars, r.randint(2, 4), False, n=r.randint(1, 4))
        lines += body
        text = '\n'.join(lines)
        # a flag that is read but assigned nowhere would be a global name: make it a local
        for f in FLAGS:
            if ('if %s:' % f) in text and (f + ' = ') not in text:
                lines += ['if False:', '    %s = False' % f]
        lines += ['if False:', '    yield False']
        self.funcs.append((name, ar))
        return 'def %s_%d(%s):\n' % (name, ar, ', '.join(params)) + '\n'.join('    ' + l for l in lines) + '\n'

    def program(self):
        return '\n'.join(self.function(i) for i in range(self.r.randint(1, 4)))


def mterm(rnd, d=1):
    k = rnd.random()
    if k < 0.4:
        return [Sym('v'), rnd.randint(0, 2)]
    if k < 0.75 or d == 0:
        return [Sym('a'), rnd.choice(ATOMS)]
    if k < 0.85:
        return [Sym('i'), rnd.randint(0, 3)]
    return [Sym('f'), rnd.choice(['f', 'g'])] + [mterm(rnd, d - 1) for _ in range(rnd.randint(1, 2))]


def case(rep, drv, rnd, i):
    """one generated script: returns 'ok' / 'model' (tie broken, recorded in rep.broken_ties) / 'skipped'"""
    g = G(rnd)
    text = g.program()
    facts = [('assert', 'fact', 'z', [mterm(rnd, 1)]) for _ in range(rnd.randint(0, 3))]
    queries = []
    for _ in range(rnd.randint(2, 4)):
        name, ar = rnd.choice(g.funcs)
        sched = rnd.choice([('all',), ('all',), ('all',), ('stop', rnd.randint(0, 2)), ('raise', rnd.randint(1, 2))])
        queries.append(('query', name, sched, [mterm(rnd, 1) for _ in range(ar)], rnd.choice(['close', 'drop'])))
    rep.count('T2q-scripts')
    rep.evaluations += 1
    # CPython
    try:
        eng = R.RealEngine()
        eng.yp.load_script_from_string(text)
        real = [R.run_op(eng, op) for op in facts + queries]
    except RecursionError:
        rep.count('T2q-skipped')
        return 'skipped'
    # the model of Python on the same text as CPython parsed it
    defs = pyast.module(text)
    enc = []
    for op in facts:
        enc.append([Sym('assert'), op[1], Sym(op[2])] + list(op[3]))
    for op in queries:
        s = Sym('all') if op[2][0] == 'all' else [Sym(op[2][0]), op[2][1]]
        enc.append([Sym('query'), op[1], s] + list(op[3]))
    try:
        model = drv.ask([Sym('rawscenario'), 3000, defs] + enc)
    except common.ModelTimeout:
        rep.count('T2q-skipped')
        return 'skipped'
    if model == Sym('bad-op'):
        raise RuntimeError('driver rejected raw scenario: ' + text)
    model = model[1:]
    for j, op in enumerate(facts + queries):
        a, b = sx(real[j]), sx(model[j])
        if 'oof' in b or b.endswith('cyclic)'):
            rep.count('T2q-unspecified-skipped')
            return 'skipped'
        if a != b:
            rep.disagreements_checked += 1
            rep.broken_ties.append({'tie': 'T2q CPython vs the model of Python on a generated script of the emitted subset',
                                    'label': 'raw script %d' % i, 'op_index': j, 'op': scen.ops_json([op])[0],
                                    'real': a, 'model_python': b, 'python': text})
            return 'model'
        if op[0] == 'query':
            rep.count('T2q-ending:' + sx(real[j][2])[:24])
            rep.count('T2q-answers>0' if len(real[j][1]) else 'T2q-answers=0')
    return 'ok'
