"""C05 - cut commits the clause and nothing else."""
from .. import gen, progcheck, par, scen
from ..frame import Check
from ..common import Sym
PROP = 'C05'


def knobs(rnd):
    return gen.Knobs(cut=True, ctrl=rnd.random() < 0.7, eq=True, max_body=5, n_rules=(2, 4), recursive=0.1)


def mixed_case(rep, drv, rnd, i):
    """cuts next to predicates that are not compiled clauses of the same function: fact predicates
    re-implemented as Python generators that yield True, and definitions chained by a second load.
    A cut (or a true value) in one of them must not end the caller's other alternatives."""
    g = gen.ProgGen(rnd, gen.Knobs(cut=True, ctrl=rnd.random() < 0.5, eq=True, max_body=4, n_rules=(2, 3), n_facts=(2, 4)))
    prog = g.program()
    qs = g.queries(3)
    factpreds = sorted({(c[0], len(c[1])) for c in prog if c[0].startswith('f') and len(c[1]) >= 1})
    ops = []
    if factpreds and rnd.random() < 0.7:
        subset = [p for p in factpreds if rnd.random() < 0.5] or [rnd.choice(factpreds)]
        rest = [c for c in prog if (c[0], len(c[1])) not in subset]
        ops.append(('load', 'overwrite', rest))
        for (name, arity) in subset:
            rows = [progcheck.source_to_model_row(c[1]) for c in prog if (c[0], len(c[1])) == (name, arity)]
            ops.append(('regpy', name, arity, rows, None, rnd.choice(['explicit', 'inferred']), True))      # yields True
        rep.count('python-predicates-yield-True')
    else:
        ops.append(('load', 'overwrite', prog))
    if rnd.random() < 0.5:
        # a second definition of some rule predicates, chained behind the first
        extra = []
        for c in prog:
            if c[0].startswith('r') and rnd.random() < 0.5:
                extra.append((c[0], [('A', 'late')] * len(c[1]), 'tru'))
        if extra:
            ops.append(('load', 'combine', extra))
            rep.count('chained-definitions')
    for name, args in qs:
        ops.append(('query', name, ('all',), args))
    if scen.three_way(rep, drv, ops, 'case %d mixed' % i) == 'ok':
        rep.nontriv(scen.norm([scen.ops_json(ops[:1]), [q[0] for q in qs]]))


def case(rep, drv, rnd, i, tier):
    if i % 4 == 3:
        return mixed_case(rep, drv, rnd, i)
    return progcheck.case(rep, drv, rnd, i, tier)


def run(tier):
    n = 400 if tier == 'quick' else 10000
    progcheck.configure(PROP, knobs=knobs, sched_mode='all', queries_per_prog=3)
    with Check(PROP, tier) as chk:
        par.run_cases(chk.rep, 'harness.checks.c05', 'case', n)
        chk.finish(rule='stratified random programs whose rule bodies contain ! as first/middle/last goal, inside ; branches '
                        'and inside then/else branches (never inside a condition or \\+), with multi-clause predicates '
                        'called from callers that have alternatives; leaf goals have 0-3 solutions; one case in four mixes in fact '
                        'predicates re-implemented as Python generators that yield True and definitions chained by a second load; '
                        'non-trivial = the reference yields >= 1 answer; distinct = distinct (program, query)')


replay = progcheck.replay
