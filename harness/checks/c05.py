"""C05 - cut commits the clause and nothing else."""
from .. import gen, progcheck
PROP = 'C05'


def knobs(rnd):
    return gen.Knobs(cut=True, ctrl=rnd.random() < 0.7, eq=True, max_body=5, n_rules=(2, 4), recursive=0.1)


def run(tier):
    progcheck.run(PROP, tier, knobs, 300, 8000,
                  rule='stratified random programs whose rule bodies contain ! as first/middle/last goal, inside ; branches '
                       'and inside then/else branches (never inside a condition or \\+), with multi-clause predicates '
                       'called from callers that have alternatives; leaf goals have 0-3 solutions; non-trivial = the '
                       'reference yields >= 1 answer; distinct = distinct (program, query)')


replay = progcheck.replay
