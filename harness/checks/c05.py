"""C05 - cut commits the clause and nothing else."""
from .. import gen, progcheck, par, scen
from ..frame import Check
from ..common import Sym
PROP = 'C05'


def knobs(rnd):
    return gen.Knobs(cut=True, ctrl=rnd.random() < 0.7, eq=True, max_body=5, n_rules=(2, 4), recursive=0.1)


def mixed_case(rep, drv, rnd, i):
    """cuts next to predicates that are not compiled clauses of the same function: fact predicates
    re-implemented as Python generators that yield True, and definitions chained by a second load.
    A cut (or a true value) in one of them must not end the caller's other alternatives."""
    g = gen.ProgGen(rnd, gen.Knobs(cut=True, ctrl=rnd.random() < 0.5, eq=True, max_body=4, n_rules=(2, 3), n_facts=(2, 4)))
    prog = g.program()
    qs = g.queries(3)
    factpreds = sorted({(c[0], len(c[1])) for c in prog if c[0].startswith('f') and len(c[1]) >= 1})
    ops = []
    if factpreds and rnd.random() < 0.7:
        subset = [p for p in factpreds if rnd.random() < 0.5] or [rnd.choice(factpreds)]
        rest = [c for c in prog if (c[0], len(c[1])) not in subset]
        ops.append(('load', 'overwrite', rest))
        for (name, arity) in subset:
            rows = [progcheck.source_to_model_row(c[1]) for c in prog if (c[0], len(c[1])) == (name, arity)]
            ops.append(('regpy', name, arity, rows, None, rnd.choice(['explicit', 'inferred']), True))      # yields True
        rep.count('python-predicates-yield-True')
    else:
        ops.append(('load', 'overwrite', prog))
    if rnd.random() < 0.5:
        # a second definition of some rule predicates, chained behind the first
        extra = []
        for c in prog:
            if c[0].startswith('r') and rnd.random() < 0.5:
                extra.append((c[0], [('A', 'late')] * len(c[1]), 'tru'))
        if extra:
            ops.append(('load', 'combine', extra))
            rep.count('chained-definitions')
    for name, args in qs:
        ops.append(('query', name, ('all',), args))
    if scen.three_way(rep, drv, ops, 'case %d mixed' % i) == 'ok':
        rep.nontriv(scen.norm([scen.ops_json(ops[:1]), [q[0] for q in qs]]))


V = lambda n: ('V', n)


def guard_case(rep, drv, rnd, i):
    """guard clauses: an all-variable head in which a variable may occur twice, a leading cut, then
    catch-all clauses. The cut commits only when the head has matched; the later clauses are reachable
    for every call the guard's head does not match."""
    atoms = ['a', 'b', 'c']
    prog = [('it', [('A', a)], 'tru') for a in atoms]
    tests = []
    for n in range(rnd.randint(2, 4)):
        ar = rnd.randint(2, 3)
        names = ['X', 'Y', 'Z'][:ar]
        head = [V(rnd.choice(names[:rnd.randint(1, ar)])) for _ in range(ar)]       # repetitions likely
        after = rnd.choice(['fail', 'tru', ('call', 'it', [head[0]]), ('conj', ('call', 'it', [head[-1]]), 'fail')])
        name = 'g%d' % n
        tests.append((name, head, ('conj', 'cut', after), True))
        for _ in range(rnd.randint(1, 2)):
            tests.append((name, [rnd.choice([('_',), V('P'), ('A', rnd.choice(atoms))]) for _ in range(ar)],
                          rnd.choice(['tru', ('call', 'it', [V('Q')])]), True))
        # callers with alternatives around the guarded predicate
        tests.append(('c%d' % n, [V('A'), V('B')], ('conj', ('call', 'it', [V('A')]), ('conj', ('call', 'it', [V('B')]),
                                                   ('call', name, [V('A'), V('B')] + [V('A')] * (ar - 2)))), True))
    prog += tests
    # a cut that closes the (last) clause behind builtin goals: the builtin may have further answers
    prog += [
        ('take', [V('X')], ('conj', ('call', 'retract', [('F', 'item', [V('X')])]), 'cut'), True),
        ('pickc', [V('X')], ('conj', ('call', 'call', [('A', 'it'), V('X')]), 'cut'), True),
        ('picko', [V('X')], ('conj', ('call', 'once', [('F', 'it', [V('X')])]), ('conj', ('call', 'it', [V('Y')]), 'cut')), True),
        ('pickf', [V('L')], ('conj', ('call', 'findall', [V('X'), ('F', 'it', [V('X')]), V('L')]), ('conj', ('call', 'it', [V('Y')]), 'cut')), True),
        ('pickn', [V('X')], ('conj', ('call', 'it', [V('X')]), ('conj', ('call', '\\=', [V('X'), ('A', atoms[0])]), 'cut')), True),
    ]
    # a cut far down a long body (beyond a dozen goals), and a cut in front of a goal that binds a head argument
    nlong = rnd.randint(12, 17)
    long_body = 'cut'
    if rnd.random() < 0.5:
        long_body = ('conj', 'cut', ('call', 'it', [('_',)]))
    for _ in range(nlong):
        long_body = ('conj', ('call', 'it', [('_',)]) if rnd.random() < 0.3 else 'tru', long_body)
    prog += [('lg', [V('X')], ('conj', ('call', 'it', [V('X')]), long_body), True), ('lg', [('A', 'last')], 'tru'),
             ('st', [V('P'), V('S')], ('conj', ('call', 'it', [V('P')]), ('conj', 'cut', ('call', '=', [V('S'), ('A', 'member')]))), True),
             ('st', [('_',), ('A', 'guest')], 'tru'),
             ('st2', [V('S'), V('P')], ('conj', ('call', 'it', [V('P')]), ('conj', ('call', '=', [V('S'), ('A', 'first')]), ('conj', 'cut', ('call', '=', [V('P'), V('Q')])))), True),
             ('st2', [('A', 'other'), ('_',)], 'tru')]
    ops = [('load', 'overwrite', prog)]
    ops.append(('query', 'lg', ('all',), [[Sym('v'), 0]]))
    for a2 in ['guest', 'member']:
        ops.append(('query', 'st', ('all',), [[Sym('a'), atoms[0]], [Sym('a'), a2]]))
        ops.append(('query', 'st', ('all',), [[Sym('a'), 'nobody'], [Sym('a'), a2]]))
    ops.append(('query', 'st', ('all',), [[Sym('v'), 0], [Sym('v'), 1]]))
    ops.append(('query', 'st2', ('all',), [[Sym('a'), 'other'], [Sym('v'), 1]]))
    for a in rnd.sample(atoms, rnd.randint(2, 3)):
        ops.append(('assert', 'item', 'z', [[Sym('a'), a]]))
    for name in ['take', 'pickc', 'picko', 'pickf', 'pickn']:
        ops.append(('query', name, ('all',), [[Sym('v'), 0]]))
    ops.append(('query', 'item', ('all',), [[Sym('v'), 0]]))
    for t in tests:
        if t[0].startswith('c'):
            ops.append(('query', t[0], ('all',), [[Sym('v'), 0], [Sym('v'), 1]]))
    for n in range(len([t for t in tests if t[0].startswith('c')])):
        ar = len([t for t in tests if t[0] == 'g%d' % n][0][1])
        ops.append(('query', 'g%d' % n, ('all',), [[Sym('a'), 'a'], [Sym('a'), 'b']] + [[Sym('v'), 5]] * (ar - 2)))
        ops.append(('query', 'g%d' % n, ('all',), [[Sym('v'), 0], [Sym('v'), 1]] + [[Sym('v'), 0]] * (ar - 2)))
    rep.count('guard-clauses')
    if scen.three_way(rep, drv, ops, 'case %d guards' % i) == 'ok':
        rep.nontriv(scen.norm(scen.ops_json(ops[:1])))


def case(rep, drv, rnd, i, tier):
    if i % 16 == 9:
        return guard_case(rep, drv, rnd, i)
    if i % 4 == 3:
        return mixed_case(rep, drv, rnd, i)
    return progcheck.case(rep, drv, rnd, i, tier)


def run(tier):
    n = 400 if tier == 'quick' else 10000
    progcheck.configure(PROP, knobs=knobs, sched_mode='all', queries_per_prog=3)
    with Check(PROP, tier) as chk:
        par.run_cases(chk.rep, 'harness.checks.c05', 'case', n)
        chk.finish(rule='stratified random programs whose rule bodies contain ! as first/middle/last goal, inside ; branches '
                        'and inside then/else branches (never inside a condition or \\+), with multi-clause predicates '
                        'called from callers that have alternatives; leaf goals have 0-3 solutions; one case in sixteen: guard clauses '
                        '(all-variable heads with repeated variables, leading cut, catch-all clauses behind); one case in four mixes in fact '
                        'predicates re-implemented as Python generators that yield True and definitions chained by a second load; '
                        'non-trivial = the reference yields >= 1 answer; distinct = distinct (program, query)')


replay = progcheck.replay
