"""C10 - text outside the grammar is rejected, never partially compiled."""
from .. import common, par, cgen, comp, pyast, g4, src as S
from ..frame import Check
from ..common import Sym, sx
import antlr4
from yldprolog.prologLexer import prologLexer
PROP = 'C10'

FOREIGN = ['"', '#', '{', '}', '@', '&', '^', '~', '`', '?', '*', '$', ':', '\\', 'é', ' ', '\x00', '\x0c',
           '\ufeff', '\u200b', '\u00a0', '\uff08', '\u00b2', '\u2028']     # invisible and compatibility characters
INSERT_TOKENS = [')', '(', '.', ',', ']', '[', '|', ';', '->', '/', ':-', '!', 'x', 'X', '7', "'q'", '=', '-', '\\+', "'", '%']


def antlr_tokens(text):
    """the real generated lexer (with ANTLR's default, recovering error handling switched off)"""
    class L(antlr4.error.ErrorListener.ErrorListener):
        def syntaxError(self, *a):
            raise ValueError('lex')
    lx = prologLexer(antlr4.InputStream(text))
    lx.removeErrorListeners()
    lx.addErrorListener(L())
    try:
        toks = lx.getAllTokens()
    except ValueError:
        return None
    return [t.text for t in toks]


def corruptions(rnd, text, spans):
    """single-edit corruptions of a valid program; spans = token (start, end) offsets"""
    out = []
    n = len(spans)
    if n:
        for _ in range(4):
            k = rnd.randrange(n)
            a, b = spans[k]
            out.append(('delete-token', text[:a] + text[b:]))
            out.append(('duplicate-token', text[:b] + ' ' + text[a:b] + text[b:]))
            out.append(('insert-token', text[:a] + rnd.choice(INSERT_TOKENS) + ' ' + text[a:]))
            out.append(('insert-foreign', text[:a] + rnd.choice(FOREIGN) + text[a:]))
            if k + 1 < n:
                c, d = spans[k + 1]
                out.append(('swap-tokens', text[:a] + text[c:d] + text[b:c] + text[a:b] + text[d:]))
            out.append(('truncate-at-token', text[:a]))
            out.append(('truncate-in-token', text[:a + max(1, (b - a) // 2)]))
        # at the very beginning and at the very end
        out.append(('insert-first', rnd.choice(INSERT_TOKENS) + ' ' + text))
        out.append(('garbage-after-last', text + ' ' + rnd.choice(INSERT_TOKENS + [') garbage', "'unterminated", 'foo(a', '% no newline', 'x y'])))
        out.append(('unterminated-quote-at-boundary', _at_boundary(rnd, text, spans, "'")))
        out.append(('lone-token-at-boundary', _at_boundary(rnd, text, spans, rnd.choice(INSERT_TOKENS))))
    k = rnd.randrange(len(text) + 1)
    out.append(('truncate-char', text[:k]))
    out.append(('insert-char', text[:k] + rnd.choice(FOREIGN + INSERT_TOKENS) + text[k:]))
    if text:
        out.append(('delete-char', text[:max(0, k - 1)] + text[k:]))
    return out


def _at_boundary(rnd, text, spans, what):
    ends = [b for (a, b) in spans if text[a:b] == '.']
    if not ends:
        return what + text
    e = rnd.choice(ends)
    return text[:e] + '\n' + what + text[e:]


def token_spans(drv, text):
    toks = drv.ask([Sym('lex'), text])
    if str(toks[0]) != 'ok':
        return None, None
    spans = []
    pos = 0
    for kind, t in toks[1:]:
        i = text.index(t, pos)
        spans.append((i, i + len(t)))
        pos = i + len(t)
    return [k for k, _ in toks[1:]], spans


def cli_rejects(rep, text, label):
    """the command line on a text outside the language: non-zero exit status, nothing written"""
    import os, subprocess, tempfile
    with tempfile.TemporaryDirectory(prefix='yldverif') as td:
        src, out = os.path.join(td, 'in.prolog'), os.path.join(td, 'out.py')
        with open(src, 'wb') as f:
            f.write(text.encode('utf8'))
        env = dict(os.environ)
        env['PYTHONPATH'] = os.path.join(common.REPO, 'src')
        p = subprocess.run([common.PY, '-m', 'yldprolog.compiler', '-o', out, '--', src], capture_output=True, env=env, timeout=120)
        written = open(out, 'rb').read() if os.path.exists(out) else b''
    rep.count('cli-on-rejected-text')
    if p.returncode == 0:
        rep.disagreements_checked += 1
        rep.violation({'text': text, 'edit': label, 'kind': 'the command line exits with status 0 for a text outside the grammar',
                       'stderr': p.stderr.decode('utf8', 'replace')[-300:], 'written': written.decode('utf8', 'replace')[:300]})
        return False
    return True


def judge(rep, drv, rec, text, label):
    """one string: oracle vs real vs model"""
    rep.evaluations += 1
    try:
        lexed = drv.ask([Sym('lex'), text])
        front = comp.model_front(drv, text)
    except common.ModelTimeout:
        rep.count('model-budget-exceeded-skipped')
        return True
    in_lexicon = str(lexed[0]) == 'ok'
    kinds = [k for k, _ in lexed[1:]] if in_lexicon else None
    in_language = in_lexicon and rec.accepts(kinds)
    real = comp.real_compile(text)
    payload = {'text': text, 'edit': label, 'in_lexicon': in_lexicon, 'in_language': in_language,
               'real': real[0] + (':' + real[1] if real[0] != 'ok' else ''), 'model_front': front[0] + ':' + str(front[1])}
    rep.count(('in-language' if in_language else 'outside-language') + '/' + ('compiled' if real[0] == 'ok' else 'rejected'))
    if not in_language and real[0] == 'ok':
        rep.disagreements_checked += 1
        rep.violation(dict(payload, kind='text outside the grammar was compiled', output=real[1][:1500]))
        return False
    if real[0] == 'ok' and in_language:
        # a clause whose head is `true`, `fail` or `!` is a sentence of the grammar, but there is nothing it
        # could define: a compiler that returns has left that clause out
        toks = [(str(k), t) for k, t in lexed[1:]]
        for j, (k, t) in enumerate(toks):
            if k in ('TRUE', 'FAIL', 'CUT') and (j == 0 or toks[j - 1][1] == '.') and j + 1 < len(toks) and toks[j + 1][1] in ('.', ':-'):
                rep.disagreements_checked += 1
                rep.violation(dict(payload, kind='a clause of the text (head %s) is not in the compiled program' % t, output=real[1][:1500]))
                return False
    if real[0] == 'ok':
        # nothing omitted or altered: the definitions are those of the clauses of the text
        if front[0] == 'ok':
            want = sorted(comp.heads_of(front[2]))
            got = sorted(s[1] for s in pyast.module(real[1]) if str(s[0]) == 'def')
            if got != want:
                rep.violation(dict(payload, kind='compiled program does not define the clauses of the input', defined=got, clauses=want))
                return False
            model = comp.model_compile(drv, text)
            if model[0] == 'ok' and sx(pyast.module(real[1])) != sx(model[2]):
                rep.broken_ties.append(dict(payload, tie='T1 emitted Python differs from the model of the compiler'))
        else:
            rep.broken_ties.append(dict(payload, tie='model front end rejects (%s) what the real compiler accepts' % front[1]))
    # ties: model parser vs independent recogniser; model lexer vs the generated lexer
    model_syntax_ok = str(drv.ask([Sym('recognise'), text])) == 'yes'
    if model_syntax_ok != in_language:
        rep.broken_ties.append(dict(payload, tie='model parser and the Earley recogniser of prolog.g4 disagree'))
    at = antlr_tokens(text)
    mt = [t for _, t in lexed[1:]] if in_lexicon else None
    if at != mt:
        rep.broken_ties.append(dict(payload, tie='model lexer and the generated ANTLR lexer disagree', antlr=at, model=mt))
    if in_language and real[0] != 'ok' and front[0] == 'ok' and not front[1]:
        # the front end accepts; the later stages (clause compiler, size limits) may still refuse
        model = comp.model_compile(drv, text)
        if model[0] == 'ok':
            rep.broken_ties.append(dict(payload, tie='real compiler rejects (%s) a sentence the model compiler accepts' % real[1]))
    return True


def case(rep, drv, rnd, i, tier):
    rec = g4.recogniser()
    g = cgen.CGen(rnd, hostile=0.25, directives=0.15, bad_heads=0.03)
    text = g.text(g.program(rnd.randint(1, 4)))
    if rnd.random() < 0.12:
        # a clause that is a sentence of the grammar but defines nothing (the visitor must refuse it)
        text += rnd.choice(['true.', 'fail.', '!.', 'true :- a.', 'fail :- a, b.', '! :- true.']) + '\n' + (g.text(g.program(1)) if rnd.random() < 0.5 else '')
        rep.count('non-predicate-head')
    rep.count('programs')
    if not judge(rep, drv, rec, text, 'none'):
        return
    kinds, spans = token_spans(drv, text)
    if spans is None:
        return
    rep.nontriv(text)
    cli_budget = 2
    for label, t2 in corruptions(rnd, text, spans):
        rep.count('edit:' + label)
        if not judge(rep, drv, rec, t2, label):
            return
        if cli_budget and rnd.random() < 0.1 and comp.real_compile(t2)[0] != 'ok':
            cli_budget -= 1
            if not cli_rejects(rep, t2, label):
                return
    if i % 6 == 0:
        import os, subprocess, tempfile
        import yldprolog.compiler as C
        k = rnd.randrange(len(text) + 1)
        raw = text[:k].encode('utf8') + rnd.choice([b'\xff', b'\xe9', b'\xc3', b'\xf0\x9f']) + text[k:].encode('utf8')
        try:
            raw.decode('utf8')
            valid = True
        except UnicodeDecodeError:
            valid = False
        if not valid:
            with tempfile.TemporaryDirectory(prefix='yldverif') as td:
                src = os.path.join(td, 'bytes.prolog')
                open(src, 'wb').write(raw)

                class Ctx:
                    debug_filename = ''
                    debug_parser = False
                    debug_generator = False
                    current_source_file = src
                    outf = None
                try:
                    C.compile_prolog_from_file(src, Ctx)
                    lib_ok = True
                except Exception:
                    lib_ok = False
                env = dict(os.environ)
                env['PYTHONPATH'] = os.path.join(common.REPO, 'src')
                p = subprocess.run([common.PY, '-m', 'yldprolog.compiler', '--', src], capture_output=True, env=env, timeout=120)
            rep.count('invalid-utf8-source')
            if lib_ok or p.returncode == 0:
                rep.violation({'kind': 'a source file that is not valid UTF-8 is compiled (%s)' % ('library' if lib_ok else 'command line'),
                               'bytes': repr(raw[:200]), 'position': k})
                return
    if i < 2:
        rep.sample({'text': text, 'corruptions': [c for c in corruptions(rnd, text, spans)[:4]]})


def run(tier):
    n = 150 if tier == 'quick' else 4000
    with Check(PROP, tier) as chk:
        par.run_cases(chk.rep, 'harness.checks.c10', 'case', n)
        chk.finish(rule='grammar-derived programs and ~35 single-edit corruptions of each (token deletion, duplication, insertion, adjacent '
                        'swap, truncation at and inside tokens, foreign characters, lone tokens and unterminated quotes at clause '
                        'boundaries, at the very start and after the last clause); oracle = model lexer + Earley recogniser over the '
                        'parser rules read from prolog.g4; violation = oracle rejects and the compiler returns, or the returned program '
                        'does not define exactly the clause heads of the text; ties: model parser vs Earley, model lexer vs generated '
                        'ANTLR lexer, T1; non-trivial = valid base programs; distinct = distinct base texts')


def replay(payload):
    print(payload)
