"""C12 - Prolog text cannot become Python code; loaded code sees only the engine API."""
import io
from .. import common, par, cgen, comp, pyast, src as S, real as R
from ..frame import Check
from ..common import Sym, sx
import yldprolog.engine as E
PROP = 'C12'

HOSTILE_QUERIES = ['__import__', 'eval', 'exec', 'open', 'print', '__builtins__', 'variable', 'atom', 'functor', 'query', 'unify',
                   'match_dynamic', 'makelist', 'listpair', 'ATOM_NIL', 'True', 'False', '__class__', 'os.system', 'yp.clear',
                   'load_script_from_string', 'clear', 'assert_fact', 'register_function', 'functor1', '_', '__', 'match', 'ATOM']


def place_hostile(rnd, g):
    """a clause with a hostile quoted atom in a chosen syntactic position"""
    h = rnd.choice(cgen.QUOTED_ATOMS)
    pos = rnd.choice(['fact-arg', 'head-name', 'goal-name', 'functor-name', 'list-item', 'goal-arg', 'op-arg', 'var-name', 'reserved-goal'])
    if pos == 'reserved-goal':
        # the compiler's internal goal name, at every arity, with the hostile atom where a label would be
        args = [('A', h)] + [rnd.choice([('A', 'x'), ('V', 'X'), ('A', h)]) for _ in range(rnd.randint(0, 2))]
        if rnd.random() < 0.15:
            args = []
        name = '$CUTIF' if rnd.random() < 0.5 else S.escaped_spelling('$CUTIF', rnd, 0.3)
        goal = ('call', name, args)
        if rnd.random() < 0.35:
            # ... or as a goal *term* handed to a meta-call whose argument is known at compile time
            term = ('F', name, args) if args else ('A', name)
            goal = rnd.choice([('call', 'call', [term]), ('call', 'once', [term]), ('call', 'findall', [('A', 'x'), term, ('_',)]),
                               ('call', 'call', [('F', 'call', [term])]), ('call', 'call', [('A', name)] + args)])
        body = rnd.choice([goal, ('conj', ('call', 'q', []), goal), ('disj', ('ite', ('call', 'q', []), goal), 'tru'), ('neg', goal)])
        return ('p', [], body, True), pos, h
    if pos == 'fact-arg':
        c = ('p', [('A', h)], 'tru')
    elif pos == 'head-name':
        c = (h, [('A', 'a')], 'tru')
    elif pos == 'goal-name':
        c = ('p', [], ('call', h, [('A', 'a')]), True)
    elif pos == 'functor-name':
        c = ('p', [('F', h, [('V', 'X'), ('A', h)])], 'tru')
    elif pos == 'list-item':
        c = ('p', [('L', [('A', h), ('A', 'a')])], 'tru')
    elif pos == 'goal-arg':
        c = ('p', [], ('conj', ('call', 'q', [('A', h)]), ('call', '=', [('V', 'X'), ('A', h)])), True)
    elif pos == 'op-arg':
        c = ('p', [('OP', '=', ('A', h), ('V', 'X'))], 'tru')
    else:
        v = rnd.choice(cgen.VAR_NAMES)
        c = ('p', [('V', v), ('L', [])], ('call', 'q', [('V', v), ('L', [])]), True)
    return c, pos, h


def case(rep, drv, rnd, i, tier):
    g = cgen.CGen(rnd, hostile=0.5, bad_heads=0.15)
    c, pos, h = place_hostile(rnd, g)
    clauses = [c] + (g.program(rnd.randint(0, 2)) if rnd.random() < 0.5 else [])
    rnd.shuffle(clauses)
    text = g.text(clauses, decorate=rnd.random() < 0.3)
    debug = None
    if rnd.random() < 0.35:
        debug = {'filename': rnd.random() < 0.5, 'parser': rnd.random() < 0.5, 'generator': rnd.random() < 0.7}
    rep.evaluations += 1
    rep.count('position:' + pos)
    real = comp.real_compile(text, debug)
    payload = {'text': text, 'position': pos, 'hostile_atom': h, 'debug': debug}
    if real[0] != 'ok':
        rep.count('rejected:' + real[1])
    else:
        rep.count('accepted')
        # what the CLI writes is the debug comments followed by the code, in one stream
        combined = real[2] + real[1]
        try:
            bad = pyast.whitelist_violations(combined)
        except SyntaxError as e:
            bad = ['output does not parse: %s' % e]
        except ValueError as e:
            # NUL bytes inside a debug *comment* make compile() refuse the text; nothing can execute
            bad = [] if '\x00' in real[2] and '\x00' not in real[1] else ['output does not parse: %s' % e]
        if bad:
            rep.violation(dict(payload, kind='generated code contains something other than engine calls and constants', findings=bad[:5],
                               output=combined[:1500]))
            return
        # the constants that came from the source are exactly the source's atoms
        problem, added = comp.load_check(real[1])
        if problem:
            rep.violation(dict(payload, kind=problem))
            return
        rep.nontriv(text)
        try:
            model = comp.model_compile(drv, text)
            if model[0] == 'ok' and sx(pyast.module(real[1])) != sx(model[2]):
                rep.broken_ties.append(dict(payload, tie='T1 emitted Python differs from the model of the compiler'))
            elif model[0] != 'ok':
                rep.broken_ties.append(dict(payload, tie='T1 real compiler accepts what the model rejects: ' + model[1]))
        except common.ModelTimeout:
            pass
    # run-time queries cannot reach anything but predicates
    if i % 4 == 0:
        hostile_queries(rep, rnd, payload)
    if i < 3:
        rep.sample({'text': text, 'position': pos})


def hostile_queries(rep, rnd, payload):
    yp = E.YP()
    hist = rnd.choice(['fresh', 'cleared', 'cleared-loaded', 'loaded'])
    if hist.startswith('cleared'):
        yp.clear()
    if hist.endswith('loaded'):
        yp.load_script_from_string(R.compile_text('ok(a).\n'))
    rep.count('engine-history:' + hist)
    if yp.eval_context.get('__builtins__') != {}:
        rep.violation(dict(payload, kind='engine context exposes Python builtins after history: ' + hist))
        return
    for k, f in yp.eval_context.items():
        g = getattr(f, '__globals__', None)
        if k.endswith(('_0', '_1', '_2', '_3')) and g is not None and k == 'ok_1' and g.get('__builtins__') != {}:
            rep.violation(dict(payload, kind='loaded code runs with Python builtins after history: ' + hist))
            return
    keys_before = set(yp.eval_context)
    name = rnd.choice(HOSTILE_QUERIES)
    nargs = rnd.randint(0, 3)
    args = [rnd.choice([yp.atom('os'), 'print(1)', yp.variable(), 1]) for _ in range(nargs)]
    try:
        answers = list(yp.query(name, args))
    except Exception as e:
        rep.violation(dict(payload, kind='hostile query raised %s: %s' % (type(e).__name__, e), query=name, nargs=nargs))
        return
    if answers:
        rep.violation(dict(payload, kind='API name callable as predicate', query=name, nargs=nargs))
        return
    if set(yp.eval_context) != keys_before:
        rep.violation(dict(payload, kind='query changed the engine context', query=name))
    rep.count('hostile-queries')


def run(tier):
    n = 1500 if tier == 'quick' else 40000
    with Check(PROP, tier) as chk:
        par.run_cases(chk.rep, 'harness.checks.c12', 'case', n)
        chk.finish(rule='a hostile quoted atom (newlines + indentation + def/import, quotes, #, parentheses, format specifiers, CR, NUL, '
                        'non-ASCII, $CUTIF) or a hostile variable name placed in every syntactic position (fact argument, head name, goal '
                        'name, nested functor name, list element, goal argument, operator argument), with and without debug output in the '
                        'same stream; the ast of the output is walked against a whitelist (node types, callee names, free names, no '
                        'assignment to API names), the code is loaded and may add only name_arity keys; hostile run-time queries '
                        '(API names, builtins, dunders; fresh / cleared / loaded engines) must yield nothing; non-trivial = accepted text')


def replay(payload):
    print(payload)
