"""C19 - the yldpc command line equals the library; debug options only add comments."""
import os, re, subprocess, tempfile, itertools
from .. import common, par, cgen, comp, src as S
from ..frame import Check
from ..common import Sym, sx
import yldprolog.compiler as C
PROP = 'C19'
FLAGS = ['-d', '--debug-parser', '--debug-generator', '--debug-filename']
NAMES = ['plain.prolog', 'with space.prolog', 'ünï.prolog', 'family\ntree v2.prolog', 'cr\rname.prolog', "quote'.prolog", '#hash.prolog', '-dash.prolog']


BROKEN_TAILS = ["\nfoo(a) :- .\n", "\n) stray.\n", "\nfoo('unterminated).\n", "\nfoo(a)\n", '\np("dq").\n']


def cli(args, stdin=None, cwd=None):
    env = dict(os.environ)
    env['PYTHONPATH'] = os.path.join(common.REPO, 'src')
    env.pop('PYTHONHASHSEED', None)
    p = subprocess.run([common.PY, '-m', 'yldprolog.compiler'] + args, input=stdin, capture_output=True, env=env, cwd=cwd, timeout=120)
    return p.returncode, p.stdout, p.stderr


def strip_comments(text):
    """remove comment lines; lines are what Python's tokenizer takes for lines"""
    lines = re.split(r'(\r\n|\r|\n)', text)
    out = []
    for k in range(0, len(lines), 2):
        line = lines[k]
        end = lines[k + 1] if k + 1 < len(lines) else ''
        if line.startswith('#'):
            continue
        out.append(line + end)
    return ''.join(out)


def lib_compile_file(path):
    class Ctx:
        debug_filename = ''
        debug_parser = False
        debug_generator = False
        current_source_file = path
        outf = None
    return C.compile_prolog_from_file(path, Ctx)


def case(rep, drv, rnd, i, tier):
    g = cgen.CGen(rnd, hostile=0.35)
    nsrc = rnd.choice([1, 1, 2, 3])
    texts = [g.text(g.program(rnd.randint(1, 3))) for _ in range(nsrc)]
    if rnd.random() < 0.35:
        # predicates for which no code at all is generated (the function body is a bare `pass`)
        k = rnd.randrange(nsrc)
        name = rnd.choice(['disabled', 'off', 'never', 'stub'])
        texts[k] += '\n' + rnd.choice(['%s :- fail.', '%s :- \\+ true.', '%s :- fail, q(X).', '%s :- fail.\n%s :- fail -> true.']).replace('%s', name) + '\n'
        rep.count('no-code-predicate')
    broken = rnd.random() < 0.15
    if broken:
        k = rnd.randrange(nsrc)
        texts[k] = texts[k] + rnd.choice(BROKEN_TAILS)
    if rnd.random() < 0.12:
        # a byte order mark: not a character of the grammar, for the library and for the command line alike
        k = rnd.randrange(nsrc)
        texts[k] = '\ufeff' + texts[k]
        broken = True
        rep.count('leading-byte-order-mark')
    rep.evaluations += 1
    with tempfile.TemporaryDirectory(prefix='yldverif') as td:
        paths = []
        for k, t in enumerate(texts):
            path = os.path.join(td, '%d_%s' % (k, rnd.choice(NAMES)))
            with open(path, 'wb') as f:
                f.write(t.encode('utf8'))
            paths.append(path)
        if rnd.random() < 0.2:
            # the same source named twice: compiled twice, in the positions given
            k = rnd.randrange(nsrc)
            j = rnd.randint(0, nsrc)
            paths.insert(j, paths[k])
            texts.insert(j, texts[k])
            nsrc += 1
            rep.count('source-named-twice')
        use_stdin = rnd.random() < 0.3
        # the library's answer for every source
        lib = []
        for p, t in zip(paths, texts):
            try:
                lib.append(('ok', lib_compile_file(p)))
            except Exception as e:
                lib.append(('raise', type(e).__name__, str(e), getattr(e, 'line', None), getattr(e, 'column', None)))
        args_src = list(paths)
        stdin = None
        if use_stdin:
            k = rnd.randrange(nsrc)
            args_src[k] = '-'
            stdin = texts[k].encode('utf8')
            try:
                lib[k] = ('ok', C.compile_prolog_from_string(texts[k], comp.real_compile.__globals__['C'].CompilerContext))
            except Exception as e:
                lib[k] = ('raise', type(e).__name__, str(e), getattr(e, 'line', None), getattr(e, 'column', None))
        expect_fail = any(l[0] != 'ok' for l in lib)
        to_file = rnd.random() < 0.4
        outpath = os.path.join(td, 'out.py')
        base_args = (['-o', outpath] if to_file else []) + ['--'] + args_src
        rep.count('sources=%d' % nsrc)
        rep.count('stdin' if use_stdin else 'files-only')
        rep.count('-o' if to_file else 'stdout')
        payload = {'texts': texts, 'names': [os.path.basename(p) for p in paths], 'stdin': use_stdin, 'to_file': to_file}
        rc, out, err = cli(base_args, stdin)
        if to_file and os.path.exists(outpath):
            out = open(outpath, 'rb').read()
        if expect_fail:
            rep.count('failing-source')
            if rc == 0:
                rep.violation(dict(payload, kind='exit status 0 although a source does not compile'))
                return
            bad = [l for l in lib if l[0] != 'ok'][0]
            # (only the sources into which a syntax error was injected: a generated program may also make the
            # compiler proper give up, with an exception of its own)
            for t_, l_ in zip(texts, lib):
                if (t_.startswith('\ufeff') or any(t_.endswith(b_) for b_ in BROKEN_TAILS)) and l_[0] != 'ok' and l_[1] != 'CompilerError':
                    rep.violation(dict(payload, kind='a syntax error is not reported as a CompilerError with file name and position but as %s: %s' % (l_[1], l_[2][:200])))
                    return
            if bad[1] == 'CompilerError':
                # file:line:col of the library's error must be in the CLI's message
                # (the position is taken from the exception object, not from its text: a message that
                # leaves the column out when it is 0 does not report the position)
                if bad[3] is not None and (':%s:%s:' % (bad[3], bad[4])).encode() not in err:
                    rep.violation(dict(payload, kind='syntax error reported without its position', stderr=err.decode('utf8', 'replace')[-400:], library=bad[2]))
                    return
            return
        if rc != 0:
            rep.violation(dict(payload, kind='exit status %d for sources the library compiles' % rc, stderr=err.decode('utf8', 'replace')[-400:]))
            return
        want = ''.join(l[1] for l in lib)
        try:
            got = out.decode('utf8')
        except UnicodeDecodeError:
            rep.violation(dict(payload, kind='output is not UTF-8'))
            return
        if got != want:
            rep.violation(dict(payload, kind='command line output differs from the library', cli=got[:1500], library=want[:1500]))
            return
        rep.nontriv(''.join(texts))
        # debug flags only add comment lines
        combos = [c for r in range(1, 5) for c in itertools.combinations(FLAGS, r)]
        for combo in (combos if tier == 'thorough' and i % 5 == 0 else rnd.sample(combos, 3)):
            if to_file and os.path.exists(outpath):
                os.unlink(outpath)
            rc2, out2, err2 = cli(list(combo) + base_args, stdin)
            if to_file and os.path.exists(outpath):
                out2 = open(outpath, 'rb').read()
            rep.count('debug-runs')
            if rc2 != 0:
                rep.violation(dict(payload, kind='debug flags %s make the command fail' % (combo,), stderr=err2.decode('utf8', 'replace')[-400:]))
                return
            t2 = out2.decode('utf8', 'replace')
            if strip_comments(t2) != strip_comments(got):
                rep.violation(dict(payload, kind='debug flags %s change more than comment lines' % (combo,), with_flags=t2[:2000], without=got[:800]))
                return
    if i < 2:
        rep.sample({'texts': texts, 'stdin': use_stdin, 'to_file': to_file})


def run(tier):
    n = 70 if tier == 'quick' else 1500
    with Check(PROP, tier) as chk:
        par.run_cases(chk.rep, 'harness.checks.c19', 'case', n)
        chk.finish(rule='`python -m yldprolog.compiler` as a subprocess on 1-3 sources (quoted atoms with LF, CR, CRLF, non-ASCII; file '
                        'names with spaces, line breaks, non-ASCII, leading dash; one case in three adds a predicate for which no code is generated), files or `-`, stdout or -o, compared byte for byte '
                        'with compile_prolog_from_file / _from_string per source in order; failing sources must give a non-zero exit '
                        'status and the error position; then 3 random (thorough: all 15) combinations of the debug flags: output with '
                        'comment lines removed must be identical; distinct = distinct source sets')


def replay(payload):
    print(payload)
