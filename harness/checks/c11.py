"""C11 - whatever the compiler accepts loads and defines exactly the program's predicates."""
from .. import common, par, cgen, comp, pyast, src as S
from ..frame import Check
from ..common import Sym, sx
PROP = 'C11'


def make_text(rnd, i):
    g = cgen.CGen(rnd, hostile=0.25, bad_heads=0.05)
    k = i % 10
    if k == 0:
        # around CPython's limit of 20 nested blocks
        n = rnd.randint(15, 23)
        tail = rnd.choice([None, 'fail', 'cut', 'tru', ('neg', ('call', 'q', []))])
        cl = [cgen.long_conjunction(rnd, n, rnd.randint(0, 3), tail), ('q', [], 'tru')]
        # clauses before it whose blocks are empty (nothing can be emitted for them): the limit is per clause
        for _ in range(rnd.choice([0, 0, 1, 2, 3])):
            e = rnd.choice([('disj', ('ite', 'fail', 'tru'), 'fail'), ('ite', 'fail', 'tru'), ('neg', 'tru'),
                            ('conj', ('disj', ('ite', 'fail', 'tru'), 'fail'), ('ite', 'fail', ('call', 'q', [])))])
            cl.insert(0, ('e', [], e, True))
        return S.program_text(cl), 'long-conjunction'
    if k == 1:
        d = rnd.randint(90, 104)
        kind = rnd.choice(['f', 'l'])
        pos = rnd.choice(['head', 'body'])
        t = cgen.deep_term(d, kind)
        cl = [('p', [t], 'tru')] if pos == 'head' else [('p', [], ('call', 'q', [t]), True)]
        return S.program_text(cl), 'deep-term'
    if k == 2:
        return S.program_text([cgen.nested_ite(rnd.randint(6, 12)), ('q', [], 'tru')]), 'nested-ite'
    if k == 3:
        # bodies that can never succeed, with names a code generator might trip over
        name = rnd.choice(cgen.PRED_NAMES[:16])
        goals = rnd.choice([['fail'], [('call', rnd.choice(cgen.PLAIN_ATOMS), [g.term(1)]), 'fail'], ['cut', 'fail'],
                            [('neg', 'tru')], [('call', 'q', [('V', rnd.choice(cgen.VAR_NAMES))]), 'fail']])
        body = goals[-1]
        for x in reversed(goals[:-1]):
            body = ('conj', x, body)
        cl = [(name, [g.term(1) for _ in range(rnd.randint(0, 2))], body, True)]
        if rnd.random() < 0.5:
            cl.append((name, cl[0][1], 'fail', True))
        return S.program_text(cl), 'never-succeeds'
    if k == 4 and i % 20 == 4:
        # numerals around the interpreter's limit for int <-> str conversion (4300 digits): the compiler may
        # refuse them, but what it accepts must load
        n = rnd.choice([4290, 4299, 4300, 4301, 4310, 6000])
        digits = rnd.choice('123456789') + ''.join(rnd.choice('0123456789') for _ in range(n - 1))
        if rnd.random() < 0.3:
            digits = '000' + digits
        cl = [('big', [('N', digits)], 'tru')] if rnd.random() < 0.6 else [('big', [], ('call', 'q', [('F', 'f', [('N', digits)])]), True)]
        return S.program_text(cl), 'huge-numeral'
    return g.text(g.program()), 'random'


def case(rep, drv, rnd, i, tier):
    text, kind = make_text(rnd, i)
    rep.evaluations += 1
    rep.count('kind:' + kind)
    real = comp.real_compile(text)
    try:
        model = comp.model_compile(drv, text)
    except common.ModelTimeout:
        rep.count('model-budget-exceeded-skipped')
        return
    payload = {'text': text, 'kind': kind, 'real': list(real)[:1] + [str(x)[:300] for x in real[1:2]], 'model': model[0] + ':' + str(model[1])}
    if real[0] == 'ok':
        rep.count('accepted')
        problem, added = comp.load_check(real[1])
        if problem is None and model[0] == 'ok':
            front = comp.model_front(drv, text)
            want = set(comp.heads_of(front[2]))
            if added != want:
                problem = 'loading defines %s, the program has clause heads %s' % (sorted(added), sorted(want))
        if problem is None and model[0] == 'ok' and i % 5 == 0:
            # the same output loaded from a file whose path the engine has loaded from before
            p2, added2 = comp.load_check_same_path(real[1])
            if p2 is None and not (set(comp.heads_of(front[2])) <= added2):
                p2 = 'reloading from the same path defines %s, the program has clause heads %s' % (sorted(added2), sorted(set(comp.heads_of(front[2]))))
            problem = p2
        if problem is None and model[0] == 'ok' and i % 7 == 3:
            # with the file-name header switched on, whatever the file is called: the output loads and
            # defines the clause heads, nothing else
            fname = rnd.choice(['C:\\Users\\x\\new.prolog', 'dir\\x41.prolog', 'a"""b.prolog', "it's.prolog", 'tab\tname.prolog', 'plain.prolog', 'back\\'])
            r2 = comp.real_compile(text, {'filename': True, 'source_file': fname})
            if r2[0] != 'ok':
                problem = 'with the file-name header (%r) the text no longer compiles: %s' % (fname, r2[1])
            else:
                problem, added2 = comp.load_check(r2[1])
                if problem is None and added2 != set(comp.heads_of(front[2])):
                    problem = 'with the file-name header (%r) loading defines %s' % (fname, sorted(added2))
        if problem:
            rep.violation(dict(payload, kind_of_failure=problem))
            return
        rep.nontriv(text)
    else:
        rep.count('rejected:' + real[1])
    # tie T1
    if real[0] == 'ok' and model[0] == 'ok':
        if sx(pyast.module(real[1])) != sx(model[2]):
            rep.disagreements_checked += 1
            rep.broken_ties.append(dict(payload, tie='T1 emitted Python differs from the model of the compiler'))
    elif real[0] != 'ok' and model[0] == 'ok' and kind == 'huge-numeral':
        rep.count('numeral-beyond-the-interpreter-limit-rejected')     # the model's numerals are unbounded
    elif real[0] != 'ok' and model[0] == 'ok' and not model[1]:
        rep.disagreements_checked += 1
        rep.broken_ties.append(dict(payload, tie='T1 real compiler rejects what the model accepts'))
    elif real[0] == 'ok' and model[0] != 'ok':
        rep.disagreements_checked += 1
        rep.broken_ties.append(dict(payload, tie='T1 real compiler accepts what the model rejects'))
    if i < 3:
        rep.sample({'text': text})


def run(tier):
    n = 1500 if tier == 'quick' else 40000
    with Check(PROP, tier) as chk:
        par.run_cases(chk.rep, 'harness.checks.c11', 'case', n)
        chk.finish(rule='source texts over the whole syntax with boundary forms: leading-zero and 30-digit numerals, numerals around the '
                        'interpreter\'s 4300-digit conversion limit, variables and atoms named '
                        'like Python keywords / engine names / generator-internal names, quoted predicate names (valid, invalid, non-ASCII), '
                        'bodies that never succeed, conjunctions of 15-23 goals with and without trailing fail/cut/negation, terms nested '
                        '90-104 deep, if-then-else nested 6-12 deep, directives, comments; every accepted text must compile() and load, '
                        'and add exactly the name_arity keys of its clause heads, each a generator function; tie T1: ast of the output '
                        '= model of the compiler; non-trivial = accepted; distinct = distinct texts')


def replay(payload):
    print(payload)
