"""C16 - source literals and Python values denote the same terms."""
from .. import common, par, cgen, comp, src as S, real as R, scen, progcheck
from ..frame import Check
from ..common import Sym, sx
import yldprolog.engine as E
PROP = 'C16'

RANGES = [(0x20, 0x7e), (0x20, 0x7e), (0xa0, 0x17f), (0x370, 0x3ff), (0x4e00, 0x4e80), (0x1f600, 0x1f640), (0x9, 0xd), (0x2028, 0x2029)]


def rand_text(rnd):
    n = rnd.choice([0, 1, 1, 2, 3, 5, 8])
    out = []
    for _ in range(n):
        lo, hi = rnd.choice(RANGES)
        ch = chr(rnd.randint(lo, hi))
        if ch == '\\':
            ch = "'"
        out.append(ch)
    return ''.join(out)


def literal(rnd, depth=2):
    x = rnd.random()
    if x < 0.25:
        return ('A', rnd.choice(cgen.PLAIN_ATOMS))
    if x < 0.5:
        return ('A', rand_text(rnd), True)
    if x < 0.6:
        return ('N', rnd.choice(cgen.NUMERALS))
    if depth <= 0:
        return ('A', rnd.choice(cgen.QUOTED_ATOMS[:20]))
    if x < 0.75:
        return ('F', rnd.choice(['f', 'point', rand_text(rnd) or 'g', '.']), [literal(rnd, depth - 1) for _ in range(rnd.randint(0, 3))])
    if x < 0.9:
        return ('L', [literal(rnd, depth - 1) for _ in range(rnd.randint(0, 3))])
    if x < 0.95:
        return ('_',)
    return ('P', [literal(rnd, depth - 1) for _ in range(rnd.randint(1, 2))], ('_',))


def expected_python(t):
    """what to_python must return for the term a literal denotes (written independently of the engine)"""
    k = t[0]
    if k == 'A':
        return [] if t[1] == '[]' else t[1]
    if k == 'N':
        return int(t[1])
    if k == '_':
        return None
    if k == 'L':
        return [expected_python(x) for x in t[1]]
    if k == 'F':
        return (t[1], [expected_python(x) for x in t[2]])
    raise ValueError(t)


def api_term(yp, t):
    """the same literal built with atom/functor/listpair/makelist"""
    k = t[0]
    if k == 'A':
        return yp.atom(t[1])
    if k == 'N':
        return int(t[1])
    if k == '_':
        return yp.variable()
    if k == 'L':
        items = [api_term(yp, x) for x in t[1]]
        yp.makelist(items)                 # the caller's list is the caller's: building a term from it twice
        return yp.makelist(items)          # gives the same term twice
    if k == 'P':
        tail = api_term(yp, t[2])
        for x in reversed(t[1]):
            tail = yp.listpair(api_term(yp, x), tail)
        return tail
    if k == 'F':
        return yp.functor(t[1], [api_term(yp, x) for x in t[2]])
    raise ValueError(t)


def has(t, kinds):
    if t[0] in kinds:
        return True
    if t[0] == 'F':
        return any(has(x, kinds) for x in t[2]) or (t[1] == '.' and 'dot' in kinds)
    if t[0] in ('L', 'P'):
        return any(has(x, kinds) for x in t[1]) or (t[0] == 'P' and 'P' in kinds)
    return False


def named_underscore_case(rep, drv, rnd, i):
    """`_X` is an ordinary variable: only the bare `_` is new at every occurrence"""
    V = lambda n: ('V', n)
    u1, u2, u3 = rnd.sample(['_A', '_B', '_Head', '_T', '_1', '__', '_x', '_X1'], 3)
    prog = [('pu', [('F', 'f', [V(u1), V(u1)])], 'tru'),
            ('qu', [('P', [V(u1)], V(u2)), V(u1), V(u2)], 'tru'),
            ('eu', [V(u3)], ('call', '=', [V(u3), ('A', 'a')]), True),
            ('ru', [V(u1), V(u2)], ('conj', ('call', '=', [V(u1), ('F', 'g', [V(u2), ('_',), ('_',)])]), ('call', '=', [V(u2), ('A', 'k')])), True)]
    A = lambda x: [Sym('a'), x]
    lst = [Sym('f'), '.', A('x'), [Sym('f'), '.', A('y'), A('[]')]]
    ops = [('load', 'overwrite', prog),
           ('query', 'pu', ('all',), [[Sym('f'), 'f', A('a'), A('b')]]), ('query', 'pu', ('all',), [[Sym('f'), 'f', A('a'), A('a')]]),
           ('query', 'pu', ('all',), [[Sym('f'), 'f', [Sym('v'), 0], A('c')]]),
           ('query', 'qu', ('all',), [lst, [Sym('v'), 0], [Sym('v'), 1]]),
           ('query', 'eu', ('all',), [A('b')]), ('query', 'eu', ('all',), [[Sym('v'), 0]]),
           ('query', 'ru', ('all',), [[Sym('v'), 0], [Sym('v'), 1]])]
    prog += [('lit1', [('F', 'g', [('A', 'a'), ('A', 'b')])], 'tru'), ('lit2', [('F', 'g', [('A', 'a,b')])], 'tru'),
             ('lit3', [('L', [('A', 'x'), ('A', 'y')])], 'tru'), ('lit4', [('L', [('A', 'x,y')])], 'tru'),
             ('lit5', [('A', '7')], 'tru'), ('lit6', [('N', '7')], 'tru'), ('lit7', [('F', 'g', [('A', 'a'), ('A', 'b')])], 'tru')]
    for nm in ['lit1', 'lit2', 'lit3', 'lit4', 'lit5', 'lit6', 'lit7']:
        ops.append(('query', nm, ('all',), [[Sym('v'), 0]]))
    ops += [('query', 'lit5', ('all',), [[Sym('i'), 7]]), ('query', 'lit6', ('all',), [A('7')]), ('query', 'lit2', ('all',), [[Sym('f'), 'g', A('a'), A('b')]])]
    ops[0] = ('load', 'overwrite', prog)
    rep.count('named-underscore-variables')
    if scen.three_way(rep, drv, ops, 'case %d named underscore variables' % i) == 'ok':
        rep.nontriv(scen.norm(scen.ops_json(ops[:1])))


def case(rep, drv, rnd, i, tier):
    if i % 12 == 11:
        return named_underscore_case(rep, drv, rnd, i)
    lit = literal(rnd)
    pos = rnd.choice(['fact', 'head', 'body', 'dynamic'])
    rep.evaluations += 1
    rep.count('position:' + pos)
    if pos == 'fact':
        prog = [('p', [lit], 'tru')]
    elif pos == 'head':
        prog = [('p', [lit], ('call', 'q', []), True), ('q', [], 'tru')]
    elif pos == 'body':
        prog = [('p', [('V', 'X')], ('call', '=', [('V', 'X'), lit]), True)]
    else:
        prog = [('p', [('V', 'X')], ('call', 'd', [('V', 'X')]), True), ('mk', [], ('call', 'assertz', [('F', 'd', [lit])]), True)]
    text = S.program_text(prog)
    payload = {'text': text, 'position': pos}
    try:
        code = R.compile_text(text)
    except Exception as e:
        rep.violation(dict(payload, kind='a literal of the documented syntax does not compile: %s: %s' % (type(e).__name__, e)))
        return
    yp = E.YP()
    yp.load_script_from_string(code)
    if pos == 'dynamic':
        list(yp.query('mk', []))
    X = yp.variable()
    vals = [E.to_python(X) if not has(lit, {'P', 'dot'}) else None for _ in yp.query('p', [X])]
    proper = not has(lit, {'P', 'dot'})
    if proper:
        want = expected_python(lit)
        if vals != [want]:
            rep.violation(dict(payload, kind='to_python of the term a literal denotes', got=repr(vals)[:300], expected=repr([want])[:300]))
            return
        rep.nontriv(text)
    # terms built through the API are the ones the literal unifies with (once)
    y2 = E.YP()              # atoms from another engine have the same names but are different objects
    hist = rnd.choice(['same', 'other-engine', 'before-clear'])
    rep.count('api-term-from:' + hist)
    if hist == 'same':
        t = api_term(yp, lit)
    elif hist == 'other-engine':
        t = api_term(y2, lit)
    else:
        y3 = E.YP()
        t = api_term(y3, lit)
        y3.clear()
    n = sum(1 for _ in yp.query('p', [t]))
    if n != 1:
        rep.violation(dict(payload, kind='API-built term (%s) unifies %d times with the compiled literal' % (hist, n)))
        return
    # an engine that is used again after clear(): the empty list is still the empty list
    if i % 4 == 0:
        y4 = E.YP()
        y4.load_script_from_string(code)
        y4.clear()
        y4.load_script_from_string(code)
        if pos == 'dynamic':
            list(y4.query('mk', []))
        X4 = y4.variable()
        vals4 = [E.to_python(X4) if proper else None for _ in y4.query('p', [X4])]
        api4 = [E.to_python(y4.atom('[]')), E.to_python(y4.makelist([])), E.to_python(y4.listpair(y4.atom('a'), y4.atom('[]')))]
        if (proper and vals4 != [expected_python(lit)]) or api4 != [[], [], ['a']]:
            rep.violation(dict(payload, kind='to_python on an engine used again after clear()', got=repr(vals4)[:200], api=repr(api4)))
            return
    if i % 50 == 0:
        # ... also after very many other atoms have been made
        ym = E.YP()
        first = ym.atom('red')
        nil = ym.atom('[]')
        for k_ in range(9000):
            ym.atom('filler%d' % k_)
        if ym.atom('red') is not first or ym.atom('[]') is not nil or ym.atom('filler0') is not ym.atom('filler0'):
            rep.violation(dict(payload, kind='atom interning: after 9000 further atoms the atom of a name is another object'))
            return
    # atoms: one object per name per engine
    for a in [x for x in [lit] if x[0] == 'A']:
        if yp.atom(a[1]) is not yp.atom(a[1]) or yp.atom(a[1]) is y2.atom(a[1]):
            rep.violation(dict(payload, kind='atom interning'))
            return
    # a Python value built piecewise: list pairs whose tail is a variable that a running
    # unification binds; to_python applied to the term itself (not through a variable)
    items = [literal(rnd, 0) for _ in range(rnd.randint(2, 4))]
    items = [x for x in items if x[0] in ('A', 'N')] or [('A', 'a'), ('A', 'b')]
    k = rnd.randint(1, len(items))
    tail = yp.variable()
    t = tail
    for x in reversed(items[:k]):
        t = yp.listpair(api_term(yp, x), t)
    rest = yp.makelist([api_term(yp, x) for x in items[k:]])
    chain = yp.variable()
    got = None
    for _ in E.unify(tail, chain):
        for _ in E.unify(chain, rest):
            got = E.to_python(t)
    rep.count('piecewise-list')
    if got != [expected_python(x) for x in items]:
        rep.violation(dict(payload, kind='to_python of a list whose tail is a variable bound meanwhile',
                           got=repr(got)[:300], expected=repr([expected_python(x) for x in items])[:300]))
        return
    # tie: the model (front end + engine) gives the same answers
    try:
        m = drv.ask([Sym('front'), text])
    except common.ModelTimeout:
        return
    if str(m[0]) != 'ok':
        rep.broken_ties.append(dict(payload, tie='T1 model front end rejects a literal the real compiler accepts: ' + sx(m)))
        return
    ops = [('load', 'overwrite', prog)] + ([('query', 'mk', ('all',), [])] if pos == 'dynamic' else []) + [('query', 'p', ('all',), [[Sym('v'), 0]])]
    v = scen.three_way(rep, drv, ops, 'literal %d' % i)
    if i < 3:
        rep.sample(payload)


def run(tier):
    n = 2000 if tier == 'quick' else 50000
    with Check(PROP, tier) as chk:
        par.run_cases(chk.rep, 'harness.checks.c16', 'case', n)
        chk.finish(rule='random literal terms (plain and quoted atoms with random Unicode, quotes, newlines, control characters; numerals '
                        'with leading zeros; nested compounds incl. quoted functor names; [..] lists, [H|T] patterns, _) in fact, head, '
                        'body and asserted-fact position; to_python of the answer vs an independent expectation; the same term built with '
                        'atom/functor/listpair/makelist on the same engine, on another engine and on an engine cleared afterwards must '
                        'unify exactly once; answers vs the model (three-way); distinct = distinct texts')


def replay(payload):
    print(payload)
