"""C03 - backtracking leaves no trace, however a query ends."""
from .. import gen, progcheck
PROP = 'C03'


def knobs(rnd):
    return gen.Knobs(cut=rnd.random() < 0.5, ctrl=rnd.random() < 0.5, eq=True, meta=rnd.random() < 0.3,
                     max_body=4, n_rules=(1, 3), recursive=0.3)


def run(tier):
    progcheck.run(PROP, tier, knobs, 400, 8000, sched_mode='abandon', queries_per_prog=2,
                  rule='random programs (cut, ;, ->, \\+, meta-calls, recursion) x queries x EVERY abandonment point k '
                       '(0..#answers, cap 12): closed, dropped, or the consumer raises; after each run every Variable ever '
                       'created (weak-set hook) must be unbound, answers must equal the reference prefix, and the query '
                       'run again must give the same answers; non-trivial = >= 1 answer; distinct = distinct (program, query)')


replay = progcheck.replay
