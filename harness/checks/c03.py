"""C03 - backtracking leaves no trace, however a query ends."""
from .. import gen, progcheck, par, common
from ..frame import Check
PROP = 'C03'


def knobs(rnd):
    return gen.Knobs(cut=rnd.random() < 0.5, ctrl=rnd.random() < 0.5, eq=True, meta=rnd.random() < 0.3,
                     max_body=4, n_rules=(1, 3), recursive=0.3)


def case(rep, drv, rnd, i, tier):
    if i % 6 == 5:
        # a query that ends because evaluate_bounded's recursion limit strikes (deep / infinite
        # families, also through dynamic facts): nothing may stay bound when the call returns
        from . import c17
        with common.deep_recursion():
            pass
        rep.count('ended-by-recursion-limit')
        return c17._case(rep, drv, rnd, i, tier)
    return progcheck.case(rep, drv, rnd, i, tier)


RULE = ('random programs (cut, ;, ->, \\+, meta-calls, recursion) x queries x EVERY abandonment point k '
        '(0..#answers, cap 12): closed, dropped, or the consumer raises; after each run every Variable ever '
        'created (weak-set hook) must be unbound, answers must equal the reference prefix, and the query '
        'run again must give the same answers; one case in six ends a query by evaluate_bounded\'s recursion limit '
        '(infinite, left-recursive and deep families, also through dynamic facts) and checks that no variable stays bound; '
        'non-trivial = >= 1 answer; distinct = distinct (program, query)')


def run(tier):
    n = 480 if tier == 'quick' else 9600
    progcheck.configure(PROP, knobs=knobs, sched_mode='abandon', queries_per_prog=2)
    with Check(PROP, tier) as chk:
        par.run_cases(chk.rep, 'harness.checks.c03', 'case', n)
        chk.finish(rule=RULE)


replay = progcheck.replay
