"""C04 - engine instances are isolated; interleaved queries do not interfere."""
import gc, sys, threading
from .. import common, gen, scen, src as S, real as R, par, dbgen
from ..frame import Check
from ..common import Sym, sx
from . import c08
PROP = 'C04'


def engine_history(rnd, tag):
    """operations for one engine: loads, asserts, registrations, retracts, clears, queries"""
    ops = []
    prog = gen.ProgGen(rnd, gen.Knobs(cut=rnd.random() < 0.3, ctrl=rnd.random() < 0.3, n_rules=(1, 2), nonground_facts=0.3))
    ops.append(('load', 'overwrite', prog.program()))
    qs = prog.queries(2)
    for _ in range(rnd.randint(2, 6)):
        r = rnd.random()
        if r < 0.3:
            name, ar = rnd.choice([('f0', 1), ('f1', 1), ('shared', 1), ('shared', 2)])
            ops.append(('assert', name, rnd.choice(['a', 'z']), [[Sym('a'), tag + str(rnd.randrange(3))]] + [[Sym('a'), 'x']] * (ar - 1)))
        elif r < 0.4:
            ops.append(('query', 'retract', rnd.choice([('all',), ('stop', 1)]), [[Sym('f'), 'shared', [Sym('v'), 5]]]))
        elif r < 0.5:
            if rnd.random() < 0.5:
                ops.append(('regpy', 'shared', 1, [(0, [[Sym('a'), tag + 'py']])], None, 'explicit', False))
            else:
                # the arity is taken from the function's own parameters: another function under the same
                # name, with another number of parameters, may be registered on another engine
                ar = rnd.randint(1, 2)
                ops.append(('regpy', 'shared', ar, [(0, [[Sym('a'), tag + 'py']] + [[Sym('a'), 'x']] * (ar - 1))], None, 'inferred', False))
                ops.append(('query', 'shared', ('all',), [[Sym('v'), 8], [Sym('v'), 9]]))
        elif r < 0.55:
            if rnd.random() < 0.5:
                ops.append(('clear',))
            else:
                vs = rnd.sample(['X', 'Y', 'Z', 'W', 'A', 'B'], 2)
                ops.append(('compilefail', rnd.choice(['rate(%s, foo/1) :- q(%s, %s).\n', 'p(%s) :- ( q(%s) -> r(%s, bar/2) ; true ).\n']).replace('%s', '{}').format(vs[0], vs[0], vs[1])))
                ops.append(('load', 'combine', [('cf', [('V', vs[0]), ('V', vs[1])], ('call', '=', [('V', vs[0]), ('F', 'f', [('V', vs[1])])]), True)]))
                ops.append(('query', 'cf', ('all',), [[Sym('v'), 8], [Sym('a'), tag]]))
        elif r < 0.62:
            # iterators of the Python API that are created in one step and consumed in a later one
            t = rnd.choice([[Sym('a'), tag], [Sym('i'), 7], [Sym('f'), 'f', [Sym('a'), tag]]])
            kind = rnd.choice(['=', '=', 'assertz', 'retractall'])
            if kind == '=':
                ops.append(('apiq', '=', [t, rnd.choice([t, [Sym('v'), 7], [Sym('a'), 'other']])]))
            else:
                ops.append(('apiq', kind, [[Sym('f'), 'shared', t]]))
        elif r < 0.65:
            ops.append(('load', rnd.choice(['overwrite', 'combine']), c08.script(rnd, tag)))
        else:
            name, args = rnd.choice(qs)
            ops.append(('query', name, rnd.choice([('all',), ('all',), ('stop', 1)]), args))
        ops.append(('query', 'shared', ('all',), [[Sym('v'), 9]]))
        ops.append(('query', 'f0', ('all',), [[Sym('v'), 9]]))
    return ops


class Stepper:
    """runs one engine's operations one generator step at a time"""

    def __init__(self, ops):
        self.eng = R.RealEngine()
        self.ops = ops
        self.i = 0
        self.results = []
        self.cur = None

    def done(self):
        return self.i >= len(self.ops)

    def step(self):
        op = self.ops[self.i]
        if op[0] == 'apiq':
            if self.cur is None:
                self.cur = self.eng.api_make(op[1], op[2])      # created now ...
                return
            self.results.append(self.eng.api_iter(op[1], op[2], self.cur, count=False))     # ... consumed in a later step
            self.cur = None
            self.i += 1
            return
        if op[0] != 'query':
            self.results.append(R.run_op(self.eng, op))
            self.i += 1
            return
        if self.cur is None:
            args = [self.eng.term(t) for t in op[3]]
            self.cur = {'args': args, 'q': self.eng.yp.query(op[1], args), 'answers': [], 'sched': op[2]}
            if op[2][0] == 'stop' and op[2][1] == 0:
                self.finish(Sym('stop'))
                return
        c = self.cur
        try:
            next(c['q'])
        except StopIteration:
            self.finish(Sym('done'))
            return
        except Exception as e:
            self.finish(R.exn_name(e))
            return
        try:
            c['answers'].append(R.canon_terms(c['args']))
        except RecursionError:
            self.finish(Sym('oof'))
            return
        if c['sched'][0] in ('stop', 'raise') and len(c['answers']) >= c['sched'][1]:
            self.finish(Sym('stop') if c['sched'][0] == 'stop' else [Sym('exn'), 'ConsumerError'])

    def finish(self, ending):
        c = self.cur
        c['q'].close()
        self.results.append([Sym('q'), c['answers'], ending])
        self.cur = None
        self.i += 1


def strip(results):
    """drop the bound-variable count (it is process-wide) from query results"""
    return [r[:3] if isinstance(r, list) and r and str(r[0]) == 'q' else r for r in results]


def case(rep, drv, rnd, i, tier):
    n_eng = rnd.choice([2, 2, 3])
    hists = [engine_history(rnd, 'e%d' % k) for k in range(n_eng)]
    rep.evaluations += 1
    rep.count('histories')
    rep.count('engines=%d' % n_eng)
    # oracle: every engine alone
    solo = []
    for h in hists:
        r, err = scen.run_real_robust(h, rep)
        if err:
            rep.violation({'kind': 'real code raised', 'error': err, 'ops': scen.ops_json(h)})
            return
        if 'oof' in sx(r):
            rep.count('cyclic-term-skipped')
            return
        solo.append(strip(r))
    # the model of each solo history (tie)
    for h, s in zip(hists, solo):
        v = scen.three_way(rep, drv, h, 'case %d solo' % i)
        if v == 'property':
            return
    payload = {'histories': [scen.ops_json(h) for h in hists]}
    mode = i % 3
    if mode == 0:
        # back to back, engines alternating per operation
        steppers = [Stepper(h) for h in hists]
        while any(not s.done() for s in steppers):
            for s in steppers:
                if not s.done():
                    start = s.i
                    while s.i == start:
                        s.step()
        got = [strip(s.results) for s in steppers]
        rep.count('schedule:alternate-operations')
    elif mode == 1:
        # generator-step interleaving in random order (zig-zag between suspended queries)
        steppers = [Stepper(h) for h in hists]
        while any(not s.done() for s in steppers):
            s = rnd.choice([s for s in steppers if not s.done()])
            s.step()
        got = [strip(s.results) for s in steppers]
        rep.count('schedule:random-generator-steps')
    else:
        # one thread per engine
        steppers = [Stepper(h) for h in hists]
        old = sys.getswitchinterval()
        sys.setswitchinterval(1e-5)
        errs = []

        def work(s):
            try:
                while not s.done():
                    s.step()
            except Exception as e:
                errs.append(repr(e))
        ts = [threading.Thread(target=work, args=(s,)) for s in steppers]
        for t in ts:
            t.start()
        for t in ts:
            t.join()
        sys.setswitchinterval(old)
        if errs:
            rep.violation(dict(payload, kind='exception in a thread', errors=errs))
            return
        got = [strip(s.results) for s in steppers]
        rep.count('schedule:threads')
    for k, (g, s) in enumerate(zip(got, solo)):
        if sx(g) != sx(s):
            rep.disagreements_checked += 1
            j = next(j for j, (a, b) in enumerate(zip(g, s)) if sx(a) != sx(b))
            rep.violation(dict(payload, kind='engine %d behaves differently when other engines run interleaved' % k,
                               mode=mode, op_index=j, op=scen.ops_json([hists[k][j]])[0], interleaved=sx(g[j]), alone=sx(s[j])))
            return
    rep.nontriv(sx([len(h) for h in hists]) + sx(solo[0][-2:]))
    if not api_iterators(rep, rnd, payload):
        return
    if i % 5 == 0 and not parked_across_threads(rep, rnd, payload):
        return
    # same instance: several suspended pure queries over disjoint variables
    if i % 2 == 0:
        same_instance(rep, rnd, payload)
    if i < 2:
        rep.sample({'engines': n_eng, 'ops_engine0': [scen.norm(list(o)) if o[0] != 'load' else 'load' for o in hists[0][:8]]})


def parked_across_threads(rep, rnd, payload):
    """a query left suspended at an answer in one thread; another thread runs a query on another engine: it
    finishes (nobody waits for the suspended one)"""
    prog = [('n', [('A', a)], 'tru') for a in 'abc']
    e1, e2 = R.RealEngine(), R.RealEngine()
    e1.load(prog)
    e2.load(prog)
    x1 = e1.yp.variable()
    q1 = e1.yp.query('n', [x1])
    next(q1)                                   # parked
    out = []

    def other():
        x2 = e2.yp.variable()
        out.append(len(list(e2.yp.query('n', [x2]))))
    t = threading.Thread(target=other, daemon=True)
    t.start()
    t.join(8)
    stuck = t.is_alive()
    q1.close()
    t.join(2)
    rep.count('parked-query-other-thread')
    if stuck or out != [3]:
        rep.violation(dict(payload, kind='a query on another engine, in another thread, does not finish while a query of this engine is suspended',
                           finished=not stuck, answers=out))
        return False
    return True


def api_iterators(rep, rnd, payload):
    """iterators of the Python API (unify(), assertz/asserta/retractall as methods) created on several
    engines one after the other and consumed afterwards, in any order: each gives what it gives alone"""
    def make(eng, tag):
        kind = rnd.choice(['=', '=', '=', 'assertz', 'asserta', 'retractall'])
        t = rnd.choice([[Sym('a'), tag], [Sym('i'), rnd.randrange(3)], [Sym('f'), 'f', [Sym('a'), tag], [Sym('v'), 3]]])
        if kind == '=':
            return kind, [t, rnd.choice([t, t, [Sym('v'), 4], [Sym('a'), 'other']])]
        return kind, [[Sym('f'), 'seen', t]]
    n = rnd.choice([2, 2, 3])
    specs = [make(None, 'e%d' % k) for k in range(n)]
    alone = []
    for kind, terms in specs:
        alone.append(sx(R.RealEngine().api_iter(kind, terms)[:3]))
    engs = [R.RealEngine() for _ in range(n)]
    made = [e.api_make(kind, terms) for e, (kind, terms) in zip(engs, specs)]       # all created first
    order = list(range(n))
    rnd.shuffle(order)
    got = [None] * n
    for k in order:                                                               # then consumed
        got[k] = sx(engs[k].api_iter(specs[k][0], specs[k][1], made[k])[:3])
    rep.count('api-iterators-created-then-consumed')
    if got != alone:
        rep.disagreements_checked += 1
        rep.violation(dict(payload, kind='an iterator of the Python API gives different answers when iterators of other engines are created in between',
                           iterators=[[k, sx(t)] for k, t in specs], order=order, interleaved=got, alone=alone))
        return False
    return True


def same_instance(rep, rnd, payload):
    g = gen.ProgGen(rnd, gen.Knobs(cut=True, ctrl=True, n_rules=(2, 3), nonground_facts=0.4))
    prog = g.program()
    qs = g.queries(3)
    eng = R.RealEngine()
    eng.load(prog)
    # dynamic facts with variables below the top level (shared renaming must stay private per use)
    eng.assert_fact('f0', [[Sym('f'), 'g', [Sym('v'), 40]]])
    eng.assert_fact('f0', [[Sym('f'), 'h', [Sym('a'), 'a'], [Sym('v'), 41]]])
    eng.assert_fact('bk', [[Sym('f'), 'room', [Sym('i'), 1]], [Sym('v'), 42]])
    eng.assert_fact('bk', [[Sym('f'), 'h', [Sym('a'), 'b'], [Sym('a'), 'c']], [Sym('f'), 'f', [Sym('v'), 43]]])
    # deep goals parked next to each other: each suspended query holds its whole chain of calls
    eng.load([('dp', [('A', 'z')], 'tru'), ('dp', [('F', 's', [('V', 'N')])], ('call', 'dp', [('V', 'N')]), True)], overwrite=False)
    deep = [Sym('a'), 'z']
    for _ in range(rnd.choice([60, 120, 150])):
        deep = [Sym('f'), 's', deep]
    qs = qs + [('dp', [deep]), ('dp', [deep])]
    qs = qs + [('bk', [[Sym('f'), 'room', [Sym('i'), 1]], [Sym('a'), 'alice']]), ('bk', [[Sym('v'), 0], [Sym('v'), 1]]),
               ('bk', [[Sym('v'), 0], [Sym('f'), 'f', [Sym('a'), 'bob']]])]
    rnd.shuffle(qs)
    alone = []
    for k, (name, args) in enumerate(qs):
        args = rename_vars(args, 100 * (k + 1))
        alone.append(eng.query(name, args)[1])
    gens = []
    for k, (name, args) in enumerate(qs):
        args = rename_vars(args, 100 * (k + 1))
        a = [eng.term(t) for t in args]
        gens.append({'a': a, 'q': eng.yp.query(name, a), 'answers': [], 'done': False})
    while any(not x['done'] for x in gens):
        x = rnd.choice([x for x in gens if not x['done']])
        try:
            next(x['q'])
            x['answers'].append(R.canon_terms(x['a']))
            # the answers other suspended queries are holding must not change
        except StopIteration:
            x['done'] = True
    rep.count('same-instance-zigzag')
    for k, x in enumerate(gens):
        if sx(x['answers']) != sx(alone[k]):
            rep.violation(dict(payload, kind='suspended queries on one instance interfere', prolog=S.program_text(prog),
                               query=sx([qs[k][0]] + qs[k][1]), interleaved=sx(x['answers']), alone=sx(alone[k])))
            return


def rename_vars(args, off):
    def go(t):
        if str(t[0]) == 'v':
            return [Sym('v'), int(t[1]) + off]
        if str(t[0]) == 'f':
            return t[:2] + [go(a) for a in t[2:]]
        return t
    return [go(a) for a in args]


def run(tier):
    n = 400 if tier == 'quick' else 8000
    with Check(PROP, tier) as chk:
        par.run_cases(chk.rep, 'harness.checks.c04', 'case', n)
        chk.finish(rule='2-3 engines, each with its own random history (load, combine, assert, retract, register, clear, complete and '
                        'abandoned queries, same predicate names on all engines), run (0) alternating operation by operation, '
                        '(1) interleaved generator step by generator step in random order, (2) one thread per engine with a 10us switch '
                        'interval; oracle = the same history on an engine that is alone; plus, on one instance, three suspended queries '
                        'over disjoint variables stepped in random zig-zag order vs. each alone; distinct = distinct (history shapes, answers)')


def replay(payload):
    print(payload)
