"""C17 - evaluate_bounded returns a prefix of the answers and restores the interpreter."""
import sys, gc
from .. import common, gen, scen, src as S, real as R, par
from ..frame import Check
from ..common import Sym, sx
PROP = 'C17'

V = lambda n: ('V', n)


def _nest(name, k, inner):
    t = inner
    for _ in range(k):
        t = ('F', name, [t])
    return t


FAMILIES = {
    # infinitely many answers, depth grows with each answer
    'nat': [('nat', [('A', 'z')], 'tru'), ('nat', [('F', 's', [V('X')])], ('call', 'nat', [V('X')]), True)],
    # left recursion: no answer, unbounded depth
    'left': [('left', [V('X')], ('conj', ('call', 'left', [V('X')]), ('call', 'base', [V('X')])), True), ('base', [('A', 'a')], 'tru')],
    # infinite, never answers, with arguments that bind variables before recursing deeper
    'count': [('count', [V('N')], ('conj', ('call', 'slot', [V('K'), V('N')]), ('call', 'count', [('F', 's', [V('N')])])), True),
              ('slot', [('A', 'k'), ('_',)], 'tru')],
    # finite but deep: list membership / length
    'mem': [('mem', [V('X'), ('P', [V('X')], ('_',))], 'tru'),
            ('mem', [V('X'), ('P', [('_',)], V('T'))], ('call', 'mem', [V('X'), V('T')]), True)],
    # finite, deterministic, one answer, arbitrarily deep: needs a limit above the interpreter's default
    'deep': [('deep', [('A', 'z')], 'tru'), ('deep', [('F', 's', [V('N')])], ('call', 'deep', [V('N')]), True)],
    # answers first, then an infinite branch
    # the deep search runs inside call/N, once/1, findall/3: the depth error passes through them unchanged
    'call-nat': [('nat', [('A', 'z')], 'tru'), ('nat', [('F', 's', [V('X')])], ('call', 'nat', [V('X')]), True),
                 ('cnat', [V('X')], ('call', 'call', [('A', 'nat'), V('X')]), True)],
    'once-left': [('left', [V('X')], ('conj', ('call', 'left', [V('X')]), ('call', 'base', [V('X')])), True), ('base', [('A', 'a')], 'tru'),
                  ('oleft', [V('X')], ('disj', ('call', '=', [V('X'), ('A', 'first')]), ('call', 'once', [('F', 'left', [V('X')])])), True)],
    'findall-nat': [('nat', [('A', 'z')], 'tru'), ('nat', [('F', 's', [V('X')])], ('call', 'nat', [V('X')]), True),
                    ('fnat', [V('L')], ('disj', ('call', '=', [V('L'), ('A', 'first')]), ('call', 'findall', [V('X'), ('F', 'nat', [V('X')]), V('L')])), True)],
    # the query's own variable is bound and released again at every level of an endless recursion:
    # wherever the limit strikes, it is unbound afterwards
    'probe': [('pd', [V('X')], ('conj', ('neg', ('neg', ('call', '=', [V('X'), ('A', 'b')]))), ('call', 'pd', [V('X')])), True)],
    'probe2': [('pe', [V('X'), V('Y')], ('conj', ('disj', ('ite', ('call', '=', [V('X'), ('F', 'f', [V('Y')])]), 'fail'), 'tru'),
                                         ('conj', ('call', 'once', [('F', '=', [V('Y'), ('A', 'c')])]), ('neg', ('neg', ('call', 'pe', [V('X'), V('Y')]))))), True)],
    # the first argument binds the query's variable, the depth error strikes in the second
    # (the deep terms are dynamic facts: the compiler refuses terms nested that deeply in program text)
    'bind-then-deep': [('dummy', [], 'tru')],
    # answers of very different depth: the projection overflows on a deep one, later ones are shallow again
    'varying-depth': [('dummy', [], 'tru')],
    # a finite, shallow search with more than ten thousand answers
    'many-answers': [('dd', [('N', str(k_))], 'tru') for k_ in range(23)] +
                    [('m3', [V('X'), V('Y'), V('Z')], ('conj', ('call', 'dd', [V('X')]), ('conj', ('call', 'dd', [V('Y')]), ('call', 'dd', [V('Z')]))), True)],
    # the copy findall makes of its template is cut off by the limit: nothing of it stays behind
    'findall-template': [('ok', [], 'tru'),
                         ('ft', [V('Y'), V('L')], ('call', 'findall', [('F', 'f', [V('Y'), _nest('s', 72, ('A', 'z'))]), ('A', 'ok'), V('L')]), True)],
    'mixed': [('mixed', [('A', 'a')], 'tru'), ('mixed', [('A', 'b')], 'tru'), ('mixed', [V('X')], ('call', 'mixed2', [V('X')]), True),
              ('mixed2', [V('X')], ('call', 'mixed2', [('F', 'f', [V('X')])]), True)],
}


def inside_unify_family(k, r):
    """the depth error strikes inside the unification of a nested argument (the unification itself makes
    the term deeper: Y is bound to an r-deep term and then met again under k functors); a later clause
    has a shallow answer. What is returned must still be a prefix of [deep, shallow]."""
    return [('fact', [('F', 'h', [('F', 'f', [V('Y'), _nest('w', k, V('Y'))])])], 'tru'),
            ('pp', [('A', 'deep')], ('call', 'fact', [('F', 'h', [('F', 'f', [_nest('s', r, ('A', 'z')), ('_',)])])]), True),
            ('pp', [('A', 'shallow')], 'tru')]


def sxterm(t):
    """source-style ground term -> model term"""
    if t[0] == 'A':
        return [Sym('a'), t[1]]
    return [Sym('f'), t[1]] + [sxterm(a) for a in t[2]]


def mk_list(n):
    t = [Sym('a'), '[]']
    for i in range(n):
        t = [Sym('f'), '.', [Sym('a'), 'e%d' % (i % 5)], t]
    return t


def case(rep, drv, rnd, i, tier):
    with common.deep_recursion():
        pass
    return _case(rep, drv, rnd, i, tier)


def sxd(x):
    with common.deep_recursion():
        return sx(x)


def _case(rep, drv, rnd, i, tier):
    fam = rnd.choice(list(FAMILIES) + ['random', 'random', 'inside-unify', 'bind-then-deep'])
    limit = rnd.choice([100, 120, 150, 200, 250, 300, 400]) if rnd.random() < 0.3 else rnd.randint(90, 400)
    raise_at = rnd.choice([None, None, None, 1, 2, 5])
    dyn = []
    if fam == 'random':
        g = gen.ProgGen(rnd, gen.Knobs(cut=True, ctrl=True, n_rules=(1, 3), recursive=0.3))
        prog = g.program()
        name, args = g.queries(1)[0]
        limit = rnd.choice([600, 900])
        shallow = True
    elif fam == 'inside-unify':
        kk = rnd.choice([30, 60, 90])
        prog = inside_unify_family(kk, rnd.choice([30, 60, 90]))
        name, args = 'pp', [[Sym('v'), 0]]
        limit = rnd.choice([100, 120, 135, 150, 170, 200, 230, 250, 300, 400])
        shallow = False
    else:
        prog = FAMILIES[fam]
        shallow = False
        if fam == 'nat':
            name, args = 'nat', [[Sym('v'), 0]]
        elif fam == 'left':
            name, args = 'left', [[Sym('v'), 0]]
        elif fam == 'count':
            name, args = 'count', [[Sym('a'), 'z']]
            if rnd.random() < 0.5:
                # the same through a dynamic fact (unify_arrays holds its sub-generators in a frame local)
                prog = [c for c in prog if c[0] != 'slot']
                dyn = [('assert', 'slot', 'z', [[Sym('a'), 'k'], [Sym('v'), 30]])]
        elif fam == 'mem':
            n = rnd.choice([3, 10, 40, 150])
            name, args = 'mem', [[Sym('v'), 0], mk_list(n)]
            shallow = n <= 10 and limit >= 200
        elif fam == 'deep':
            n = rnd.choice([5, 30, 500, 700])
            t = [Sym('a'), 'z']
            for _ in range(n):
                t = [Sym('f'), 's', t]
            name, args = 'deep', [t]
            if n >= 500:
                limit = rnd.choice([3000, 4000])       # a limit above the interpreter's own (1000) must be honoured
            shallow = n >= 500 or (n <= 30 and limit >= 200)
        elif fam == 'bind-then-deep':
            deep = sxterm(_nest('w', rnd.choice([40, 60, 90, 150]), ('A', 'z')))
            name, args = 'bd', [[Sym('v'), 0], deep]
            if rnd.random() < 0.2:
                # ... inside the unification of two structures (no copy of a stored fact is made first)
                name, args = '=', [[Sym('f'), 'f', [Sym('v'), 0], deep], [Sym('f'), 'f', [Sym('a'), 'k'], deep]]
            dyn = [('assert', 'bd', 'z', [[Sym('a'), 'k'], deep]), ('assert', 'bd', 'z', [[Sym('a'), 'shallow'], [Sym('a'), 'z']])]
            if name == 'bd' and rnd.random() < 0.85:
                # ... or a Python predicate that unifies its arguments with a row by unify_arrays
                dyn = [('regpy', 'bd', 2, [(0, [[Sym('a'), 'k'], deep]), (0, [[Sym('a'), 'shallow'], [Sym('a'), 'z']])], None, 'explicit', False)]
        elif fam == 'varying-depth':
            name, args = 'vd', [[Sym('v'), 0]]
            dyn = [('assert', 'vd', 'z', [[Sym('i'), n_]]) for n_ in (3, 1, rnd.choice([400, 900]), 2, 5)]
            limit = rnd.randint(100, 350)
        elif fam == 'many-answers':
            name, args = 'm3', [[Sym('v'), 0], [Sym('v'), 1], [Sym('v'), 2]]
            limit = rnd.choice([600, 900])
            shallow = True
        elif fam == 'findall-template':
            name, args = 'ft', [[Sym('v'), 0], [Sym('v'), 1]]
        elif fam == 'probe':
            name, args = 'pd', [[Sym('v'), 0]]
        elif fam == 'probe2':
            name, args = 'pe', [[Sym('v'), 0], [Sym('v'), 1]]
        elif fam == 'call-nat':
            name, args = 'cnat', [[Sym('v'), 0]]
        elif fam == 'once-left':
            name, args = 'oleft', [[Sym('v'), 0]]
        elif fam == 'findall-nat':
            name, args = 'fnat', [[Sym('v'), 0]]
        else:
            name, args = 'mixed', [[Sym('v'), 0]]
    rep.evaluations += 1
    rep.count('family:' + fam)
    rep.count('raise_at=%s' % raise_at)
    payload = {'prolog': S.program_text(prog), 'query': sxd([name] + args), 'limit': limit, 'raise_at': raise_at, 'dynamic': sxd(dyn)}
    eng = R.RealEngine()
    eng.load(prog)
    for d in dyn:
        R.run_op(eng, d)
    before_bound = R.bound_count()
    if fam in ('bind-then-deep', 'findall-template'):
        # where exactly the limit strikes depends on the limit: every limit of a window is tried
        lo = rnd.randint(60, 120)
        for lim in range(lo, lo + 260):
            try:
                r_, (l0, l1) = eng.evaluate_bounded(lim, name, args, None)
            except RecursionError:
                rep.violation(dict(payload, kind='RecursionError escaped from evaluate_bounded', limit=lim))
                return
            finally:
                sys.setrecursionlimit(max(sys.getrecursionlimit(), 1000))
            if l0 != l1 or r_[3] != before_bound:
                rep.violation(dict(payload, limit=lim, kind='after evaluate_bounded with this limit: recursion limit %d -> %d, %d variables still bound'
                                   % (l0, l1, r_[3] - before_bound), result=sxd(r_)))
                return
        rep.count('limit-windows-scanned')
    nested = None
    if rnd.random() < 0.25:
        # the projection runs a bounded query of its own on the same engine, with another limit:
        # each call must restore the limit it found
        nfam = rnd.choice(['nat', 'mixed', 'mem'])
        nq = {'nat': ('nat', [[Sym('v'), 40]]), 'mixed': ('mixed', [[Sym('v'), 40]]),
              'mem': ('mem', [[Sym('v'), 40], mk_list(4)])}[nfam]
        extra = [c for c in FAMILIES[nfam] if (c[0], len(c[1])) not in {(d[0], len(d[1])) for d in prog}]
        if extra:
            eng.load(extra, overwrite=False)
        nested = (rnd.choice([90, 130, 170]), nq[0], nq[1], [])
        rep.count('nested-evaluate_bounded')
        payload['nested'] = sxd([nested[0], nested[1]] + nested[2])
    try:
        res, (lim0, lim1) = eng.evaluate_bounded(limit, name, args, raise_at, nested)
    except RecursionError:
        rep.violation(dict(payload, kind='RecursionError escaped from evaluate_bounded'))
        return
    finally:
        sys.setrecursionlimit(max(sys.getrecursionlimit(), 1000))
    answers, ending, bound = res[1], res[2], res[3]
    bad = None
    if raise_at is not None and nested is None and fam not in ('bind-then-deep',):
        # the engine is used again after a call whose projection raised: an endless search is still cut off
        eng.load([c for c in FAMILIES['nat'] if not any(d_[0] == 'nat' for d_ in prog)] or [('dummy2', [], 'tru')], overwrite=False)
        try:
            eng.evaluate_bounded(rnd.choice([100, 150, 220]), 'nat', [[Sym('v'), 55]], None)
        except RecursionError:
            rep.violation(dict(payload, kind='RecursionError escaped from an evaluate_bounded that follows one whose projection raised'))
            return
        finally:
            sys.setrecursionlimit(max(sys.getrecursionlimit(), 1000))
    if i % 9 == 4:
        # a process that runs with a large recursion limit gets it back
        sys.setrecursionlimit(12000)
        try:
            eng.evaluate_bounded(150, name, args, None)
            back = sys.getrecursionlimit()
        except RecursionError:
            back = -1
        finally:
            sys.setrecursionlimit(1000)
        if back != 12000:
            rep.violation(dict(payload, kind='recursion limit 12000 not restored: %d afterwards' % back))
            return
    if lim0 != lim1:
        bad = 'recursion limit not restored: %d -> %d' % (lim0, lim1)
    elif nested is not None and any(a != b for (_, (a, b)) in nested[3]):
        bad = 'recursion limit not restored by a nested evaluate_bounded: %s' % [l for (_, l) in nested[3]]
    elif nested is not None and any(a != limit for (_, (a, b)) in nested[3]):
        bad = 'the outer limit was not in force inside the projection: %s' % [l for (_, l) in nested[3]]
    elif bound != before_bound:
        bad = '%d variables still bound after evaluate_bounded returned (caller still holds the query)' % (bound - before_bound)
    elif sxd(ending) not in ('done', '(exn "ConsumerError")'):
        bad = 'unexpected exception escaped: ' + sxd(ending)
    elif raise_at is None and sxd(ending) != 'done':
        bad = 'exception without a raising projection'
    if bad:
        rep.violation(dict(payload, kind=bad, result=sxd(res)))
        return
    # prefix of the true answer sequence (the model with ample fuel)
    k = len(answers)
    ops = [('load', 'overwrite', prog)] + dyn
    try:
        if k > 0:
            m = drv.ask(R.scenario_model(ops + [('query', name, ('stop', k), args)], 'reference', 6000))[-1]
            if 'oof' not in sxd(m) and 'cyclic' not in sxd(m) and sxd(m[1]) != sxd(answers):
                rep.violation(dict(payload, kind='result is not a prefix of the answer sequence', result=sxd(answers), reference=sxd(m[1])))
                return
        if shallow and raise_at is None:
            m = drv.ask(R.scenario_model(ops + [('query', name, ('all',), args)], 'reference', 20000))[-1]
            if 'oof' not in sxd(m) and 'cyclic' not in sxd(m) and sxd(m[1]) != sxd(answers):
                rep.violation(dict(payload, kind='a finite search within the limit did not return every answer',
                                   result=sxd(answers), reference=sxd(m[1])))
                return
    except common.ModelTimeout:
        rep.count('model-budget-exceeded-skipped')
    if raise_at is not None and sxd(ending) == 'done' and k >= raise_at:
        rep.violation(dict(payload, kind='projection exception was swallowed', result=sxd(res)))
        return
    rep.nontriv(sxd([fam, limit, raise_at, k]))
    rep.count('answers>0' if k else 'answers=0')
    if i < 3:
        rep.sample(dict(payload, answers=k))


def run(tier):
    n = 300 if tier == 'quick' else 6000
    with Check(PROP, tier) as chk:
        par.run_cases(chk.rep, 'harness.checks.c17', 'case', n)
        chk.finish(rule='program families (infinitely many answers, left recursion, infinite search binding variables through compiled and '
                        'dynamic facts, deep finite list membership, answers followed by an infinite branch, random finite programs) x '
                        'recursion limits 100-900 x projection raising at the k-th answer (none,1,2,5); checked: no RecursionError '
                        'escapes, result = prefix of the reference answer sequence (= all answers for shallow finite searches), '
                        'sys.getrecursionlimit() restored, every Variable unbound while the caller still holds the generator; '
                        'distinct = distinct (family, limit, k, #answers)')


def replay(payload):
    print(payload)
