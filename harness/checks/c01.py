"""C01 - compiled clauses compute exactly Prolog's answers, in order."""
from .. import common, gen, scen, src as S
from ..frame import Check
from ..common import Sym

PROP = 'C01'


def make_case(rnd):
    k = gen.Knobs(cut=False, ctrl=False, eq=True, recursive=0.35)
    g = gen.ProgGen(rnd, k)
    prog = g.program()
    ops = [('load', 'overwrite', prog)]
    for name, args in g.queries(3):
        ops.append(('query', name, ('all',), args))
    return ops, g


def run(tier):
    n = 250 if tier == 'quick' else 6000
    with Check(PROP, tier) as chk:
        rep = chk.rep
        rnd = common.rng_for(PROP)
        for i in range(n):
            ops, g = make_case(rnd)
            v = scen.three_way(rep, chk.drv, ops, 'case %d' % i)
            rep.count('programs')
            rep.count('clauses', len(ops[0][2]))
            if g.recursive:
                rep.count('with-recursion')
            if v == 'ok':
                res = chk.drv.ask(scen.R.scenario_model(ops, 'reference'))[1:]
                for op, r in zip(ops, res):
                    if op[0] == 'query':
                        na = scen.count_answers(r)
                        rep.count('answers=%s' % (na if na < 3 else '3+'))
                        if na >= 1:
                            rep.nontriv(scen.norm([op[1], op[3], r[1]]))
            if i < 3:
                rep.sample({'prolog': S.program_text(ops[0][2]), 'queries': [scen.norm([o[1]] + list(o[3])) for o in ops[1:]]})
            if v == 'property' and len(rep.violations) >= 3:
                break
        chk.finish(rule='stratified random programs (facts, rules over calls, =, \\=, true, fail; repeated/nested head '
                        'variables, lists, list pairs, optional append/member/len) x 3-4 queries with unbound, shared, '
                        'partial and ground arguments; a case is non-trivial when the reference yields >= 1 answer; '
                        'distinct = distinct (query, answer list)')


def replay(payload):
    from .. import real as R
    ops = scen.ops_from_json(payload['ops'])
    print('real     :', [scen.norm(x) for x in R.run_scenario(ops)])
    d = common.Driver()
    print('reference:', common.sx(d.ask(R.scenario_model(ops, 'reference'))))
    print('compiled :', common.sx(d.ask(R.scenario_model(ops, 'compiled'))))
