"""C01 - compiled clauses compute exactly Prolog's answers, in order."""
from .. import gen, progcheck
PROP = 'C01'


def knobs(rnd):
    return gen.Knobs(cut=False, ctrl=False, eq=True, recursive=0.35, nonground_facts=0.25, n_rules=(1, 4))


def run(tier):
    progcheck.run(PROP, tier, knobs, 1200, 40000,
                  rule='stratified random programs (facts incl. non-ground and non-linear ones, rules over calls, =, \\=, true, fail; '
                       'repeated/nested head variables, lists, list pairs, variable-variable aliasing, optional append/member/len) '
                       'x 3-4 queries with unbound, shared, partial and ground arguments; three-way: real engine = model of the '
                       'compiled code = reference semantics; a case is non-trivial when the reference yields >= 1 answer; '
                       'distinct = distinct (program, query)')


replay = progcheck.replay
