"""C01 - compiled clauses compute exactly Prolog's answers, in order."""
from .. import gen, progcheck, par, pyraw
from ..frame import Check
PROP = 'C01'


def knobs(rnd):
    return gen.Knobs(cut=False, ctrl=False, eq=True, recursive=0.35, nonground_facts=0.25, n_rules=(1, 4))


def _plain(t):
    """how a ground term reads when written without spaces (what `str()` of the compiler's AST gives)"""
    k = t[0]
    if k == 'A':
        return str(t[1])
    if k == 'N':
        return t[1]
    if k == 'F':
        return '%s(%s)' % (t[1], ','.join(_plain(a) for a in t[2]))
    if k == 'L':
        return '[%s]' % ','.join(_plain(a) for a in t[1])
    raise ValueError(t)


def _ground(t):
    k = t[0]
    if k in ('A', 'N'):
        return True
    if k == 'F':
        return all(_ground(a) for a in t[2])
    if k == 'L':
        return all(_ground(a) for a in t[1])
    return False


def lookalike_case(rep, drv, rnd, i):
    """quoted atoms whose text reads like another term of the same program ('f(a)' next to f(a), 'a,b'
    inside g(..) next to g(a,b), '[a]' next to [a]): different terms, whatever the compiler does to
    recognise equal constants"""
    from .. import scen
    g = gen.ProgGen(rnd, knobs(rnd))
    prog = g.program()
    qs = g.queries(3)
    cands = []

    def collect(t):
        if t[0] in ('F', 'L') and _ground(t) and (t[0] == 'F' or t[1]):
            cands.append(t)
        if t[0] == 'F':
            for a in t[2]:
                collect(a)
        elif t[0] in ('L', 'P'):
            for a in t[1]:
                collect(a)

    def terms_of_body(b, f):
        if isinstance(b, str):
            return b
        if b[0] == 'call':
            return ('call', b[1], [f(a) for a in b[2]]) + tuple(b[3:])
        if b[0] == 'neg':
            return ('neg', terms_of_body(b[1], f))
        return (b[0], terms_of_body(b[1], f), terms_of_body(b[2], f))
    for c in prog:
        for a in c[1]:
            collect(a)
        terms_of_body(c[2], lambda t: (collect(t), t)[1])
    if not cands:
        cands = [('F', 'f', [('A', 'a')]), ('L', [('A', 'a'), ('A', 'b')])]
    # every candidate also occurs as a fact argument, next to its look-alike atom
    extra = []
    for t in rnd.sample(cands, min(len(cands), 3)):
        extra.append(('lk', [t, ('A', 'compound')], 'tru'))
        extra.append(('lk', [('A', _plain(t)), ('A', 'atom')], 'tru'))
        if t[0] == 'F' and len(t[2]) >= 2:
            extra.append(('lk', [('F', t[1], [('A', ','.join(_plain(a) for a in t[2]))]), ('A', 'one-argument')], 'tru'))

    # atoms outside the Basic Multilingual Plane, and predicates whose (quoted) names begin with an underscore
    wide = rnd.choice(['\U0001F600', 'x\U0001D4B3y', '\U0001F600\U0001F600'])
    extra.append(('lk', [('A', wide), ('A', 'wide')], 'tru'))
    extra.append(('_primary', [('V', 'X')], ('call', 'lk', [('V', 'X'), ('A', 'wide')]), True))
    extra.append(('viaprimary', [('V', 'X')], ('call', '_primary', [('V', 'X')]), True))

    # conjunctions nested to the left, twice: the goals run in the order they are written
    extra += [('o1', [('A', 'p')], 'tru'), ('o1', [('A', 'q')], 'tru'), ('o2', [('N', '1')], 'tru'), ('o2', [('N', '2')], 'tru'),
              ('ord4', [('V', 'A'), ('V', 'B'), ('V', 'C'), ('V', 'D')],
               ('conj', ('conj', ('conj', ('call', 'o1', [('V', 'A')]), ('call', 'o2', [('V', 'B')])), ('call', 'o1', [('V', 'C')])), ('call', 'o2', [('V', 'D')])), True),
              ('ord5', [('V', 'A'), ('V', 'B'), ('V', 'C')],
               ('conj', ('conj', ('call', 'o2', [('V', 'A')]), ('conj', ('conj', ('call', 'o1', [('V', 'B')]), 'tru'), ('call', 'o2', [('V', 'C')]))), 'tru'), True)]

    def swap(t):
        if t[0] == 'A' and rnd.random() < 0.25:
            return ('A', _plain(rnd.choice(cands)))
        if t[0] == 'F':
            return ('F', t[1], [swap(a) for a in t[2]])
        if t[0] == 'L':
            return ('L', [swap(a) for a in t[1]])
        if t[0] == 'P':
            return ('P', [swap(a) for a in t[1]], t[2])
        return t
    prog2 = [((c[0], [swap(a) for a in c[1]], terms_of_body(c[2], swap)) + tuple(c[3:])) for c in prog] + extra
    from ..common import Sym
    ops = [('load', 'overwrite', prog2)]
    ops += [('query', n_, ('all',), a) for n_, a in qs]
    ops.append(('query', 'lk', ('all',), [[Sym('v'), 0], [Sym('v'), 1]]))
    ops.append(('query', 'lk', ('all',), [[Sym('a'), wide], [Sym('v'), 1]]))
    ops.append(('query', 'viaprimary', ('all',), [[Sym('v'), 0]]))
    ops.append(('query', 'ord4', ('all',), [[Sym('v'), k_] for k_ in range(4)]))
    ops.append(('query', 'ord5', ('all',), [[Sym('v'), k_] for k_ in range(3)]))
    ops.append(('query', '_primary', ('all',), [[Sym('a'), wide]]))
    rep.count('look-alike-atoms')
    if scen.three_way(rep, drv, ops, 'case %d look-alike atoms' % i) == 'ok':
        rep.nontriv(scen.norm(scen.ops_json(ops[:1])))


def case(rep, drv, rnd, i, tier):
    if i % 16 == 5:
        from . import c09
        return c09.nonlinear_case(rep, drv, rnd, i)
    if i % 16 == 3:
        return lookalike_case(rep, drv, rnd, i)
    if i % 8 == 7:
        # tie T2q: the model of Python that gives the printed text its meaning, against CPython
        return pyraw.case(rep, drv, rnd, i)
    return progcheck.case(rep, drv, rnd, i, tier)


def run(tier):
    n = 1370 if tier == 'quick' else 45000
    progcheck.configure(PROP, knobs=knobs, sched_mode='all', queries_per_prog=3)
    with Check(PROP, tier) as chk:
        par.run_cases(chk.rep, 'harness.checks.c01', 'case', n)
        chk.finish(
                  rule='stratified random programs (facts incl. non-ground and non-linear ones, rules over calls, =, \\=, true, fail; '
                       'repeated/nested head variables, lists, list pairs, variable-variable aliasing, optional append/member/len) '
                       'x 3-4 queries with unbound, shared, partial and ground arguments; three-way: real engine = model of the '
                       'compiled code = reference semantics; a case is non-trivial when the reference yields >= 1 answer; '
                       'distinct = distinct (program, query); one case in sixteen adds quoted atoms whose text reads like another term of '
                       'the program; one case in eight is a generated script of the emitted Python subset (not '
                       'compiler output) run by CPython and by the model of Python (tie T2q)')


replay = progcheck.replay
