"""C01 - compiled clauses compute exactly Prolog's answers, in order."""
from .. import gen, progcheck, par, pyraw
from ..frame import Check
PROP = 'C01'


def knobs(rnd):
    return gen.Knobs(cut=False, ctrl=False, eq=True, recursive=0.35, nonground_facts=0.25, n_rules=(1, 4))


def case(rep, drv, rnd, i, tier):
    if i % 8 == 7:
        # tie T2q: the model of Python that gives the printed text its meaning, against CPython
        return pyraw.case(rep, drv, rnd, i)
    return progcheck.case(rep, drv, rnd, i, tier)


def run(tier):
    n = 1370 if tier == 'quick' else 45000
    progcheck.configure(PROP, knobs=knobs, sched_mode='all', queries_per_prog=3)
    with Check(PROP, tier) as chk:
        par.run_cases(chk.rep, 'harness.checks.c01', 'case', n)
        chk.finish(
                  rule='stratified random programs (facts incl. non-ground and non-linear ones, rules over calls, =, \\=, true, fail; '
                       'repeated/nested head variables, lists, list pairs, variable-variable aliasing, optional append/member/len) '
                       'x 3-4 queries with unbound, shared, partial and ground arguments; three-way: real engine = model of the '
                       'compiled code = reference semantics; a case is non-trivial when the reference yields >= 1 answer; '
                       'distinct = distinct (program, query); one case in eight is a generated script of the emitted Python subset (not '
                       'compiler output) run by CPython and by the model of Python (tie T2q)')


replay = progcheck.replay
