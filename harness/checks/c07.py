"""C07 - the fact database behaves as ordered lists for every history."""
from .. import dbgen, histcheck
PROP = 'C07'


def run(tier):
    histcheck.run(PROP, tier, lambda rnd, rep: dbgen.history(rnd, rnd.randint(3, 10)), 500, 10000,
                  rule='random histories of 3-10 operations over d0/1, d1/0, d1/2, d2/1 and a never-asserted predicate: assert_fact '
                       '(append/prepend), asserta/assertz/retract/retractall through YP.query and from compiled code with the goal '
                       'held in a bound variable, ground / partially bound / non-linear patterns, retract exhausted or abandoned '
                       'after the k-th answer (close, raise), clear; after EVERY step the full contents of every predicate are read '
                       'back; non-trivial = some query has an answer; distinct = distinct (operation kinds, final contents)')


replay = histcheck.replay
