"""C15 - answers are fully dereferenced and stay valid after backtracking."""
from .. import common, unif, par, gen, scen, src as S, real as R
from ..frame import Check
from ..common import Sym, sx
PROP = 'C15'


def decompose(rnd, t, fresh, binds):
    """replace random subterms of the ground term t by new variables, recording var := subterm"""
    if str(t[0]) == 'f':
        t = t[:2] + [decompose(rnd, a, fresh, binds) for a in t[2:]]
    if rnd.random() < 0.45:
        x = fresh[0]
        fresh[0] += 1
        # sometimes through a chain of variables
        cur = unif.V(x)
        for _ in range(rnd.choice([0, 0, 1, 2])):
            y = fresh[0]
            fresh[0] += 1
            binds.append((cur, unif.V(y)))
            cur = unif.V(y)
        binds.append((cur, t))
        return unif.V(x)
    return t


def case_order(rep, drv, rnd, i, tier):
    ground = gen.mterm_ground(rnd, 3)
    fresh = [1]
    binds = []
    top = decompose(rnd, ground, fresh, binds)
    binds.append((unif.V(0), top))
    rnd.shuffle(binds)             # outer first, inner first, anything in between
    watch = [unif.V(0), top, [Sym('f'), 'w', unif.V(0), top]]
    rep.evaluations += 1
    payload = {'bindings_in_order': sx([[a, b] for a, b in binds]), 'watch': sx(watch)}
    try:
        real, late = unif.real_unify(binds, watch, ('stop', 1))
    except RecursionError:
        rep.violation(dict(payload, kind='RecursionError'))
        return
    try:
        model = unif._fix_py_entries(drv.ask(unif.model_cmd(binds, watch, ('stop', 1))))
    except common.ModelTimeout:
        return
    want = [Sym('ans'), ground, ground, [Sym('f'), 'w', ground, ground]]
    outs = real[1]
    bad = None
    if not outs:
        bad = 'no answer'
    elif sx(outs[0]) != sx(want):
        bad = 'get_value at the answer does not reflect all bindings'
    elif sx(late[0]) != sx(want):
        bad = 'value saved at the answer changed after the generator was closed'
    elif sx(late[1]) != sx(outs[1]):
        bad = 'to_python of the saved value differs from to_python at the answer'
    elif real[3] != 0:
        bad = 'bindings left'
    if bad:
        rep.violation(dict(payload, kind=bad, real=sx(real), late=sx(late), expected=sx(want)))
        return
    rep.nontriv(payload['bindings_in_order'])
    rep.count('order-cases')
    rep.count('bindings=%d' % len(binds))
    if sx(model) != sx(real):
        rep.broken_ties.append({'tie': 'T3 model resolve/toPython vs engine', 'real': sx(real), 'model': sx(model), **payload})
    if i < 3:
        rep.sample(payload)


def knobs(rnd):
    return gen.Knobs(cut=rnd.random() < 0.2, ctrl=rnd.random() < 0.3, eq=True, meta=rnd.random() < 0.6, max_body=4,
                     n_rules=(1, 3), nonground_facts=0.3)


def case_prog(rep, drv, rnd, i, tier):
    """programs queried with compound templates; real.query re-reads the saved values afterwards"""
    g = gen.ProgGen(rnd, knobs(rnd))
    prog = g.program()
    ops = [('load', 'overwrite', prog)]
    for name, args in g.queries(3):
        # wrap the arguments in structures the caller built: T = f(X), [T.get_value() for _ in q]
        args = [a if rnd.random() < 0.4 else [Sym('f'), 't', a, [Sym('v'), 0]] for a in args]
        ops.append(('query', name, ('all',), args))
    v = scen.three_way(rep, drv, ops, 'case %d' % i)
    rep.count('program-cases')
    if v == 'ok':
        rep.nontriv(S.program_text(prog))


def case(rep, drv, rnd, i, tier):
    if i % 16 == 9:
        # findall over goals that bind the template through chains of variables (the committed-goal family of C09)
        from . import c09
        return c09.committed_goal_case(rep, drv, rnd, i)
    if i % 3 == 2:
        case_prog(rep, drv, rnd, i, tier)
    else:
        case_order(rep, drv, rnd, i, tier)


def run(tier):
    n = 2400 if tier == 'quick' else 60000
    with Check(PROP, tier) as chk:
        par.run_cases(chk.rep, 'harness.checks.c15', 'case', n)
        chk.finish(rule='(a) a random ground term is cut into bindings X := subterm (also through chains of variables) that are applied in a '
                        'random order (outer first, inner first, mixed) by nested unifications; get_value/to_python of the variable and of '
                        'caller-built structures are read at the answer and re-read from the saved value after the generator is closed; '
                        '(b) random programs (findall, call, non-ground facts) queried with compound templates, saved values re-read '
                        'after the query; distinct = distinct binding sequences / programs')


def replay(payload):
    print(payload)
