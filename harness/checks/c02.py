"""C02 - unification computes a most general unifier, or fails."""
from .. import common, unif, par
from ..frame import Check
from ..common import Sym, sx
PROP = 'C02'


def is_ground(out):
    return '(v ' not in sx(out)


def case_deep(rep, rnd, i):
    """finite terms a few hundred levels deep unify like any others"""
    import yldprolog.engine as E
    yp = E.YP()
    n = rnd.choice([260, 300, 330])
    kind = rnd.choice(['s', 'list'])
    X = yp.variable()

    def build(leaf):
        t = leaf
        for k in range(n):
            t = yp.functor('s', [t]) if kind == 's' else yp.listpair(yp.atom('e%d' % (k % 3)), t)
        return t
    a, b = build(X), build(yp.atom('z'))
    rep.evaluations += 1
    rep.count('deep-terms')
    try:
        got = [E.to_python(X) for _ in E.unify(a, b)]
        got2 = [1 for _ in E.unify(build(yp.atom('y')), b)]
    except RecursionError:
        rep.count('unspecified-skipped')
        return
    if got != ['z'] or got2 != []:
        rep.violation({'kind': 'terms %d levels deep: unify(t(X), t(z)) yields %r (expected [z]), unify(t(y), t(z)) yields %d times (expected 0)' % (n, got, len(got2)),
                       'shape': kind, 'depth': n})


def case(rep, drv, rnd, i, tier):
    if i % 40 == 17:
        return case_deep(rep, rnd, i)
    if i % 4 == 3:
        return case_alternatives(rep, drv, rnd, i)
    nvars, pairs = unif.gen_pairs(rnd)
    watch = [unif.V(k) for k in range(nvars)] + [pairs[-1][0], pairs[-1][1]]
    sched = rnd.choice([('all',), ('all',), ('stop', 1), ('stop', 0), ('raise', 1)])
    rep.evaluations += 1
    tb = unif.textbook(pairs, watch)
    rep.count('textbook:' + tb[0])
    rep.count('stack-depth=%d' % (len(pairs) - 1))
    payload = {'pairs': sx([[a, b] for a, b in pairs]), 'watch': sx(watch), 'sched': list(sched)}
    atoms = rnd.choice(['same', 'same', 'other', 'cleared'])
    rep.count('atoms-from:' + atoms)
    payload['atoms'] = atoms
    try:
        real, late = unif.real_unify(pairs, watch, sched, atoms=atoms)
        real_sw, _ = unif.real_unify(pairs, watch, sched, swap_last=True, atoms=atoms)
        how = rnd.choice(['created-first', 'method'])
        real_df, _ = unif.real_unify(pairs, watch, sched, atoms=atoms, deferred=how)
    except RecursionError:
        real = None
    try:
        model = unif._fix_py_entries(drv.ask(unif.model_cmd(pairs, watch, sched)))
    except common.ModelTimeout:
        rep.count('model-budget-exceeded-skipped')
        return
    if tb[0] == 'unspecified' or sx(model).endswith('cyclic)') or 'oof' in sx(model):
        rep.count('unspecified-skipped')
        return
    if real is None:
        rep.violation(dict(payload, kind='RecursionError on finite unifiable/non-unifiable terms'))
        return
    if i < 4:
        rep.sample(dict(payload, real=sx(real)))
    # --- the property, against the textbook unifier
    outs = real[1]
    n_yields = sum(1 for o in outs if str(o[0]) == 'ans')
    expect_yields = 0 if (tb[0] == 'fail' or sched == ('stop', 0)) else 1
    bad = None
    if n_yields != expect_yields:
        bad = 'yields %d times, textbook says %d' % (n_yields, expect_yields)
    elif n_yields == 1 and sx(outs[0][1:]) != sx(tb[1]):
        bad = 'bindings at the yield are not the most general unifier (up to renaming)'
    elif real[3] != 0:
        bad = '%d variables still bound after the generator ended' % real[3]
    elif sx(real) != sx(real_sw):
        bad = 'unify(t1,t2) and unify(t2,t1) differ'
    elif sx(real) != sx(real_df):
        bad = 'unification objects %s behave differently from unifications started where they are created' % how
    else:
        # C15: saved get_value results of ground answers still denote the same terms
        if late and is_ground(outs[0]) and sx(late[0]) != sx(outs[0]):
            bad = 'value saved at the answer changed after backtracking'
    if bad:
        rep.disagreements_checked += 1
        rep.violation(dict(payload, kind=bad, real=sx(real), swapped=sx(real_sw), deferred=sx(real_df), textbook=sx(list(tb)), model=sx(model), late=sx(late)))
        return
    if tb[0] == 'ans' and len(pairs) >= 1:
        rep.nontriv(payload['pairs'])
    # --- the tie: model of unify vs the real unify
    if sx(model) != sx(real):
        rep.disagreements_checked += 1
        rep.broken_ties.append({'tie': 'T3 model unify vs engine.unify', 'real': sx(real), 'model': sx(model), **payload})


def case_alternatives(rep, drv, rnd, i):
    """alternatives under a stack of open unifications: what the second alternative sees must not
    depend on the first having been tried (and observed) before it"""
    nvars, pairs = unif.gen_pairs(rnd)
    prefix, last = pairs[:-1], pairs[-1]
    if not prefix:
        prefix = [(unif.V(0), unif.V(rnd.randrange(nvars)))]
    alts = [last]
    for _ in range(rnd.randint(1, 2)):
        r = rnd.random()
        if r < 0.5:
            alts.append((unif.V(rnd.randrange(nvars)), unif.gen_term(rnd, nvars, 1)))
        elif r < 0.8:
            alts.append((unif.V(rnd.randrange(nvars)), unif.V(rnd.randrange(nvars))))
        else:
            alts.append((last[0], unif.mutate(rnd, last[1], nvars)))
    rnd.shuffle(alts)
    watch = [unif.V(k) for k in range(nvars)]
    rep.evaluations += 1
    rep.count('alternatives=%d' % len(alts))
    expect = [unif.textbook(prefix + [alt], watch) for alt in alts]
    if unif.textbook(prefix, watch)[0] != 'ans' or any(e[0] == 'unspecified' for e in expect):
        rep.count('unspecified-skipped')
        return
    try:
        got, bound = unif.real_unify_alternatives(prefix, alts, watch, method=(i % 8 == 7))
    except RecursionError:
        rep.count('unspecified-skipped')
        return
    payload = {'prefix': sx([[a, b] for a, b in prefix]), 'alternatives': sx([[a, b] for a, b in alts]), 'watch': sx(watch)}
    for k, (e, g) in enumerate(zip(expect, got)):
        want = 'fail' if e[0] == 'fail' else sx([Sym('ans')] + list(e[1]))
        if sx(g) != want:
            rep.disagreements_checked += 1
            rep.violation(dict(payload, kind='alternative %d tried after the others were backtracked differs from a fresh unification' % k,
                               real=sx(g), textbook=want))
            return
    if bound != 0:
        rep.violation(dict(payload, kind='%d variables still bound after the generator ended' % bound))
        return
    rep.nontriv(payload['prefix'] + payload['alternatives'])


def run(tier):
    n = 3000 if tier == 'quick' else 150000
    with Check(PROP, tier) as chk:
        par.run_cases(chk.rep, 'harness.checks.c02', 'case', n)
        chk.finish(rule='term pairs biased to near-unifiable (one side a mutated instance of the other: variable/subterm swaps, arity '
                        'changes with equal names, name changes with equal arity, shared variables, var-var chains) under 0-4 earlier '
                        'still-active unifications, consumer exhausts / closes at the yield / never starts / raises; oracle = independent '
                        'Robinson unifier (occurs-check-only failures are unspecified and skipped); checked: number of yields, mgu up to '
                        'renaming incl. aliasing, symmetry, the same with all unification objects created before the first is started or obtained '
                        'from the terms\' own unify method, no binding left, saved ground values stable; non-trivial = unifiable; '
                        'distinct = distinct pair lists')


def replay(payload):
    print(payload)
