"""C18 - compilation is a deterministic function of the source text."""
import json, os, subprocess, tempfile, sys
from .. import common, par, cgen, comp, pyast, src as S
from ..frame import Check
from ..common import Sym, sx
PROP = 'C18'
CHILD = os.path.join(os.path.dirname(os.path.dirname(__file__)), 'subproc_compile.py')


def child(seed, actions, locale=None):
    env = dict(os.environ)
    env['PYTHONHASHSEED'] = str(seed)
    if locale:
        # another locale / text encoding of the process (the job travels as ASCII-only JSON)
        env.update({'LC_ALL': locale, 'LANG': locale, 'PYTHONUTF8': '0'})
        env.pop('PYTHONIOENCODING', None)
    env['PYTHONPATH'] = os.path.join(common.REPO, 'src')
    p = subprocess.run([common.PY, CHILD], input=json.dumps({'actions': actions}), capture_output=True, text=True, env=env, timeout=120)
    if p.returncode != 0:
        raise RuntimeError('child failed: ' + p.stderr[-500:])
    return json.loads(p.stdout)


def failing_text(rnd, g):
    """inputs whose compilation raises at different stages (lexer, parser, visitor, clause compiler, code
    generator), in the middle of a program that uses the same variable and predicate names as the targets"""
    vs = rnd.sample(cgen.VAR_NAMES, 3)
    k = rnd.randrange(7)
    if k == 0:
        return 'this is ( not prolog'
    if k == 1:
        bad = 'p(%s, %s, foo/2) :- q(%s).\n' % (vs[0], vs[1], vs[2])                  # dies in the clause compiler
    elif k == 2:
        bad = 'p(%s) :- ( q(%s) -> r(%s, bar/1) ; true ).\n' % (vs[0], vs[1], vs[2])   # ... inside a block
    elif k == 3:
        bad = S.program_text([cgen.long_conjunction(rnd, rnd.randint(21, 30), 1)])      # too large: dies in the generator
    elif k == 4:
        bad = 'p(%s) :- %s = a, 3.\n' % (vs[0], vs[1])                                 # not callable: dies in the visitor
    elif k == 5:
        bad = "p(%s) :- q(%s), '$CUTIF'(cutIf1), r(%s).\n" % (vs[0], vs[1], vs[2])
    else:
        bad = 'p(%s) :- q(%s) # r.\n' % (vs[0], vs[1])                                 # lexer
    return g.text(g.program(rnd.randint(0, 2))) + bad + g.text(g.program(rnd.randint(0, 1)))


def case(rep, drv, rnd, i, tier):
    g = cgen.CGen(rnd, hostile=0.15)
    # several variables per clause, names that differ only in case, anonymous variables
    targets = []
    for _ in range(3):
        prog = g.program(rnd.randint(1, 4))
        if rnd.random() < 0.5:
            vs = rnd.sample(['Xs', 'XS', 'xS'.upper(), '_ab', '_Ab', '_aB', '_AB', 'Abc', 'aBC'.capitalize(), 'ABC', 'Y', 'Z'], 5)
            prog.append(('many', [('V', vs[0])], ('conj', ('call', 'q', [('V', v) for v in vs[1:3]]), ('call', 'r', [('V', v) for v in vs[2:]])), True))
        targets.append(g.text(prog))
    opt = rnd.choice(['default', 'default', 'sub-debug-filename', 'sub-debug-all', 'plain'])
    rep.evaluations += 1
    rep.count('options:' + opt)
    with tempfile.TemporaryDirectory(prefix='yldverif') as td:
        files = []
        for k in range(2):
            path = os.path.join(td, 'earlier%d.prolog' % k)
            open(path, 'w', encoding='utf8').write(g.text(g.program(2)))
            files.append(path)
        base = child(0, [['string', t, opt] for t in targets[:1]])[0]
        # other hash seeds, fresh process
        variants = []
        for seed in rnd.sample(range(1, 1000), 3):
            variants.append(('PYTHONHASHSEED=%d' % seed, child(seed, [['string', targets[0], opt]])[0]))
        variants.append(('LC_ALL=C, not in UTF-8 mode', child(0, [['string', targets[0], opt]], locale='C')[0]))
        # after other compilations in the same process (strings, files, other options)
        hist = []
        for _ in range(rnd.randint(1, 5)):
            r = rnd.random()
            if r < 0.4:
                hist.append(['string', rnd.choice(targets[1:]), rnd.choice(['default', 'plain', 'sub-debug-filename'])])
            elif r < 0.7:
                hist.append(['file', rnd.choice(files), rnd.choice(['default', 'default', 'plain', 'sub-debug-filename'])])
            else:
                hist.append(['string', failing_text(rnd, g), 'default'])
        outs = child(rnd.randrange(1000), hist + [['string', targets[0], opt]])
        variants.append(('after %d other compilations' % len(hist), outs[-1]))
        rep.count('history-length=%d' % len(hist))
        # the same through a file: compiled before with other options, and holding - under the same name,
        # size and time stamp - another program before
        tpath = os.path.join(td, 'target.prolog')
        a_text, b_text = targets[0] + '\nzz(a).\n', targets[0] + '\nzz(b).\n'
        fbase = child(0, [['write', [tpath, a_text], ''], ['file', tpath, opt]])[-1]
        fhist = []
        if rnd.random() < 0.7:
            fhist += [['write', [tpath, b_text], ''], ['file', tpath, rnd.choice([opt, 'default', 'plain'])]]
        fhist += [['write', [tpath, a_text], '']]
        if rnd.random() < 0.7:
            fhist += [['file', tpath, rnd.choice(['default', 'plain', 'sub-debug-filename'])]]
        fouts = child(rnd.randrange(1000), fhist + [['file', tpath, opt]])
        if fouts[-1] != fbase:
            rep.violation({'text': a_text, 'options': opt, 'history': fhist, 'kind': 'output for a file differs after earlier compilations of the same path',
                           'baseline': fbase[1][:2000] if fbase[0] == 'ok' else fbase, 'variant': fouts[-1][1][:2000] if fouts[-1][0] == 'ok' else fouts[-1]})
            return
        rep.count('file-target-histories')
    payload = {'text': targets[0], 'options': opt, 'history': hist}
    for what, v in variants:
        if v != base:
            rep.violation(dict(payload, kind='output differs: ' + what, baseline=base[1][:2000] if base[0] == 'ok' else base,
                               variant=v[1][:2000] if v[0] == 'ok' else v))
            return
    if base[0] == 'ok':
        rep.nontriv(targets[0])
        # tie T1, declaration order included (no normalisation)
        if opt in ('default', 'plain'):
            try:
                model = comp.model_compile(drv, targets[0])
                if model[0] == 'ok' and sx(pyast.module(base[1])) != sx(model[2]):
                    rep.broken_ties.append(dict(payload, tie='T1 emitted Python differs from the model of the compiler'))
            except common.ModelTimeout:
                pass
    if i < 2:
        rep.sample({'text': targets[0], 'options': opt})


def run(tier):
    n = 60 if tier == 'quick' else 1500
    with Check(PROP, tier) as chk:
        par.run_cases(chk.rep, 'harness.checks.c18', 'case', n)
        chk.finish(rule='each program (clauses with several fresh variables, names differing only in case, anonymous variables, '
                        'if-then-else labels) is compiled in a fresh process with PYTHONHASHSEED=0, in 3 fresh processes with other '
                        'seeds, in a process with the C locale outside UTF-8 mode, and at the end of a process that first performed 1-5 other compilations (strings, files, failing inputs, '
                        'other option objects incl. subclasses of CompilerContext with debug flags), and as a file that was compiled before with other '
                        'options and held another program under the same name, size and time stamp; all outputs must be byte-identical, '
                        'and ast-identical to the model of the compiler (declaration order not normalised); distinct = distinct texts')


def replay(payload):
    print(payload)
