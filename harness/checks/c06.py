"""C06 - disjunction, if-then-else and negation follow standard semantics."""
from .. import gen, progcheck
PROP = 'C06'


def knobs(rnd):
    return gen.Knobs(cut=rnd.random() < 0.4, ctrl=True, eq=True, max_body=6, n_rules=(2, 4), recursive=0.1)


def run(tier):
    progcheck.run(PROP, tier, knobs, 900, 12000,
                  rule='stratified random programs whose rule bodies nest ;, ->, -> without else and \\+ arbitrarily (cuts only in '
                       'transparent positions) with continuations after the construct; leaf goals have 0-3 solutions and bind '
                       'distinct variables; non-trivial = the reference yields >= 1 answer; distinct = distinct (program, query)')


replay = progcheck.replay
