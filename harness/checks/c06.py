"""C06 - disjunction, if-then-else and negation follow standard semantics."""
from .. import gen, progcheck, par, pyraw
from ..frame import Check
PROP = 'C06'


def knobs(rnd):
    return gen.Knobs(cut=rnd.random() < 0.4, ctrl=True, eq=True, max_body=6, n_rules=(2, 4), recursive=0.1)


V = lambda n: ('V', n)


def reentry_case(rep, drv, rnd, i):
    """constructs that are entered again and again: once per candidate of a generate-and-test condition
    and once per answer of a goal in front of them; whatever state a construct keeps (its flag) must be
    fresh at every entry"""
    from .. import scen
    from ..common import Sym
    atoms = ['a', 'b', 'c', 'd']
    cands = rnd.sample(atoms, rnd.randint(2, 4))
    rej = [a for a in cands if rnd.random() < 0.5]
    prog = [('c', [('A', a)], 'tru') for a in cands] + [('h', [('A', a)], 'tru') for a in rej] + [('h', [('A', 'zz')], 'tru')]
    prog += [('k', [('A', a), ('A', b)], 'tru') for a in cands for b in cands if rnd.random() < 0.4] + [('k', [('A', 'zz'), ('A', 'zz')], 'tru')]
    yes, no = ('call', '=', [V('R'), ('A', 'yes')]), ('call', '=', [V('R'), ('A', 'no')])

    def test(goal):
        return rnd.choice([('neg', goal), ('disj', ('ite', goal, 'fail'), 'tru'), ('neg', ('neg', goal)),
                           ('disj', ('ite', goal, 'tru'), 'fail'), ('ite', goal, 'tru')])
    hx = ('call', 'h', [V('X')])
    kyx = ('call', 'k', [V('Y'), V('X')])
    ifthen = ('ite', ('call', 'c', [V('X')]), yes)
    wrapped = rnd.choice([('conj', 'tru', ifthen), ('conj', ifthen, 'tru'), ('conj', 'tru', ('conj', ifthen, 'tru'))])
    eq = lambda a, b: ('call', '=', [a, b])
    prog += [
        # branches whose goals read alike but are different terms: the atom 'Y' and the variable Y, ...
        ('lk1', [V('Z'), V('Y')], ('disj', eq(V('Z'), ('A', 'Y')), eq(V('Z'), V('Y')))),
        ('lk2', [V('Z')], ('disj', eq(V('Z'), ('F', 'f', [('A', 'a')])), ('disj', eq(V('Z'), ('A', 'f(a)')), eq(V('Z'), ('L', [('A', 'a')]))))),
        ('lk3', [V('Z'), V('W')], ('disj', ('ite', ('call', 'c', [V('Z')]), eq(V('W'), ('A', '_'))), eq(V('W'), ('_',)))),
        ('lk4', [V('Z'), V('X')], ('conj', ('disj', ('call', 'c', [V('X')]), 'tru'), ('disj', eq(V('Z'), ('A', 'X')), eq(V('Z'), V('X'))))),
    ]
    prog += [
        # an else branch that is itself a generate-and-test, or contains another if-then-else and a further alternative
        ('t10', [V('X'), V('R')], ('disj', ('ite', ('call', 'c', [('A', 'nothere')]), yes),
                                   ('conj', ('call', 'c', [V('X')]), ('conj', ('neg', hx), no)))),
        ('t11', [V('X'), V('R')], ('disj', ('ite', ('call', 'c', [('A', 'nothere')]), yes),
                                   ('disj', ('disj', ('ite', hx, ('call', '=', [V('R'), ('A', 'one')])), ('call', '=', [V('R'), ('A', 'two')])),
                                            ('call', '=', [V('R'), ('A', 'three')])))),
        ('t12', [V('X'), V('R')], ('conj', ('call', 'c', [V('X')]), ('disj', ('ite', ('call', 'h', [('A', 'nothere')]), yes),
                                   ('conj', ('call', 'c', [V('Y')]), ('conj', ('disj', ('ite', ('call', 'k', [V('X'), V('Y')]), 'fail'), 'tru'), no))))),
    ]
    prog += [
        # an if-then-else behind a disjunction and in front of another goal: its code is needed once per branch
        ('t8', [V('X'), V('R')], ('conj', ('disj', ('call', 'c', [V('X')]), ('call', 'c', [V('X')])),
                                  ('conj', ('disj', ('ite', hx, yes), no), ('call', 'two', [])))),
        ('two', [], 'tru'), ('two', [], 'tru'),
        ('t9', [V('X'), V('R')], ('conj', ('disj', ('call', 'c', [V('X')]), ('disj', 'tru', ('call', 'h', [V('X')]))),
                                  ('conj', ('neg', hx), ('conj', ('disj', ('ite', ('call', 'c', [V('R')]), 'tru'), no), ('call', 'two', []))))),
    ]
    prog += [
        # `true , (C -> T)` next to `;` is a disjunction of an if-then and E, not an if-then-else
        ('t6', [V('X'), V('R')], ('disj', wrapped, no)),
        ('t7', [V('X'), V('R')], ('disj', ('conj', 'tru', ('neg', hx)), ('conj', ('call', 'c', [V('X')]), no))),
        ('t1', [V('X'), V('R')], ('disj', ('ite', ('conj', ('call', 'c', [V('X')]), test(hx)), yes), no)),
        ('t2', [V('Y'), V('X'), V('R')], ('conj', ('call', 'c', [V('Y')]),
                                           ('disj', ('ite', ('conj', ('call', 'c', [V('X')]), test(kyx)), yes), no))),
        ('t3', [V('X')], ('conj', ('call', 'c', [V('X')]), test(hx))),
        ('t4', [V('Y'), V('X')], ('conj', ('call', 'c', [V('Y')]), ('conj', ('call', 'c', [V('X')]), ('conj', test(kyx), test(hx))))),
        ('t5', [V('X'), V('R')], ('disj', ('conj', ('call', 'c', [V('X')]), ('conj', test(hx), yes)),
                                  ('conj', ('call', 'c', [V('X')]), ('conj', ('disj', ('ite', hx, yes), no), test(('call', 'k', [V('X'), V('X')])))))),
    ]
    ops = [('load', 'overwrite', prog)]
    for name, ar in [('t1', 2), ('t2', 3), ('t3', 1), ('t4', 2), ('t5', 2), ('t6', 2), ('t7', 2), ('lk1', 2), ('lk2', 1), ('lk3', 2), ('lk4', 2), ('t8', 2), ('t9', 2), ('t10', 2), ('t11', 2), ('t12', 2)]:
        ops.append(('query', name, ('all',), [[Sym('v'), j] for j in range(ar)]))
    rep.count('re-entered-constructs')
    if scen.three_way(rep, drv, ops, 'case %d re-entry' % i) == 'ok':
        rep.nontriv(scen.norm(scen.ops_json(ops[:1])))


def case(rep, drv, rnd, i, tier):
    if i % 16 == 11:
        return reentry_case(rep, drv, rnd, i)
    if i % 8 == 7:
        # tie T2q: flags, break, return and nested loops over generators as CPython runs them
        return pyraw.case(rep, drv, rnd, i)
    return progcheck.case(rep, drv, rnd, i, tier)


def run(tier):
    n = 1030 if tier == 'quick' else 13700
    progcheck.configure(PROP, knobs=knobs, sched_mode='all', queries_per_prog=3)
    with Check(PROP, tier) as chk:
        par.run_cases(chk.rep, 'harness.checks.c06', 'case', n)
        chk.finish(
                  rule='stratified random programs whose rule bodies nest ;, ->, -> without else and \\+ arbitrarily (cuts only in '
                       'transparent positions) with continuations after the construct; leaf goals have 0-3 solutions and bind '
                       'distinct variables; non-trivial = the reference yields >= 1 answer; distinct = distinct (program, query); one case in sixteen: generate-and-test '
                       'conditions and constructs behind a generator, re-entered once per candidate; one case in '
                       'eight is a generated script of the emitted Python subset run by CPython and by the model of Python (tie T2q)')


replay = progcheck.replay
