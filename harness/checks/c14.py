"""C14 - changing a predicate while it is being enumerated (logical update view)."""
from .. import dbgen, histcheck
PROP = 'C14'


def run(tier):
    histcheck.run(PROP, tier, lambda rnd, rep: dbgen.c14_history(rnd), 300, 6000,
                  rule='random clauses that start an enumeration (query or retract) of d/1 or e/1 and assert/retract/retractall on the '
                       'same predicate before the enumeration is resumed (failure-driven or by the consumer), plus the drain, '
                       'counter-update and grow loops; each run under a 10 s wall-clock budget (non-termination is a violation); '
                       'full contents read back after every query; non-trivial = some query has an answer')


replay = histcheck.replay
