"""C08 - call resolution: facts first, exact arity, load order, late binding."""
from .. import common, gen, scen, src as S, real as R, histcheck, progcheck
from ..common import Sym
PROP = 'C08'

NAMES = [('p', 1), ('p', 2), ('q', 1), ('r', 1), ('s', 0), ('once', 1), ('class', 1)]      # a script may define a predicate under a builtin's name
API = ['atom', 'variable', 'query', 'unify', 'makelist', 'functor', 'match_dynamic', 'ATOM_NIL', 'True', '__builtins__', 'listpair']


def script(rnd, tag, refs=True):
    """a script that defines a random subset of NAMES; answers identify script and clause"""
    clauses = []
    for name, ar in NAMES:
        if rnd.random() < 0.5:
            continue
        n = rnd.randint(1, 3)
        for k in range(n):
            ans = ('A', '%s%s%d' % (tag, name, k))
            head = [ans] + [('A', 'x')] * (ar - 1) if ar else []
            r = rnd.random()
            if r < 0.2:
                body = 'cut'                       # each definition keeps its own cuts
            elif refs and r < 0.35 and ar and [n_ for n_ in NAMES if n_[1] == 1 and n_[0] > name]:
                # only "later" names are referenced, so that no history builds a recursion
                other = rnd.choice([n_ for n_ in NAMES if n_[1] == 1 and n_[0] > name])
                head = [('V', 'X')] + [('A', 'x')] * (ar - 1)
                body = ('call', other[0], [('V', 'X')])     # reference resolved at call time
            elif r < 0.42:
                body = 'fail'
            else:
                body = 'tru'
            clauses.append((name, head, body, body != 'tru'))
    if not clauses:
        clauses.append(('q', [('A', tag + 'q')], 'tru'))
    return clauses


def queries():
    ops = []
    for name, ar in NAMES:
        ops.append(('query', name, ('all',), [[Sym('v'), i] for i in range(ar)]))
    ops.append(('query', 'p', ('all',), [[Sym('v'), 0], [Sym('v'), 1], [Sym('v'), 2]]))   # an arity nobody defines
    return ops


def history(rnd, rep):
    ops = []
    # histories with a load *during* a suspended query use scripts without cross-references: the
    # model runs such a query to completion before the load, which is only the same thing when no
    # goal of the running query is called after the load
    inflight = rnd.random() < 0.35
    refs = not inflight
    for step in range(rnd.randint(2, 6)):
        r = rnd.random()
        tag = 's%d' % step
        if r < 0.45:
            ops.append(('load', rnd.choice(['overwrite', 'combine', 'combine']), script(rnd, tag, refs)))
        elif r < 0.55:
            ops.append(('loadfail', script(rnd, tag, refs)))
        elif r < 0.75:
            name, ar = rnd.choice(NAMES)
            rows = [(0, [[Sym('a'), '%spy%d' % (tag, k)]] + [[Sym('a'), 'x']] * (ar - 1) if ar else []) for k in range(rnd.randint(1, 2))]
            style = rnd.choice(['explicit', 'inferred', 'variadic', 'inferred-star', 'inferred-default'] if ar else ['explicit', 'inferred', 'variadic'])
            ops.append(('regpy', name, None if style == 'variadic' else ar, rows if ar else [(0, [])], None, style, rnd.random() < 0.5))
        elif r < (0.8 if inflight else 0.9):
            name, ar = rnd.choice(NAMES)
            ops.append(('assert', name, rnd.choice(['a', 'z']), [[Sym('a'), tag + 'dyn']] + [[Sym('a'), 'x']] * (ar - 1) if ar else []))
        elif r < (0.83 if inflight else 0.93):
            ops.append(('clear',))
        elif r < 0.97 and not inflight:
            pass
        elif r < 0.97:
            # a script is loaded while a query on one of its predicates is suspended
            name, ar = rnd.choice([n_ for n_ in NAMES if n_[1] >= 1])
            if rnd.random() < 0.7:
                # the call is suspended among the dynamic facts, before the engine gets to the definition
                for k in range(rnd.randint(1, 2)):
                    ops.append(('assert', name, 'z', [[Sym('a'), '%sdyn%d' % (tag, k)]] + [[Sym('a'), 'x']] * (ar - 1)))
            ops.append(('query_load', name, [[Sym('v'), i] for i in range(ar)], rnd.randint(1, 2), rnd.choice(['combine', 'combine', 'overwrite']),
                        script(rnd, tag, refs)))
        else:
            # the engine's own API names are never callable as predicates
            api = rnd.choice(API)
            ops.append(('query', api, ('all',), [[Sym('a'), 'x']] * rnd.randint(0, 2)))
        ops.extend(queries())
    if rnd.random() < 0.3:
        # a recursive predicate: every level of the recursion is a call like any other (its dynamic
        # facts first, then every definition loaded for it so far)
        V = lambda n: ('V', n)
        el = [('elem', [V('X'), ('P', [V('X')], ('_',))], 'tru'),
              ('elem', [V('X'), ('P', [('_',)], V('T'))], ('call', 'elem', [V('X'), V('T')]), True)]
        lst = [Sym('f'), '.', [Sym('a'), 'a'], [Sym('f'), '.', [Sym('a'), 'b'], [Sym('a'), '[]']]]
        ops.append(('load', 'overwrite', el))
        ops.append(('query', 'elem', ('all',), [[Sym('v'), 0], lst]))
        if rnd.random() < 0.7:
            ops.append(('assert', 'elem', rnd.choice(['a', 'z']), [[Sym('a'), 'dyn'], [Sym('v'), 3]]))
            ops.append(('query', 'elem', ('all',), [[Sym('v'), 0], lst]))
        if rnd.random() < 0.7:
            ops.append(('load', 'combine', [('elem', [('A', 'late'), ('_',)], 'tru')]))
            ops.append(('query', 'elem', ('all',), [[Sym('v'), 0], lst]))
        if rnd.random() < 0.4:
            ops.append(('regpy', 'elem', 2, [(1, [[Sym('a'), 'py'], [Sym('v'), 0]])], None, 'explicit', False))
            ops.append(('load', 'combine', el))
            ops.append(('query', 'elem', ('all',), [[Sym('v'), 0], lst]))
    return ops


def run(tier):
    histcheck.run(PROP, tier, history, 600, 20000,
                  rule='random histories of 2-6 steps: load of scripts with overlapping name/arity sets (overwrite / combine; clauses with '
                       'cuts, failing clauses, cross-script references), loads that raise after defining part of their content, '
                       'register_function (explicit, inferred, variadic arity), assert_fact, clear, calls to API names, a predicate under a builtin\'s name, '
                       'a recursive predicate with dynamic facts and chained definitions; after each step '
                       'every name/arity in play (and an undefined arity) is queried; non-trivial = some query has an answer; '
                       'distinct = distinct (operation kinds, last answers)')


replay = histcheck.replay
