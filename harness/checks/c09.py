"""C09 - call/N, once/1, findall/3, = and \\= agree with their standard definitions."""
from .. import gen, progcheck, par, scen
from ..frame import Check
from ..common import Sym
PROP = 'C09'


def knobs(rnd):
    return gen.Knobs(cut=rnd.random() < 0.5, ctrl=rnd.random() < 0.4, eq=True, meta=True, max_body=4, n_rules=(2, 4))


V = lambda n: ('V', n)


def _fix(b):
    """('call_eq',) stands for the goal term X = Y"""
    if isinstance(b, str):
        return b
    if b[0] == 'call':
        return ('call', b[1], [(('F', '=', [V('X'), V('Y')]) if a == ('call_eq',) else a) for a in b[2]])
    if b[0] == 'neg':
        return ('neg', _fix(b[1]))
    return (b[0], _fix(b[1]), _fix(b[2]))


def committed_goal_case(rep, drv, rnd, i):
    """meta-calls on goals whose answers come from clauses that end in a cut (the generated function
    yields True there), also with a second definition chained after the first"""
    atoms = rnd.sample(['a', 'b', 'c', 'd'], rnd.randint(1, 3))
    prog = [('it', [('A', a)], 'tru') for a in atoms]
    prog.append(('first', [V('X')], ('conj', ('call', 'it', [V('X')]), 'cut'), True))
    prog.append(('firstp', [V('X'), V('Y')], ('conj', ('call', 'it', [V('X')]), ('conj', ('call', 'it', [V('Y')]), 'cut')), True))
    callers = [
        ('t1', [V('X'), V('L')], ('call', 'findall', [V('X'), ('F', 'first', [V('X')]), V('L')])),
        ('t2', [V('X'), V('L')], ('conj', ('call', 'findall', [V('X'), ('F', 'first', [V('X')]), V('L')]), ('call', '=', [V('X'), ('A', 'free')]))),
        ('t3', [V('X'), V('L')], ('conj', ('call', '=', [V('G'), ('F', 'first', [V('X')])]),
                                  ('call', 'findall', [('F', 'got', [V('X')]), V('G'), V('L')]))),
        ('t4', [V('X')], ('call', 'once', [('F', 'first', [V('X')])])),
        ('t5', [V('X')], ('call', 'call', [('A', 'first'), V('X')])),
        ('t6', [V('X'), V('Y'), V('L')], ('conj', ('call', 'findall', [('F', 'p', [V('X'), V('Y')]), ('F', 'firstp', [V('X'), V('Y')]), V('L')]),
                                          ('call', 'it', [V('X')]))),
        ('t7', [V('X'), V('L')], ('conj', ('call', 'findall', [V('Z'), ('F', 'first', [V('Z')]), V('L')]), ('call', 'first', [V('X')]))),
        ('t8', [V('X')], ('disj', ('ite', ('call', 'findall', [V('X'), ('F', 'first', [V('X')]), ('P', [('_',)], ('_',))]), ('call', '=', [V('X'), ('A', 'kept')])), 'fail')),
    ]
    callers += [
        # templates that keep unbound variables: every element of the result is a copy of its own
        ('t9', [V('L'), V('Y')], ('conj', ('call', 'findall', [('F', 'pair', [V('X'), V('Y')]), ('F', 'it', [V('X')]), V('L')]),
                                  ('call', '=', [V('Y'), ('A', 'late')]))),
        ('t10', [V('L'), V('Y')], ('conj', ('call', 'findall', [('F', 'f', [V('Y')]), ('F', 'it', [('_',)]), V('L')]),
                                   ('call', '=', [V('L'), ('P', [('F', 'f', [('A', 'one')])], ('_',))]))),
        ('t11', [V('L')], ('conj', ('call', 'findall', [V('Z'), ('F', 'it', [('_',)]), V('L')]), ('call', '=', [V('L'), ('P', [('A', 'k')], ('_',))]))),
        ('t12', [V('L'), V('Y')], ('conj', ('call', '=', [V('T'), ('F', 'g', [V('Y'), V('W')])]),
                                   ('conj', ('call', 'findall', [V('T'), ('F', 'it', [V('W')]), V('L')]), ('call', '=', [V('Y'), ('A', 'after')])))),
    ]
    callers += [
        # the goal aliases two variables of the template without binding them: the copy keeps the sharing
        ('t13', [V('B')], ('conj', ('call', 'findall', [('F', 'pair', [V('X'), V('Y')]), ('call_eq',), V('L')]),
                           ('conj', ('call', '=', [V('L'), ('L', [('F', 'pair', [V('A'), V('B')])])]), ('call', '=', [V('A'), ('A', 'one')])))),
        ('t14', [V('B'), V('C')], ('conj', ('call', 'findall', [('F', 'tr', [V('X'), V('Y'), V('Z')]), ('F', 'al3', [V('X'), V('Y'), V('Z')]), V('L')]),
                                   ('conj', ('call', '=', [V('L'), ('P', [('F', 'tr', [V('A'), V('B'), V('C')])], ('_',))]), ('call', '=', [V('B'), ('A', 'two')])))),
    ]
    nine = [('A', 'w%d' % k) for k in range(9)]
    prog.append(('wide', nine, 'tru'))
    callers += [('t15', [V('X')], ('conj', ('call', 'call', [('A', 'wide')] + nine[:8] + [V('X')]), 'tru')),
                ('t16', [V('X')], ('call', 'call', [('F', 'wide', nine[:1])] + nine[1:8] + [V('X')]))]
    callers += [('t17', [V('L')], ('call', 'findall', [V('X'), ('F', 'chain2', [V('X')]), V('L')])),
                ('t18', [V('L')], ('call', 'findall', [('F', 'box', [V('X')]), ('F', 'chain2', [V('X')]), V('L')]))]
    prog.append(('chain2', [V('X')], ('conj', ('call', '=', [V('X'), V('Y')]), ('call', 'it', [V('Y')])), True))
    callers = [(n, h, _fix(b)) for n, h, b in callers]
    prog.append(('al3', [V('X'), V('Y'), V('Z')], ('conj', ('call', '=', [V('X'), V('Z')]), ('call', 'it', [V('Y')])), True))
    chosen = rnd.sample(callers, rnd.randint(4, len(callers)))
    prog += [(n, h, b, True) for n, h, b in chosen]
    ops = [('load', 'overwrite', prog)]
    qs = [('query', n, ('all',), [[Sym('v'), j] for j in range(len(h))]) for n, h, b in chosen]
    ops += qs
    if rnd.random() < 0.6:
        ops.append(('load', 'combine', [('first', [('A', 'z')], 'tru')]))
        ops += qs
        ops.append(('query', 'first', ('all',), [[Sym('v'), 0]]))
    rep.count('committed-goal-family')
    if scen.three_way(rep, drv, ops, 'case %d committed goals' % i) == 'ok':
        rep.nontriv(scen.norm([n for n, h, b in chosen] + atoms))


def cleared_case(rep, drv, rnd, i):
    """the builtins are part of every engine state the API can reach: also after clear()"""
    g = gen.ProgGen(rnd, knobs(rnd))
    prog = g.program()
    qs = [('query', name, ('all',), args) for name, args in g.queries(3)]
    nil = [Sym('a'), '[]']
    api = [('query', 'findall', ('all',), [[Sym('v'), 0], [Sym('f'), 'nothing_here', [Sym('v'), 0]], nil]),
           ('query', '=', ('all',), [nil, [Sym('v'), 1]]),
           ('query', 'findall', ('all',), [[Sym('v'), 0], [Sym('f'), '=', [Sym('v'), 0], nil], [Sym('f'), '.', nil, nil]])]
    if i % 48 == 3:
        # a findall with more than a hundred solutions
        api = api + [('assert', 'big', 'z', [[Sym('i'), k_]]) for k_ in range(130)] + \
            [('query', 'findall', ('all',), [[Sym('v'), 0], [Sym('f'), 'big', [Sym('v'), 0]], [Sym('v'), 1]])]
        # ... and one whose goal recurses a hundred levels down a list
        lst = [Sym('a'), '[]']
        for k_ in range(100):
            lst = [Sym('f'), '.', [Sym('i'), k_], lst]
        prog = prog + [('mem2', [V('X'), ('P', [V('X')], ('_',))], 'tru'), ('mem2', [V('X'), ('P', [('_',)], V('T'))], ('call', 'mem2', [V('X'), V('T')]), True)]
        api = api + [('query', 'findall', ('all',), [[Sym('v'), 0], [Sym('f'), 'mem2', [Sym('v'), 0], lst], [Sym('v'), 1]])]
    ops = [('load', 'overwrite', prog)] + qs[:1] + api + [('clear',)] + qs[:1] + api + [('load', 'overwrite', prog)] + qs + api
    rep.count('builtins-after-clear')
    if scen.three_way(rep, drv, ops, 'case %d after clear' % i) == 'ok':
        rep.nontriv(scen.norm([scen.ops_json(ops[:1]), [q[1] for q in qs]]))


def nonlinear_case(rep, drv, rnd, i):
    """= and \\= on terms in which a variable occurs twice, or two variables are aliased before the test:
    whether such terms unify cannot be judged argument by argument"""
    atoms = ['a', 'b', 'c']
    A = lambda: ('A', rnd.choice(atoms))

    def shape(x, y):
        k = rnd.randrange(5)
        if k == 0:
            return ('F', 'f', [x, y])
        if k == 1:
            return ('L', [x, y, A()])
        if k == 2:
            return ('P', [x, y], ('_',))
        if k == 3:
            return ('F', 'g', [('F', 'h', [x]), ('L', [y])])
        return ('F', 'f', [x, ('F', 'k', [y, A()])])
    prog = [('it', [('A', a)], 'tru') for a in atoms]
    tests = []
    for n in range(rnd.randint(4, 7)):
        a1, a2 = A(), A()
        pat = shape(V('X'), V('X')) if rnd.random() < 0.6 else shape(V('X'), V('Y'))
        # the same shape with constants (rebuild with the same random choices is not needed: only unifiability matters)
        other = rnd.choice([shape(a1, a2), shape(a1, a1), shape(V('Z'), a2)])
        op = rnd.choice(['\\=', '\\=', '='])
        pre = rnd.choice(['tru', ('call', '=', [V('X'), V('Y')]), ('call', '=', [V('Y'), V('X')]), ('call', 'it', [V('X')])])
        goal = ('call', op, [pat, other])
        body = ('conj', pre, ('conj', goal, ('call', '=', [V('R'), ('A', 'passed')])))
        tests.append(('n%d' % n, [V('X'), V('Y'), V('R')], body, True))
    prog += tests
    ops = [('load', 'overwrite', prog)]
    ops += [('query', t[0], ('all',), [[Sym('v'), 0], [Sym('v'), 1], [Sym('v'), 2]]) for t in tests]
    rep.count('non-linear-eq-neq')
    if scen.three_way(rep, drv, ops, 'case %d non-linear' % i) == 'ok':
        rep.nontriv(scen.norm(scen.ops_json(ops[:1])))


def case(rep, drv, rnd, i, tier):
    if i % 16 == 11:
        return nonlinear_case(rep, drv, rnd, i)
    if i % 8 == 7:
        return committed_goal_case(rep, drv, rnd, i)
    if i % 16 == 3:
        return cleared_case(rep, drv, rnd, i)
    return progcheck.case(rep, drv, rnd, i, tier)


def run(tier):
    n = 900 if tier == 'quick' else 12000
    progcheck.configure(PROP, knobs=knobs, sched_mode='all', queries_per_prog=3)
    with Check(PROP, tier) as chk:
        par.run_cases(chk.rep, 'harness.checks.c09', 'case', n)
        chk.finish(rule='stratified random programs whose bodies use call/1..3 (atom or compound goal, inline or via a variable '
                        'bound earlier in the body or through a chain of variables, extra arguments, one goal term called twice), '
                        'once/1, findall/3, = and \\= (incl. same-name structures of different arity) with goals that have 0-3 '
                        'solutions; one case in eight: meta-calls on goals whose answers come from clauses ending in a cut, with a '
                        'second definition chained behind; one case in sixteen: = and \\= on non-linear and aliased terms; one case in sixteen: the same programs after clear() and a reload; any exception escaping a query is a violation; non-trivial = the '
                        'reference yields >= 1 answer; distinct = distinct (program, query)')


replay = progcheck.replay
