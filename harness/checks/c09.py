"""C09 - call/N, once/1, findall/3, = and \\= agree with their standard definitions."""
from .. import gen, progcheck
PROP = 'C09'


def knobs(rnd):
    return gen.Knobs(cut=rnd.random() < 0.2, ctrl=rnd.random() < 0.4, eq=True, meta=True, max_body=4, n_rules=(2, 4))


def run(tier):
    progcheck.run(PROP, tier, knobs, 900, 12000,
                  rule='stratified random programs whose bodies use call/1..3 (atom or compound goal, inline or via a variable '
                       'bound earlier in the body, extra arguments), once/1, findall/3, = and \\= with goals that have 0-3 '
                       'solutions; any exception escaping a query is a violation; non-trivial = the reference yields >= 1 '
                       'answer; distinct = distinct (program, query)')


replay = progcheck.replay
