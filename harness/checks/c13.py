"""C13 - a stored fact is an independent copy of the asserted term."""
import gc
from .. import dbgen, histcheck, real as R
from ..common import Sym, sx
import yldprolog.engine as E
PROP = 'C13'


def zigzag_retract(rnd, rep):
    """a fact that a retract has just removed is still visited by an enumeration that started earlier
    (logical update view): what that enumeration sees is a copy of the fact as it was stored, whatever the
    suspended retract - or the caller, through the term the retract returned - has bound meanwhile"""
    eng = R.RealEngine()
    yp = eng.yp
    eng.assert_fact('cz', [[Sym('a'), 'k']])
    eng.assert_fact('cz', [[Sym('f'), 'g', [Sym('v'), 90]]])
    eng.assert_fact('cz', [[Sym('f'), 'h', [Sym('v'), 91], [Sym('v'), 91]]])
    X = yp.variable()
    e = yp.query('cz', [X])
    next(e)                                            # the enumeration is under way (first fact)
    how = rnd.choice(['pattern', 'returned-term'])
    keep = []
    if how == 'pattern':
        r = yp.query('retract', [yp.functor('cz', [yp.functor('g', [yp.atom('a')])])])
        next(r)                                        # suspended at its answer
        keep.append(r)
    else:
        Y = yp.variable()
        r = yp.query('retract', [yp.functor('cz', [Y])])
        next(r)
        next(r)                                        # second fact: Y = g(_)
        u = E.unify(Y, yp.functor('g', [yp.atom('a')]))
        next(u)                                        # the caller instantiates what it got
        keep += [r, u]
    seen = []
    for _ in e:
        seen.append(sx(R.canon_terms([X])))
    del keep, r, e
    gc.collect()
    rep.count('zigzag-retract')
    want = ['((f "g" (v 0)))', '((f "h" (v 0) (v 0)))']
    if seen != want:
        rep.violation({'kind': 'an enumeration that started before a retract sees the retracted fact with the bindings of the retract',
                       'how': how, 'seen': seen, 'expected': want})


def history(rnd, rep):
    if rnd.random() < 0.25:
        zigzag_retract(rnd, rep)
    return dbgen.c13_history(rnd)


def run(tier):
    histcheck.run(PROP, tier, history, 250, 8000,
                  rule='random clauses that bind variables before, after and through chains/structures around an assert of p(T) and then '
                       'use the fact (also while the asserting clause is still active), API asserts of non-ground terms, and bodies '
                       'that use one fact twice; an enumeration resumed while a retract of one of its facts is suspended; read back with all-variable and partially bound patterns; non-trivial = some query '
                       'has an answer; distinct = distinct (operations, final contents)')


replay = histcheck.replay
