"""C13 - a stored fact is an independent copy of the asserted term."""
from .. import dbgen, histcheck
PROP = 'C13'


def run(tier):
    histcheck.run(PROP, tier, lambda rnd, rep: dbgen.c13_history(rnd), 250, 8000,
                  rule='random clauses that bind variables before, after and through chains/structures around an assert of p(T) and then '
                       'use the fact (also while the asserting clause is still active), API asserts of non-ground terms, and bodies '
                       'that use one fact twice; read back with all-variable and partially bound patterns; non-trivial = some query '
                       'has an answer; distinct = distinct (operations, final contents)')


replay = histcheck.replay
