"""C20 - Python predicates are interchangeable with compiled ones."""
from .. import common, gen, scen, src as S, real as R, progcheck, par
from ..frame import Check
from ..common import Sym
PROP = 'C20'


def knobs(rnd):
    return gen.Knobs(cut=rnd.random() < 0.4, ctrl=rnd.random() < 0.6, eq=True, meta=rnd.random() < 0.6,
                     max_body=4, n_rules=(2, 3), n_facts=(2, 4), db=False)


def case(rep, drv, rnd, i, tier):
    g = gen.ProgGen(rnd, knobs(rnd))
    prog = g.program()
    qs = g.queries(3)
    factpreds = sorted({(c[0], len(c[1])) for c in prog if c[0].startswith('f')})
    if not factpreds:
        return
    subset = [p for p in factpreds if rnd.random() < 0.6] or [rnd.choice(factpreds)]
    twin = None
    if rnd.random() < 0.3:
        # the same name with another arity stays compiled, next to a variadic Python definition
        name, arity = rnd.choice(subset)
        if (name, arity + 1) not in factpreds:
            twin = (name, arity)
            extra = [(name, [('A', 'tw%d' % k)] + [('A', 'x')] * arity, 'tru') for k in range(rnd.randint(1, 2))]
            prog = prog + extra
            qs = qs + [(name, [[Sym('v'), 70 + k] for k in range(arity + 1)])]
            rep.count('same-name-other-arity-compiled')
    rest = [c for c in prog if (c[0], len(c[1])) not in subset]
    # meta-calls on the replaced predicates straight from the API
    metaq = []
    for (name, arity) in subset:
        vs = [[Sym('v'), 50 + k] for k in range(arity)]
        goal = [Sym('f'), name] + vs if arity else [Sym('a'), name]
        metaq.append(('call', [goal]))
        metaq.append(('findall', [[Sym('f'), 't'] + vs, goal, [Sym('v'), 60]]))
        if arity >= 1:
            metaq.append(('call', [[Sym('f'), name] + vs[:-1] if arity > 1 else [Sym('a'), name], vs[-1]]))
    queries = qs + metaq
    ops_all = [('load', 'overwrite', prog)] + [('query', n_, ('all',), a) for n_, a in queries]
    ops_py = [('load', 'overwrite', rest)]
    # the predicates are called before any function is registered for them (nothing there yet)
    pre = [('query', n_, ('all',), a) for n_, a in queries] if rnd.random() < 0.5 else []
    dyn = None
    if rnd.random() < 0.3:
        name, arity = rnd.choice(subset)
        dyn = ('assert', name, 'z', [gen.mterm_ground(rnd, 1) for _ in range(arity)])
        ops_all.insert(1, dyn)
        ops_py.append(dyn)
        rep.count('with-dynamic-facts')
    ops_py += pre
    raise_case = rnd.random() < 0.25
    for (name, arity) in subset:
        rows = [progcheck.source_to_model_row(c[1]) for c in prog if (c[0], len(c[1])) == (name, arity)]
        style = rnd.choice(['explicit', 'inferred', 'variadic', 'inferred-default', 'inferred-star', 'partial'] if arity else ['explicit', 'inferred', 'variadic'])
        if twin == (name, arity):
            style = 'variadic'
        yv = rnd.choice([True, False])
        raise_at = rnd.randint(0, len(rows)) if raise_case and rnd.random() < 0.5 else None
        clauses = [c for c in prog if (c[0], len(c[1])) == (name, arity)]
        if style != 'variadic' and len(rows) >= 2 and raise_at is None and rnd.random() < 0.35:
            # half of the predicate stays Prolog, chained behind the Python half by a second load
            h = rnd.randint(1, len(rows) - 1)
            ops_py.append(('regpy', name, arity, rows[:h], None, style, yv))
            ops_py.append(('load', 'combine', clauses[h:]))
            rep.count('python-half-chained-with-compiled-half')
            rep.count('style:' + style)
            rep.count('yield:' + str(yv))
            continue
        ops_py.append(('regpy', name, None if style == 'variadic' else arity, rows, raise_at, style, yv))
        rep.count('style:' + style)
        rep.count('yield:' + str(yv))
        if raise_at is not None:
            rep.count('python-predicate-raises')
    ops_py += [('query', n_, ('all',), a) for n_, a in queries]
    n_main = len(ops_py)
    if rnd.random() < 0.3:
        # a cleared engine has no registered functions either: the all-compiled program loaded afterwards answers alone
        ops_py += [('clear',), ('load', 'combine', prog)] + [('query', n_, ('all',), a) for n_, a in queries]
        rep.count('cleared-and-reloaded')
    # (1) the python variant agrees with the model (reference + compiled) of the same history
    v = scen.three_way(rep, drv, ops_py, 'case %d python variant' % i)
    rep.count('programs')
    # (2) ... and with the all-compiled program on the real engine, answer for answer
    if v not in ('property', 'crash', 'skipped') and not any(op[0] == 'regpy' and op[4] is not None for op in ops_py):
        ra, ea = scen.run_real_robust(ops_all, rep)
        rp, ep = scen.run_real_robust(ops_py, rep)
        if ea or ep:
            rep.violation({'kind': 'real code raised', 'error': ea or ep, 'ops': scen.ops_json(ops_py)})
        else:
            nq = len(queries)
            qa = [scen.norm(r) for r in ra[-nq:]]
            qp = [scen.norm(r) for r in rp[n_main - nq:n_main]]
            try:
                cyc = drv.ask(R.scenario_model(ops_all, 'reference'))[1:]
            except common.ModelTimeout:
                return
            qc = [scen.norm(r) for r in cyc[-nq:]]
            for a, p_, c_ in zip(qa, qp, qc):
                if 'cyclic' in c_ or 'oof' in c_:
                    break
                if a != p_:
                    rep.violation({'kind': 'python predicate changes the answers', 'compiled': a, 'python': p_,
                                   'ops': scen.ops_json(ops_py), 'ops_compiled': scen.ops_json(ops_all),
                                   'prolog': [S.program_text(prog)]})
                    break
                if '(q ()' not in a:
                    rep.nontriv(a + S.program_text(prog))
    if i < 2:
        rep.sample({'prolog': S.program_text(prog), 'python_predicates': [list(p) for p in subset]})


def run(tier):
    n = 600 if tier == 'quick' else 12000
    with Check(PROP, tier) as chk:
        par.run_cases(chk.rep, 'harness.checks.c20', 'case', n)
        chk.finish(rule='random programs (cut, ;, ->, \\+, meta-calls) in which a random non-empty subset of the fact predicates is '
                        're-implemented as registered Python generators (explicit / inferred / variadic arity; yield True or '
                        'False; optionally raising at the j-th row; optionally only the first rows in Python with the remaining clauses chained behind by a second load; optionally next to dynamic facts; optionally called before '
                        'the registration exists), queried through rules and through call/N and findall/3 from the API: answers must '
                        'equal those of the all-compiled program on the real engine and those of the reference; an exception raised '
                        'inside the function must reach the consumer as that exception with all variables unbound; non-trivial = a '
                        'query with >= 1 answer; distinct = distinct (program, answers)')


replay = progcheck.replay
