"""An independent recogniser for the documented grammar: the parser rules are read from
/repo/src/yldprolog/prolog.g4 at run time (translator tie), turned into BNF and run by an
Earley recogniser over the token types produced by the model lexer."""
import os, re
from . import common

G4 = os.path.join(common.REPO, 'src', 'yldprolog', 'prolog.g4')


def tokenize_g4(text):
    text = re.sub(r'/\*.*?\*/', ' ', text, flags=re.S)
    text = re.sub(r'//[^\n]*', ' ', text)
    toks = []
    i = 0
    while i < len(text):
        c = text[i]
        if c.isspace():
            i += 1
        elif c == "'":
            j = i + 1
            while text[j] != "'":
                j += 2 if text[j] == '\\' else 1
            toks.append(('lit', text[i:j + 1]))
            i = j + 1
        elif c == '[':
            j = text.index(']', i)
            toks.append(('set', text[i:j + 1]))
            i = j + 1
        elif c == '<':
            j = text.index('>', i)
            i = j + 1                      # <assoc=right>
        elif c == '-' and text[i:i + 2] == '->':
            toks.append(('arrow', '->'))
            i += 2
        elif c in ':;|()*?+=~.':
            toks.append((c, c))
            i += 1
        elif c.isalpha() or c == '_':
            j = i
            while j < len(text) and (text[j].isalnum() or text[j] == '_'):
                j += 1
            toks.append(('id', text[i:j]))
            i = j
        else:
            raise ValueError('g4: unexpected %r' % c)
    return toks


def parse_g4(text):
    """returns {rule: EBNF} for parser rules (lower-case names). EBNF nodes:
    ('alt', [seq...]) ('seq', [item...]) ('tok', NAME) ('lit', "'x'") ('ref', name) ('star', x) ('opt', x) ('plus', x)"""
    toks = tokenize_g4(text)
    pos = [0]

    def peek():
        return toks[pos[0]] if pos[0] < len(toks) else ('eof', '')

    def take():
        t = toks[pos[0]]
        pos[0] += 1
        return t

    def alt():
        seqs = [seq()]
        while peek()[0] == '|':
            take()
            seqs.append(seq())
        return ('alt', seqs)

    def seq():
        items = []
        while peek()[0] in ('id', 'lit', '(', '~', 'set', '.'):
            items.append(item())
        return ('seq', items)

    def item():
        t = take()
        if t[0] == 'id' and peek()[0] == '=':       # label=
            take()
            t = take()
        if t[0] == 'id':
            x = ('ref', t[1]) if t[1][0].islower() else ('tok', t[1])
        elif t[0] == 'lit':
            x = ('lit', t[1])
        elif t[0] == '(':
            x = alt()
            assert take()[0] == ')'
        else:
            x = ('lexer-only', t[1])
            if t[0] == '~':
                take()
        while peek()[0] in '*?+' and peek()[0] != '':
            k = take()[0]
            if peek()[0] == '?':
                take()                              # non-greedy marker
            x = ({'*': 'star', '?': 'opt', '+': 'plus'}[k], x)
        return x

    rules = {}
    # header: grammar name ;
    assert take()[1] == 'grammar'
    take()
    assert take()[0] == ';'
    while pos[0] < len(toks):
        t = take()
        if t[1] == 'fragment':
            t = take()
        name = t[1]
        assert take()[0] == ':', name
        body = alt()
        # lexer commands:  -> skip
        if peek()[0] == 'arrow':
            take()
            take()
        assert take()[0] == ';', name
        if name[0].islower():
            rules[name] = body
    return rules


def to_bnf(rules):
    """EBNF -> list of (lhs, [symbols]); terminals are token-kind strings"""
    prods = []
    counter = [0]

    def fresh(base):
        counter[0] += 1
        return '%s$%d' % (base, counter[0])

    def expand(node, base):
        """returns a list of alternative symbol sequences for node"""
        k = node[0]
        if k == 'alt':
            out = []
            for s in node[1]:
                out.extend(expand(s, base))
            return out
        if k == 'seq':
            seqs = [[]]
            for it in node[1]:
                alts = expand(it, base)
                if len(alts) == 1:
                    seqs = [s + alts[0] for s in seqs]
                else:
                    nt = fresh(base)
                    for a in alts:
                        prods.append((nt, a))
                    seqs = [s + [nt] for s in seqs]
            return seqs
        if k == 'ref':
            return [[node[1]]]
        if k == 'tok':
            return [[('t', node[1])]]
        if k == 'lit':
            # ANTLR escapes: \\\\ is a backslash, \\' a quote
            body = node[1][1:-1].replace('\\\\', '\\').replace("\\'", "'")
            return [[('t', "'" + body + "'")]]
        if k in ('star', 'plus', 'opt'):
            inner = expand(node[1], base)
            nt = fresh(base)
            x = fresh(base)
            for a in inner:
                prods.append((x, a))
            if k == 'opt':
                prods.append((nt, []))
                prods.append((nt, [x]))
            elif k == 'star':
                prods.append((nt, []))
                prods.append((nt, [x, nt]))
            else:
                prods.append((nt, [x]))
                prods.append((nt, [x, nt]))
            return [[nt]]
        raise ValueError(node)

    for name, body in rules.items():
        for a in expand(body, name):
            prods.append((name, a))
    return prods


class Earley:
    def __init__(self, prods, start):
        self.start = start
        self.by_lhs = {}
        for lhs, rhs in prods:
            self.by_lhs.setdefault(lhs, []).append(tuple(rhs))
        self.nullable = set()
        changed = True
        while changed:
            changed = False
            for lhs, alts in self.by_lhs.items():
                if lhs in self.nullable:
                    continue
                for rhs in alts:
                    if all((not isinstance(s, tuple)) and s in self.nullable for s in rhs):
                        self.nullable.add(lhs)
                        changed = True
                        break

    def accepts(self, kinds):
        n = len(kinds)
        chart = [set() for _ in range(n + 1)]
        order = [[] for _ in range(n + 1)]

        def add(i, item):
            if item not in chart[i]:
                chart[i].add(item)
                order[i].append(item)
        for rhs in self.by_lhs[self.start]:
            add(0, (self.start, rhs, 0, 0))
        for i in range(n + 1):
            k = 0
            while k < len(order[i]):
                lhs, rhs, dot, origin = order[i][k]
                k += 1
                if dot < len(rhs):
                    sym = rhs[dot]
                    if isinstance(sym, tuple):
                        if i < n and kinds[i] == sym[1]:
                            add(i + 1, (lhs, rhs, dot + 1, origin))
                    else:
                        for r2 in self.by_lhs.get(sym, []):
                            add(i, (sym, r2, 0, i))
                        if sym in self.nullable:
                            add(i, (lhs, rhs, dot + 1, origin))
                else:
                    for (l2, r2, d2, o2) in list(chart[origin]):
                        if d2 < len(r2) and r2[d2] == lhs:
                            add(i, (l2, r2, d2 + 1, o2))
        return any(lhs == self.start and dot == len(rhs) and origin == 0 for (lhs, rhs, dot, origin) in chart[n])


_cache = {}


def recogniser():
    text = open(G4, encoding='utf8').read()
    if text not in _cache:
        rules = parse_g4(text)
        _cache[text] = Earley(to_bnf(rules), 'program')
    return _cache[text]
