"""Shared plumbing of the checks: paths, seeds, the model driver, S-expressions,
evidence and replay files, known findings, verdict lines."""
import json, os, subprocess, sys, time, hashlib, random

VERIF = os.path.dirname(os.path.dirname(os.path.abspath(__file__)))
REPO = os.environ.get('YLD_REPO', '/repo')
LEAN_DIR = os.path.join(VERIF, 'lean')
DRIVER = os.path.join(LEAN_DIR, '.lake', 'build', 'bin', 'ylddriver')
# (the two overrides are for tools/mutant.sh: runs against a mutated copy must not touch the committed evidence)
EVIDENCE_DIR = os.environ.get('VERIF_EVIDENCE_DIR') or os.path.join(VERIF, 'evidence')
REPLAY_DIR = os.environ.get('VERIF_REPLAY_DIR') or os.path.join(VERIF, 'replays')
PY = '/venv/bin/python'

os.environ['YLDPROLOG_VERIF'] = '1'
if os.path.join(REPO, 'src') not in sys.path:
    sys.path.insert(0, os.path.join(REPO, 'src'))


def seed():
    try:
        return int(os.environ.get('VERIF_SEED', '0'))
    except ValueError:
        return 0


def rng_for(prop, salt=''):
    h = hashlib.sha256(f'{prop}/{seed()}/{salt}'.encode()).digest()
    return random.Random(int.from_bytes(h[:8], 'big'))


# ---------------------------------------------------------------- S-expressions
class Sym(str):
    """a bare symbol (as opposed to a quoted string)"""
    __slots__ = ()

    def __repr__(self):
        return 'Sym(%s)' % str.__repr__(self)


def sx_escape(s):
    out = []
    for ch in s:
        o = ord(ch)
        if ch == '"':
            out.append('\\"')
        elif ch == '\\':
            out.append('\\\\')
        elif ch == '\n':
            out.append('\\n')
        elif ch == '\r':
            out.append('\\r')
        elif ch == '\t':
            out.append('\\t')
        elif o < 32:
            out.append('\\x%02x' % o)
        else:
            out.append(ch)
    return ''.join(out)


def sx(x):
    """Python value -> S-expression text. Sym -> symbol, str -> quoted string, int -> symbol,
    list/tuple -> list."""
    if isinstance(x, Sym):
        return str(x)
    if isinstance(x, bool):
        return 'true' if x else 'false'
    if isinstance(x, int):
        return str(x)
    if isinstance(x, str):
        return '"' + sx_escape(x) + '"'
    if x is None:
        return 'none'
    return '(' + ' '.join([sx(y) for y in x]) + ')'


def sx_parse(text):
    pos = 0
    n = len(text)

    def skip():
        nonlocal pos
        while pos < n and text[pos].isspace():
            pos += 1

    def one():
        nonlocal pos
        skip()
        if pos >= n:
            raise ValueError('eof')
        c = text[pos]
        if c == '(':
            pos += 1
            items = []
            while True:
                skip()
                if pos >= n:
                    raise ValueError('eof in list')
                if text[pos] == ')':
                    pos += 1
                    return items
                items.append(one())
        if c == '"':
            pos += 1
            out = []
            while True:
                c = text[pos]
                if c == '"':
                    pos += 1
                    return ''.join(out)
                if c == '\\':
                    d = text[pos + 1]
                    if d == 'n':
                        out.append('\n'); pos += 2
                    elif d == 'r':
                        out.append('\r'); pos += 2
                    elif d == 't':
                        out.append('\t'); pos += 2
                    elif d == 'x':
                        out.append(chr(int(text[pos + 2:pos + 4], 16))); pos += 4
                    else:
                        out.append(d); pos += 2
                else:
                    out.append(c); pos += 1
        start = pos
        while pos < n and not text[pos].isspace() and text[pos] not in '()"':
            pos += 1
        return Sym(text[start:pos])

    return one()


# ---------------------------------------------------------------- model driver
class deep_recursion:
    """the harness's own (plain-function) recursion over deep terms; never active while the
    engine under test runs"""

    def __enter__(self):
        self.old = sys.getrecursionlimit()
        sys.setrecursionlimit(max(self.old, 200000))

    def __exit__(self, *a):
        sys.setrecursionlimit(self.old)


class ModelTimeout(Exception):
    """the model driver did not answer within its budget (the case is skipped, not judged)"""


class Driver:
    """The Lean model behind a line protocol (native executable built by `lake build`)."""

    def __init__(self, budget_s=12.0):
        if not os.path.exists(DRIVER):
            raise RuntimeError('model driver not built: run `cd lean && lake build`')
        self.budget_s = budget_s
        self.calls = 0
        self.timeouts = 0
        self._start()

    def _start(self):
        self.p = subprocess.Popen([DRIVER], stdin=subprocess.PIPE, stdout=subprocess.PIPE, bufsize=0)
        self.buf = b''

    def ask_raw(self, line):
        import select
        assert '\n' not in line
        self.p.stdin.write((line + '\n').encode('utf-8'))
        self.p.stdin.flush()
        deadline = time.time() + self.budget_s
        while b'\n' not in self.buf:
            left = deadline - time.time()
            if left <= 0:
                self.p.kill()
                self.p.wait()
                self.timeouts += 1
                self._start()
                raise ModelTimeout(line[:300])
            r, _, _ = select.select([self.p.stdout], [], [], left)
            if r:
                chunk = os.read(self.p.stdout.fileno(), 1 << 16)
                if not chunk:
                    raise RuntimeError('model driver died on: ' + line[:500])
                self.buf += chunk
        out, self.buf = self.buf.split(b'\n', 1)
        self.calls += 1
        return out.decode('utf-8')

    def ask(self, expr):
        with deep_recursion():
            return sx_parse(self.ask_raw(sx(expr)))

    def close(self):
        try:
            self.p.stdin.close()
            self.p.wait(timeout=10)
        except Exception:
            self.p.kill()


# ---------------------------------------------------------------- findings / verdicts
def load_known_findings():
    path = os.path.join(VERIF, 'known_findings.jsonl')
    out = []
    if os.path.exists(path):
        for line in open(path):
            line = line.strip()
            if line and not line.startswith('#'):
                out.append(json.loads(line))
    return out


def write_replay(prop, payload):
    os.makedirs(REPLAY_DIR, exist_ok=True)
    blob = json.dumps(payload, sort_keys=True, ensure_ascii=True, default=str)
    name = '%s-%s.json' % (prop, hashlib.sha256(blob.encode()).hexdigest()[:12])
    path = os.path.join(REPLAY_DIR, name)
    with open(path, 'w') as f:
        json.dump(payload, f, indent=1, sort_keys=True, ensure_ascii=True, default=str)
    return path


class Report:
    """Collects what one check run did; writes the evidence file; prints the verdict."""

    def __init__(self, prop, tier, level='proof'):
        self.prop = prop
        self.tier = tier
        self.level = level
        self.t0 = time.time()
        self.violations = []       # (replay path, suffix)
        self.known = []
        self.coverage = {}
        self.assumptions = []
        self.samples = []
        self.counters = {}
        self.nontrivial = set()
        self.evaluations = 0
        self.disagreements_checked = 0
        self.broken_ties = []      # names of correspondences that no longer check
        self.max_samples = 6

    def count(self, key, n=1):
        self.counters[key] = self.counters.get(key, 0) + n

    def sample(self, s):
        if len(self.samples) < self.max_samples:
            self.samples.append(s)

    def nontriv(self, key):
        self.nontrivial.add(key)

    def violation(self, payload, known_key=None, no_input=False):
        """Report a property violation. `known_key` identifies the failing input for the
        known-findings file."""
        payload = dict(payload)
        payload['property'] = self.prop
        payload['seed'] = seed()
        payload['tier'] = self.tier
        if known_key is not None:
            for kf in load_known_findings():
                if kf.get('property') == self.prop and kf.get('status') == 'open' and kf.get('key') == known_key:
                    if known_key not in [k for k, _ in self.known]:
                        self.known.append((known_key, kf.get('what', '')))
                    return
        path = write_replay(self.prop, payload)
        self.violations.append((path, ' no-failing-input-found' if no_input else ''))

    def finish(self, lean=None, rule='', extra=None, exit_=True):
        wall = time.time() - self.t0
        cov = dict(self.coverage)
        cov['evaluations'] = self.evaluations
        cov['distinct_nontrivial'] = len(self.nontrivial)
        cov['rule'] = rule
        cov['samples'] = self.samples
        cov['programs'] = self.counters.get('programs', self.evaluations)
        cov['disagreements_checked'] = self.disagreements_checked
        cov['distribution'] = self.counters
        if lean is not None:
            cov['obligations'] = lean['obligations']
            cov['discharged'] = lean['discharged']
            cov['checker_cmd'] = lean['checker_cmd']
            cov['trusted_base'] = lean['trusted_base']
            cov['theorems'] = lean['theorems']
            cov['axioms'] = lean['axioms']
        if extra:
            cov.update(extra)
        ev = {
            'property_id': self.prop,
            'tier': self.tier,
            'seed': seed(),
            'level': self.level,
            'coverage': cov,
            'assumptions': self.assumptions,
            'wall_s': round(wall, 2),
            'violations': len(self.violations),
        }
        os.makedirs(EVIDENCE_DIR, exist_ok=True)
        with open(os.path.join(EVIDENCE_DIR, self.prop + '.json'), 'w') as f:
            json.dump(ev, f, indent=1, ensure_ascii=True, default=str)
        for key, what in self.known:
            print('KNOWN-FINDING: property=%s %s' % (self.prop, what or key))
        seen = set()
        for path, suffix in self.violations:
            if path in seen:
                continue
            seen.add(path)
            print('VIOLATION property=%s replay=%s%s' % (self.prop, path, suffix))
        sys.stdout.flush()
        code = 1 if self.violations else 0
        if exit_:
            sys.exit(code)
        return code
