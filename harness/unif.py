"""Term-pair generators, an independent textbook unifier (Robinson, with occurs check), and
the real-side runner of nested unifications (ties T3; properties C02, C15, C16)."""
import gc
from . import common, real as R
from .common import Sym
import yldprolog.engine as E

ATOMS = ['a', 'b', 'c', 'txt']      # 'txt' is also the text of a Python string used as a constant


def V(i):
    return [Sym('v'), i]


def gen_term(rnd, nvars, depth):
    r = rnd.random()
    if r < 0.35:
        return V(rnd.randrange(nvars))
    if r < 0.55 or depth <= 0:
        return [Sym('a'), rnd.choice(ATOMS)]
    if r < 0.62:
        if rnd.random() < 0.45:
            # other Python values used as constants (in the model: atoms with a reserved spelling)
            return [Sym('a'), rnd.choice(['$py:None', "$py:'txt'", '$py:Fraction(1, 2)', "$py:b'x'"])]
        return [Sym('i'), rnd.randrange(3)]
    if r < 0.9:
        return [Sym('f'), rnd.choice(['f', 'g'])] + [gen_term(rnd, nvars, depth - 1) for _ in range(rnd.randint(0, 3))]
    items = [gen_term(rnd, nvars, depth - 1) for _ in range(rnd.randint(0, 2))]
    tail = [Sym('a'), '[]'] if rnd.random() < 0.7 else V(rnd.randrange(nvars))
    for it in reversed(items):
        tail = [Sym('f'), '.', it, tail]
    return tail


def subterms(t, path=()):
    yield path, t
    if str(t[0]) == 'f':
        for i, a in enumerate(t[2:]):
            yield from subterms(a, path + (i,))


def replace(t, path, new):
    if not path:
        return new
    t = list(t)
    t[2 + path[0]] = replace(t[2 + path[0]], path[1:], new)
    return t


def mutate(rnd, t, nvars):
    """a near-instance / near-miss of t"""
    t2 = t
    for _ in range(rnd.randint(1, 3)):
        subs = list(subterms(t2))
        path, s = rnd.choice(subs)
        r = rnd.random()
        if r < 0.4:
            new = V(rnd.randrange(nvars))                    # generalise a subterm to a variable
        elif r < 0.55 and str(s[0]) == 'f':
            new = s[:2] + s[2:][:-1] if len(s) > 2 and rnd.random() < 0.5 else s + [gen_term(rnd, nvars, 0)]   # arity change, same name
        elif r < 0.7 and str(s[0]) == 'f':
            new = [s[0], 'h' if s[1] != 'h' else 'f'] + s[2:]   # name change, same arity
        elif r < 0.85:
            new = gen_term(rnd, nvars, 1)
        else:
            new = [Sym('a'), rnd.choice(ATOMS)]
        t2 = replace(t2, path, new)
    return t2


def gen_pairs(rnd):
    """0-4 earlier, still active unifications followed by the pair under test"""
    nvars = rnd.randint(1, 5)
    pairs = []
    for _ in range(rnd.choice([0, 0, 1, 1, 2, 3, 4])):
        r = rnd.random()
        if r < 0.5:
            pairs.append((V(rnd.randrange(nvars)), V(rnd.randrange(nvars))))     # variable-variable chains
        elif r < 0.8:
            pairs.append((V(rnd.randrange(nvars)), gen_term(rnd, nvars, 2)))
        else:
            t = gen_term(rnd, nvars, 2)
            pairs.append((t, mutate(rnd, t, nvars)))
    t = gen_term(rnd, nvars, rnd.randint(1, 3))
    r = rnd.random()
    if r < 0.6:
        u = mutate(rnd, t, nvars)
    elif r < 0.8:
        u = gen_term(rnd, nvars, 2)
    else:
        u = V(rnd.randrange(nvars))
    pairs.append((t, u) if rnd.random() < 0.5 else (u, t))
    return nvars, pairs


# ---------------------------------------------------------------- textbook unifier
def key(t):
    return common.sx(t)


def walk(t, s):
    while str(t[0]) == 'v' and int(t[1]) in s:
        t = s[int(t[1])]
    return t


def occurs(x, t, s):
    t = walk(t, s)
    if str(t[0]) == 'v':
        return int(t[1]) == x
    if str(t[0]) == 'f':
        return any(occurs(x, a, s) for a in t[2:])
    return False


class OccursFailure(Exception):
    pass


def robinson(t1, t2, s):
    """returns extended substitution dict or None; raises OccursFailure when the only
    obstacle is the occurs check"""
    t1 = walk(t1, s)
    t2 = walk(t2, s)
    k1, k2 = str(t1[0]), str(t2[0])
    if k1 == 'v' and k2 == 'v' and int(t1[1]) == int(t2[1]):
        return s
    if k1 == 'v':
        if occurs(int(t1[1]), t2, s):
            raise OccursFailure()
        s = dict(s)
        s[int(t1[1])] = t2
        return s
    if k2 == 'v':
        return robinson(t2, t1, s)
    if k1 != k2:
        return None
    if k1 in ('a', 'i'):
        return s if t1[1] == t2[1] else None
    if t1[1] != t2[1] or len(t1) != len(t2):
        return None
    for a, b in zip(t1[2:], t2[2:]):
        s = robinson(a, b, s)
        if s is None:
            return None
    return s


def apply(t, s):
    t = walk(t, s)
    if str(t[0]) == 'f':
        return t[:2] + [apply(a, s) for a in t[2:]]
    return t


def canon(ts):
    ids = {}

    def go(t):
        if str(t[0]) == 'v':
            if int(t[1]) not in ids:
                ids[int(t[1])] = len(ids)
            return [Sym('v'), ids[int(t[1])]]
        if str(t[0]) == 'f':
            return t[:2] + [go(a) for a in t[2:]]
        return t
    return [go(t) for t in ts]


def textbook(pairs, watch):
    """('ans', canonical resolved watch terms) | ('fail',) | ('unspecified',)"""
    s = {}
    try:
        for a, b in pairs:
            s = robinson(a, b, s)
            if s is None:
                return ('fail',)
    except OccursFailure:
        return ('unspecified',)
    return ('ans', canon([apply(t, s) for t in watch]))


# ---------------------------------------------------------------- the real engine
def py_canon(v):
    """to_python value -> sexp"""
    if v is None:
        return Sym('None')
    if isinstance(v, bool):
        return [Sym('pybool'), str(v)]
    if isinstance(v, int):
        return [Sym('int'), v]
    if isinstance(v, str):
        return v
    if isinstance(v, list):
        return [Sym('list')] + [py_canon(x) for x in v]
    if isinstance(v, tuple) and len(v) == 2:
        return [Sym('tuple'), v[0]] + [py_canon(x) for x in v[1]]
    return [Sym('py'), repr(v)]


def py_of(t):
    try:
        return py_canon(E.to_python(t))
    except (TypeError, IndexError):
        return Sym('error')       # improper list: list + non-list


def real_unify(pairs, watch, sched=('all',), swap_last=False, atoms='same', deferred=None):
    """atoms: 'same' = all terms from one engine; 'other' = right-hand sides built by another
    engine; 'cleared' = right-hand sides built by the same engine before clear()"""
    yp = E.YP()
    vs = {}
    if atoms == 'other':
        yp2 = E.YP()
    elif atoms == 'cleared':
        yp2 = yp
    else:
        yp2 = yp
    rhs = [R.build_term(yp2, b, vs) for a, b in pairs]
    if atoms == 'cleared':
        yp.clear()
    ps = [(R.build_term(yp, a, vs), r) for (a, b), r in zip(pairs, rhs)]
    if swap_last:
        a, b = ps[-1]
        ps[-1] = (b, a)
    ws = [R.build_term(yp, t, vs) for t in watch]
    outs = []
    saved = []

    # deferred: every unification object is created before the first one is started ('created-first'),
    # or obtained from the interface method of the left-hand term ('method': IUnifiable.unify, also on a
    # variable that is bound by the time it is started); a generator's body runs when it is started
    pre = None
    if deferred == 'created-first':
        pre = [E.unify(a, b) for a, b in ps]
    elif deferred == 'method':
        pre = [(a.unify(b) if isinstance(a, E.IUnifiable) else E.unify(a, b)) for a, b in ps]

    def nest(i):
        if i == len(ps):
            yield False
            return
        for _ in (pre[i] if pre is not None else E.unify(ps[i][0], ps[i][1])):
            yield from nest(i + 1)
    ending = Sym('done')
    g = nest(0)
    try:
        if sched[0] == 'stop' and sched[1] == 0:
            ending = Sym('stop')
            g.close()
        else:
            for _ in g:
                outs.append([Sym('ans')] + R.canon_terms(ws))
                outs.append([Sym('py')] + [py_of(w) for w in ws])
                saved.append([E.get_value(w) for w in ws])
                if sched[0] == 'stop':
                    ending = Sym('stop')
                    g.close()
                    break
                if sched[0] == 'raise':
                    raise R.ConsumerError()
    except R.ConsumerError as e:
        ending = R.exn_name(e)
    except Exception as e:
        ending = R.exn_name(e)
        e.__traceback__ = None
    del g
    if pre is not None:
        del pre[:]          # the harness's own references to the unification objects
    gc.collect()
    res = [Sym('u'), outs, ending, R.bound_count()]
    late = []
    for sv in saved:
        late.append([Sym('ans')] + R.canon_terms(sv))
        late.append([Sym('py')] + [py_of(x) for x in sv])
    return res, late


def real_unify_alternatives(prefix, alts, watch, method=False):
    """the unifications of `prefix` stay open while the alternatives are tried one after the other
    (each is backtracked before the next); at every yield the watch terms are read. Returns one
    entry per alternative: [ans ...] or fail, then the number of variables still bound."""
    yp = E.YP()
    vs = {}
    pre = [(R.build_term(yp, a, vs), R.build_term(yp, b, vs)) for a, b in prefix]
    al = [(R.build_term(yp, a, vs), R.build_term(yp, b, vs)) for a, b in alts]
    ws = [R.build_term(yp, t, vs) for t in watch]
    out = []

    def nest(i):
        if i == len(pre):
            yield False
            return
        for _ in E.unify(pre[i][0], pre[i][1]):
            yield from nest(i + 1)
    g = nest(0)
    for _ in g:
        for a, b in al:
            got = Sym('fail')
            # (method: through the left-hand term's own unify method, also on a variable that is bound)
            for _ in (a.unify(b) if method and isinstance(a, E.IUnifiable) else E.unify(a, b)):
                got = [Sym('ans')] + R.canon_terms(ws)
            out.append(got)
    del g
    gc.collect()
    return out, R.bound_count()


def fix_model(m):
    """Python values used as constants are atoms with a reserved spelling in the model: in the model's
    to_python output they read as the values themselves"""
    if isinstance(m, list):
        return [fix_model(x) for x in m]
    if isinstance(m, str) and not isinstance(m, Sym):
        if m == '$py:None':
            return Sym('None')
        if m == "$py:'txt'":
            return 'txt'
        if m == '$py:Fraction(1, 2)':
            return [Sym('py'), 'Fraction(1, 2)']
        if m == "$py:b'x'":
            return [Sym('py'), "b'x'"]
    return m


def _fix_py_entries(m):
    if isinstance(m, list):
        if m and isinstance(m[0], Sym) and str(m[0]) == 'py':
            return [m[0]] + [fix_model(x) for x in m[1:]]
        return [_fix_py_entries(x) for x in m]
    return m


def model_cmd(pairs, watch, sched=('all',), fuel=600):
    s = Sym('all') if sched[0] == 'all' else [Sym(sched[0]), sched[1]]
    return [Sym('unify'), fuel, [[a, b] for a, b in pairs], watch, s]
