"""Tie T5: the reference semantics against an independent textbook Prolog interpreter.

harness/oracle/indep_prolog.py was written by a separate session from the standard operational
semantics of Prolog alone (it has seen neither /repo nor the Lean model). Where a history uses only
what standard Prolog defines (programs loaded before the first query, queries enumerated to the end,
assert_fact), the answers of the real engine — which the caller has already found equal to the
model's reference semantics — must also be the textbook interpreter's. A disagreement means that the
code and the model agree with each other but not with Prolog.

Not comparable (skipped, counted): definitions chained by a second load of the same predicate (a cut
in one chained definition does not cut the next: yldprolog's documented behaviour, not Prolog's),
registered Python predicates that are variadic, raise or are registered after the first query, queries that are closed or abandoned early, evaluate_bounded,
loads while a query is suspended, terms only the grammar has (numeral-named structures, a/1).
"""
from .common import Sym, sx
from .oracle import indep_prolog as IP


class Unsupported(Exception):
    pass


def _term(t):
    k = t[0]
    if k in ('V', '_', 'A', 'N'):
        if k == 'A':
            return ('A', str(t[1]))
        return tuple(t)
    if k == 'F':
        return ('F', str(t[1]), [_term(a) for a in t[2]])
    if k == 'L':
        return ('L', [_term(a) for a in t[1]])
    if k == 'P':
        return ('P', [_term(a) for a in t[1]], _term(t[2]))
    if k == 'OP':
        return ('F', t[1], [_term(t[2]), _term(t[3])])
    if k == 'UOP':
        return ('F', t[1], [_term(t[2])])
    raise Unsupported(k)


def _body(b):
    if isinstance(b, str):
        return b
    k = b[0]
    if k == 'call':
        if len(b) > 3 and b[3] == 'functional':
            pass
        return ('call', str(b[1]), [_term(a) for a in b[2]])
    if k == 'neg':
        return ('neg', _body(b[1]))
    if k in ('conj', 'disj', 'ite'):
        return (k, _body(b[1]), _body(b[2]))
    raise Unsupported(k)


def _qterm(t):
    """model term (as the scenarios carry query arguments) -> oracle input term"""
    k = str(t[0])
    if k == 'v':
        return ('V', 'Q%d' % t[1])
    if k == 'a':
        return ('A', t[1])
    if k == 'i':
        if t[1] < 0:
            raise Unsupported('negative')
        return ('N', str(t[1]))
    if k == 'f':
        return ('F', t[1], [_qterm(a) for a in t[2:]])
    raise Unsupported(k)


def _rterm(t):
    """row of a Python predicate (model term with row-local variable numbers) -> oracle input term"""
    k = str(t[0])
    if k == 'v':
        return ('V', 'R%d' % t[1])
    if k == 'f':
        return ('F', t[1], [_rterm(a) for a in t[2:]])
    return _qterm(t)


def _out(t):
    k = t[0]
    if k == 'v':
        return [Sym('v'), t[1]]
    if k == 'a':
        return [Sym('a'), t[1]]
    if k == 'i':
        return [Sym('i'), t[1]]
    # iterative along the last argument (long lists)
    head = out = [Sym('f'), t[1]]
    while True:
        args = t[2:]
        for a in args[:-1]:
            out.append(_out(a))
        if not args:
            break
        last = args[-1]
        if last[0] == 'f':
            nxt = [Sym('f'), last[1]]
            out.append(nxt)
            out = nxt
            t = last
        else:
            out.append(_out(last))
            break
    return head


def plan(ops):
    """(program clauses, steps) or raises Unsupported. steps: (op index, name, args) per query / assert"""
    defs = {}
    order = []
    steps = []
    started = False
    idx = 0
    for op in ops:
        k = op[0]
        if k == 'load':
            if started:
                raise Unsupported('load after the first query')
            groups = {}
            gorder = []
            for c in op[2]:
                key = (str(c[0]), len(c[1]))
                if key not in groups:
                    groups[key] = []
                    gorder.append(key)
                groups[key].append((str(c[0]), [_term(a) for a in c[1]], _body(c[2])))
            for key in gorder:
                if key in defs and op[1] != 'overwrite':
                    raise Unsupported('chained definitions')
                if key not in defs:
                    order.append(key)
                defs[key] = groups[key]
        elif k == 'regpy':
            # a registered Python predicate is meant to be interchangeable with the facts it enumerates (C20)
            _, name, arity, rows, raise_at, style, yv = op
            if started or arity is None or raise_at is not None:
                raise Unsupported('python predicate: variadic, raising or registered late')
            key = (str(name), arity)
            if key not in defs:
                order.append(key)
            defs[key] = [(str(name), [_rterm(t) for t in terms], 'tru') for (nv, terms) in rows]
        elif k == 'query':
            started = True
            if op[2][0] != 'all':
                raise Unsupported('partial enumeration')
            steps.append((idx, str(op[1]), [_qterm(a) for a in op[3]], True))
        elif k == 'assert':
            started = True
            fact = ('F', str(op[1]), [_qterm(a) for a in op[3]]) if op[3] else ('A', str(op[1]))
            steps.append((idx, 'assertz' if op[2] == 'z' else 'asserta', [fact], False))
        else:
            raise Unsupported(k)
        idx += 2 if k in ('query_load', 'prebuilt') else 1
    prog = [c for key in order for c in defs[key]]
    for c in prog:
        if c[0] in ('=', '\\=', 'call', 'once', 'findall', 'assertz', 'asserta', 'retract', 'retractall'):
            raise Unsupported('program defines a builtin name')
    return prog, steps


def compare(rep, ops, real):
    """None, or a dict describing the first disagreement between the real engine's answers and the
    textbook interpreter's. `clear()` drops program and facts alike: the history is compared segment
    by segment."""
    base = 0
    seg = []
    for op in list(ops) + [('clear',)]:
        if op[0] == 'clear':
            if seg:
                d = _compare_segment(rep, seg, real, base)
                if d is not None:
                    return d
            base += sum(2 if o[0] in ('query_load', 'prebuilt') else 1 for o in seg) + 1
            seg = []
        else:
            seg.append(op)
    return None


def _compare_segment(rep, ops, real, base):
    try:
        prog, steps = plan(ops)
    except Unsupported as e:
        rep.count('T5-not-comparable')
        return None
    if not any(s[3] for s in steps):
        return None
    try:
        res = IP.run(prog, [(s[1], s[2]) for s in steps], step_budget=60000)
    except IP.PrologError:
        rep.count('T5-oracle-raises-error')
        return None
    except RecursionError:
        rep.count('T5-oracle-depth')
        return None
    compared = 0
    for s, r in zip(steps, res):
        if r[0] != 'ok':
            rep.count('T5-oracle-budget')
            break
        if not s[3]:
            continue
        rr = real[base + s[0]]
        if sx(rr[2]) != 'done':
            break            # the real query ended with an exception: what follows is not comparable
        try:
            mine = sx([[_out(t) for t in ans] for ans in r[1]])
            theirs = sx(rr[1])
        except RecursionError:
            rep.count('T5-oracle-depth')
            break
        compared += 1
        if mine != theirs:
            return {'op_index': base + s[0], 'query': [s[1], sx([a for a in ops_args(ops, s[0])])], 'real': theirs, 'textbook': mine}
    if compared:
        rep.count('T5-histories-compared')
    return None


def ops_args(ops, i):
    idx = 0
    for op in ops:
        if idx == i:
            return op[3]
        idx += 2 if op[0] in ('query_load', 'prebuilt') else 1
    return []
