"""Generators of programs, bodies, terms and queries. Every random choice comes from the
`random.Random` handed in, so a case replays from (property, seed, index)."""
from .common import Sym

ATOMS = ['a', 'b', 'c']
VARS = ['X', 'Y', 'Z', 'W']
# legal variable names that look like names the compiler makes up itself (anonymous-variable
# numbering, argument names, prefixes): a renaming of clause variables must not change answers
ODD_VARS = ['_1', '_2', '_3', '_4', '_X', 'X1', 'Arg1', '__', '_x1', 'V_X', 'Xarg2', 'Self', 'Yp']


def clause_vars(rnd, n):
    if rnd.random() < 0.2:
        pool = ODD_VARS[:4] if rnd.random() < 0.5 else ODD_VARS
        return rnd.sample(pool, n)
    return VARS[:n]


def mterm_ground(rnd, depth=1):
    """model-level ground term (sexp form)"""
    r = rnd.random()
    if depth <= 0 or r < 0.55:
        return [Sym('a'), rnd.choice(ATOMS)]
    if r < 0.7:
        if rnd.random() < 0.15:
            return [Sym('a'), '$py:None']        # a Python value used as a constant (see real.build_term)
        return [Sym('i'), rnd.randrange(3)]
    if r < 0.85:
        return [Sym('f'), rnd.choice(['f', 'g'])] + [mterm_ground(rnd, depth - 1) for _ in range(rnd.randint(1, 2))]
    items = [mterm_ground(rnd, depth - 1) for _ in range(rnd.randint(0, 2))]
    t = [Sym('a'), '[]']
    for it in reversed(items):
        t = [Sym('f'), '.', it, t]
    return t


def mterm_query(rnd, nvars, depth=1):
    """model-level term for a query argument: variables (shared among arguments), partial
    structures, ground terms"""
    r = rnd.random()
    if r < 0.5:
        return [Sym('v'), rnd.randrange(nvars)]
    if r < 0.7 or depth <= 0:
        return [Sym('a'), rnd.choice(ATOMS)]
    if r < 0.85:
        return [Sym('f'), rnd.choice(['f', 'g'])] + [mterm_query(rnd, nvars, depth - 1) for _ in range(rnd.randint(1, 2))]
    return mterm_ground(rnd, depth)


def sterm(rnd, vars_, depth=1, p_var=0.5, anon=0.05):
    """source-level term over the given variable names"""
    r = rnd.random()
    if r < anon:
        return ('_',)
    if vars_ and r < p_var:
        return ('V', rnd.choice(vars_))
    r = rnd.random()
    if depth <= 0 or r < 0.5:
        return ('A', rnd.choice(ATOMS))
    if r < 0.6:
        return ('N', str(rnd.randrange(3)))
    if r < 0.8:
        return ('F', rnd.choice(['f', 'g']), [sterm(rnd, vars_, depth - 1, p_var, anon) for _ in range(rnd.randint(1, 2))])
    if r < 0.92 or not vars_:
        return ('L', [sterm(rnd, vars_, depth - 1, p_var, anon) for _ in range(rnd.randint(0, 2))])
    return ('P', [sterm(rnd, vars_, depth - 1, p_var, anon) for _ in range(rnd.randint(1, 2))],
            ('V', rnd.choice(vars_)) if rnd.random() < 0.9 else ('_',))


class Knobs:
    def __init__(self, **kw):
        self.cut = False
        self.ctrl = False        # ; -> \+
        self.eq = True           # = and \=
        self.meta = False        # call/N once findall
        self.db = False          # assert/retract in bodies
        self.max_body = 4
        self.n_facts = (2, 4)
        self.n_rules = (1, 3)
        self.max_arity = 2
        self.nonground_facts = 0.15
        self.recursive = 0.0
        self.__dict__.update(kw)


class ProgGen:
    """Stratified random programs: fact predicates f0.., rule predicates r0.. where rule i
    calls facts and rules j < i only (so every search is finite), plus optional structurally
    recursive list predicates used with terminating modes."""

    def __init__(self, rnd, knobs):
        self.rnd = rnd
        self.k = knobs
        self.preds = []          # (name, arity) callable so far
        self.clauses = []
        self.nsol = {}
        self.cut_last = set()

    # -- facts ---------------------------------------------------------------
    def gen_facts(self):
        rnd = self.rnd
        if rnd.random() < 0.5:
            self.clauses.append(('same', [('V', 'A'), ('V', 'A')], 'tru'))
            self.preds.append(('same', 2))
            self.nsol[('same', 2)] = 1
        for i in range(rnd.randint(*self.k.n_facts)):
            name = 'f%d' % i
            arity = rnd.randint(0 if rnd.random() < 0.1 else 1, self.k.max_arity)
            n = rnd.choice([0, 1, 1, 2, 2, 3])
            if n == 0:
                # a predicate nobody defines: calls simply fail
                self.preds.append((name, arity))
                self.nsol[(name, arity)] = 0
                continue
            for _ in range(n):
                if rnd.random() < self.k.nonground_facts:
                    vs = clause_vars(rnd, 2)
                    args = [sterm(rnd, vs, 1, 0.6, anon=0.25 if vs[0] not in VARS else 0.05) for _ in range(arity)]
                else:
                    args = [sterm(rnd, [], 1, 0.0, anon=0.0) for _ in range(arity)]
                self.clauses.append((name, args, 'tru'))
            self.preds.append((name, arity))
            self.nsol[(name, arity)] = n

    # -- bodies --------------------------------------------------------------
    def goal(self, vars_):
        rnd = self.rnd
        r = rnd.random()
        if self.k.eq and r < 0.18:
            op = '=' if rnd.random() < 0.75 else '\\='
            if vars_ and rnd.random() < 0.4:
                # variable-variable aliasing, in both directions
                return ('call', op, [('V', rnd.choice(vars_)), ('V', rnd.choice(vars_))])
            if rnd.random() < 0.2:
                # two structures with the same name: same or different number of arguments, common prefix unifiable
                f = rnd.choice(['f', 'g'])
                n1, n2 = rnd.choice([(1, 2), (2, 1), (2, 3), (1, 1), (2, 2), (0, 1)])
                a1 = [sterm(rnd, vars_, 0, 0.7) for _ in range(n1)]
                a2 = [a if rnd.random() < 0.5 else sterm(rnd, vars_, 0, 0.7) for a in (a1 + a1)[:n2]]
                return ('call', op, [('F', f, a1), ('F', f, a2)])
            return ('call', op, [sterm(rnd, vars_, 1, 0.7), sterm(rnd, vars_, 1, 0.4)])
        if r < 0.24 and ('same', 2) in self.preds:
            return ('call', 'same', [('V', rnd.choice(vars_)) if vars_ else ('_',), sterm(rnd, vars_, 1, 0.8)])
        if self.k.meta and r < 0.4:
            return self.meta_goal(vars_)
        if self.k.db and r < 0.45:
            return self.db_goal(vars_)
        name, arity = rnd.choice(self.preds)
        return ('call', name, [sterm(rnd, vars_, 1, 0.75) for _ in range(arity)])

    def plain_goal_term(self, vars_, drop=0):
        """a goal as a term: ('A', name) or ('F', name, args), with the last `drop` arguments left off"""
        rnd = self.rnd
        cands = [p for p in self.preds if p[1] >= drop]
        special = [p for p in cands if p in self.cut_last]
        if special and rnd.random() < 0.4:
            cands = special          # meta-calls on predicates whose answers are `yield True`
        if not cands:
            return ('A', 'nope'), 0
        name, arity = rnd.choice(cands)
        args = [sterm(rnd, vars_, 1, 0.75) for _ in range(arity - drop)]
        if not args:
            return ('A', name), arity
        return ('F', name, args), arity

    def meta_goal(self, vars_):
        rnd = self.rnd
        r = rnd.random()
        if r < 0.3 and vars_:
            # maplist/closure style: one goal term, called twice with different extra arguments
            cands = [p for p in self.preds if p[1] >= 1]
            if cands:
                name, arity = rnd.choice(cands)
                drop = rnd.randint(1, min(2, arity))
                fixed = [sterm(rnd, vars_, 1, 0.3) for _ in range(arity - drop)]
                g = ('F', name, fixed) if fixed else ('A', name)
                gv = ('V', 'G')
                e1 = [sterm(rnd, vars_, 1, 0.75) for _ in range(drop)]
                e2 = [sterm(rnd, vars_, 1, 0.75) for _ in range(drop)]
                return ('conj', ('call', '=', [gv, g]), ('conj', ('call', 'call', [gv] + e1), ('call', 'call', [gv] + e2)))
        # the goal may reach the builtin through a chain of variables bound in either order
        def via_chain(g, mk):
            x = rnd.random()
            if x < 0.75:
                return mk(g)
            gv, hv = ('V', 'G'), ('V', 'H')
            if x < 0.85:
                pre = [('call', '=', [gv, g])]
            elif x < 0.93:
                pre = [('call', '=', [gv, hv]), ('call', '=', [hv, g])]      # aliased first, bound afterwards
            else:
                pre = [('call', '=', [hv, g]), ('call', '=', [gv, hv])]
            out = mk(gv)
            for p_ in reversed(pre):
                out = ('conj', p_, out)
            return out
        if r < 0.4:
            drop = rnd.choice([0, 0, 1, 2])
            g, arity = self.plain_goal_term(vars_, drop)
            if arity < drop:
                drop = 0
            extra = [sterm(rnd, vars_, 1, 0.75) for _ in range(drop)]
            return via_chain(g, lambda t: ('call', 'call', [t] + extra))
        if r < 0.65:
            g, _ = self.plain_goal_term(vars_)
            return via_chain(g, lambda t: ('call', 'once', [t]))
        g, _ = self.plain_goal_term(vars_)
        tmpl = sterm(rnd, vars_, 1, 0.8)
        res = ('V', rnd.choice(vars_)) if vars_ else ('_',)
        return via_chain(g, lambda t: ('call', 'findall', [tmpl, t, res]))

    def db_goal(self, vars_):
        rnd = self.rnd
        name = rnd.choice(['d0', 'd1'])
        arity = 1 if name == 'd0' else rnd.choice([0, 2])
        args = [sterm(rnd, vars_, 1, 0.6) for _ in range(arity)]
        fact = ('F', name, args) if args else ('A', name)
        op = rnd.choice(['assertz', 'assertz', 'asserta', 'retract', 'retractall', 'query'])
        if op == 'query':
            return ('call', name, args)
        return ('call', op, [fact])

    def body(self, vars_, size):
        rnd = self.rnd
        if size <= 1:
            r = rnd.random()
            if self.k.cut and r < 0.18:
                return 'cut'
            if r < 0.23:
                return 'tru'
            if r < 0.28:
                return 'fail'
            return self.goal(vars_)
        r = rnd.random()
        if self.k.ctrl and r < 0.45:
            kind = rnd.choice(['disj', 'disj', 'ite', 'itee', 'neg', 'negneg'])
            if kind == 'neg':
                return ('neg', self.cond(vars_, size - 1))
            if kind == 'negneg':
                # `\\+ \\+ G`: succeeds once iff G has an answer, binds nothing
                return ('neg', ('neg', self.cond(vars_, size - 1)))
            ls = rnd.randint(1, size - 1)
            if kind == 'itee':
                cs = rnd.randint(1, max(1, ls - 1)) if ls > 1 else 1
                c = self.cond(vars_, cs)
                t = self.body(vars_, max(1, ls - cs))
                return ('disj', ('ite', c, t), self.body(vars_, size - ls))
            if kind == 'ite':
                return ('ite', self.cond(vars_, ls), self.body(vars_, size - ls))
            return ('disj', self.body(vars_, ls), self.body(vars_, size - ls))
        ls = rnd.randint(1, size - 1)
        return ('conj', self.body(vars_, ls), self.body(vars_, size - ls))

    def cond(self, vars_, size):
        """a condition: no cut inside (cut is only specified in transparent positions)"""
        saved = self.k.cut
        self.k.cut = False
        try:
            if self.k.ctrl and size >= 2 and vars_ and self.rnd.random() < 0.3:
                return self.filter_cond(vars_)
            return self.body(vars_, size)
        finally:
            self.k.cut = saved

    def filter_cond(self, vars_):
        """generate-and-test inside a condition: `g(X), \\+ h(X)` and friends - the nested construct is
        entered once per candidate, commits for some candidates and not for others"""
        rnd = self.rnd
        v = ('V', rnd.choice(vars_))

        def call1():
            cands = [p for p in self.preds if p[1] >= 1]
            facts = [p for p in cands if p[0].startswith('f') and self.nsol.get(p, 0) >= 1 and p[1] == 1]
            if facts and rnd.random() < 0.7:
                cands = facts
            if not cands:
                return ('call', '=', [v, ('A', rnd.choice(ATOMS))])
            name, arity = rnd.choice(cands)
            args = [sterm(rnd, vars_, 0, 0.6) for _ in range(arity)]
            args[rnd.randrange(arity)] = v
            return ('call', name, args)
        g, h = call1(), call1()
        test = rnd.choice([('neg', h), ('disj', ('ite', h, 'fail'), 'tru'), ('disj', ('ite', h, 'tru'), 'fail'),
                           ('ite', h, 'tru'), ('neg', ('neg', h)), ('disj', h, ('call', '=', [v, ('A', 'c')]))])
        return ('conj', g, test)

    # -- rules ---------------------------------------------------------------
    def gen_rules(self):
        rnd = self.rnd
        for i in range(rnd.randint(*self.k.n_rules)):
            name = 'r%d' % i
            arity = rnd.randint(0, self.k.max_arity + 1)
            for _ in range(rnd.choice([1, 1, 2, 2, 3])):
                vs = clause_vars(rnd, rnd.randint(1, 4))
                odd = vs[0] not in VARS
                head = [sterm(rnd, vs, 1, 0.7, anon=0.25 if odd else 0.05) for _ in range(arity)]
                body = self.body(vs, rnd.randint(1, self.k.max_body))
                if self.k.cut and rnd.random() < 0.3:
                    # a clause that ends in a cut: its last answer is a `yield True`
                    body = ('conj', body, 'cut')
                    self.cut_last.add((name, arity))
                elif self.k.cut and rnd.random() < 0.15:
                    # the cut-fail idiom: when the body gets this far, the predicate has no (more) answers
                    body = ('conj', body, ('conj', 'cut', 'fail'))
                self.clauses.append((name, head, body, True))
            self.preds.append((name, arity))
        return self.clauses

    RECURSIVE = [
        ('app', [('L', []), ('V', 'L'), ('V', 'L')], 'tru'),
        ('app', [('P', [('V', 'H')], ('V', 'T')), ('V', 'L'), ('P', [('V', 'H')], ('V', 'R'))],
         ('call', 'app', [('V', 'T'), ('V', 'L'), ('V', 'R')])),
        ('mem', [('V', 'X'), ('P', [('V', 'X')], ('_',))], 'tru'),
        ('mem', [('V', 'X'), ('P', [('_',)], ('V', 'T'))], ('call', 'mem', [('V', 'X'), ('V', 'T')])),
        ('len', [('L', []), ('A', 'z')], 'tru'),
        ('len', [('P', [('_',)], ('V', 'T')), ('F', 's', [('V', 'N')])], ('call', 'len', [('V', 'T'), ('V', 'N')])),
    ]

    def alias_family(self):
        """variable-variable aliasing that is made, looked at, undone and redone differently:
        al0(X) :- X = Y, al1(Y).   al1(Y) :- Y = Z.   al1(a).   al1(b).   (and variations)"""
        rnd = self.rnd
        V = lambda n: ('V', n)
        link = rnd.choice([('call', '=', [V('X'), V('Y')]), ('call', '=', [V('Y'), V('X')]), ('call', 'same2', [V('X'), V('Y')])])
        second = rnd.choice([('call', 'al1', [V('Y')]), ('conj', ('call', 'al1', [V('Y')]), ('call', 'al1', [V('W')]))])
        out = [('same2', [V('A'), V('A')], 'tru'), ('al0', [V('X')], ('conj', link, second), True)]
        inner = [('al1', [V('Y')], rnd.choice([('call', '=', [V('Y'), V('Z')]), ('call', 'same2', [V('Y'), V('Z')]),
                                                 ('call', '=', [V('Z'), V('Y')]), ('conj', ('call', '=', [V('Y'), V('Z')]), ('call', '=', [V('Z'), V('U')]))]), True),
                 ('al1', [('A', 'one')], 'tru'), ('al1', [('A', 'two')], 'tru'), ('al1', [('F', 'f', [V('Q')])], 'tru')]
        rnd.shuffle(inner)
        out += inner[:rnd.randint(2, 4)]
        self.clauses.extend(out)
        self.preds.extend([('al0', 1), ('al1', 1)])
        self.alias = True

    def program(self):
        self.alias = False
        self.gen_facts()
        if self.rnd.random() < 0.35:
            self.alias_family()
        if self.rnd.random() < self.k.recursive:
            self.clauses.extend(self.RECURSIVE)
            self.recursive = True
        else:
            self.recursive = False
        self.gen_rules()
        if self.rnd.random() < 0.25:
            self.role_family()
        return self.clauses

    def role_family(self):
        """one predicate, three or four clauses, in which the same variable NAME plays different roles from
        clause to clause: plain once-occurring head argument (aliased to the parameter), nested in a head
        structure, repeated in the head, body-only - every clause activation must work on its own variables"""
        rnd = self.rnd
        facts = [p for p in self.preds if p[0].startswith('f') and p[1] == 1 and self.nsol.get(p, 0) >= 1]
        leaf = (lambda v: ('call', facts[0][0], [v])) if facts else (lambda v: ('call', '=', [v, ('A', rnd.choice(ATOMS))]))
        X, Y = ('V', 'X'), ('V', 'Y')
        roles = {
            'alias': lambda: ([X, Y], leaf(X)),                                         # V_X = arg1
            'nested': lambda: ([('F', 'f', [X]), Y], leaf(X)),
            'repeated': lambda: ([X, X], leaf(Y)),
            'bodyonly': lambda: ([('A', rnd.choice(ATOMS)), Y], ('conj', leaf(X), ('call', '=', [Y, ('F', 'g', [X])]))),
            'swapped': lambda: ([Y, X], leaf(X)),
        }
        order = [rnd.choice(list(roles)) for _ in range(rnd.randint(3, 4))]
        for r in order:
            head, body = roles[r]()
            self.clauses.append(('role', head, body, True))
        self.preds.append(('role', 2))
        self.roles = True

    def queries(self, n=3):
        rnd = self.rnd
        qs = []
        rules = [p for p in self.preds if p[0].startswith('r')]
        for _ in range(n):
            name, arity = rnd.choice(rules if rules and rnd.random() < 0.8 else self.preds)
            nv = rnd.randint(1, 3)
            qs.append((name, [mterm_query(rnd, nv) for _ in range(arity)]))
        if getattr(self, 'alias', False):
            qs.append(('al0', [[Sym('v'), 0]]))
        if getattr(self, 'roles', False):
            qs.append(('role', [[Sym('v'), 0], [Sym('v'), 1]]))
            qs.append(('role', [mterm_query(rnd, 2), mterm_query(rnd, 2)]))
        if self.recursive:
            lst = lambda xs: mlist(xs)
            a = [Sym('a'), 'a']; b = [Sym('a'), 'b']; c = [Sym('a'), 'c']
            qs.append(rnd.choice([
                ('app', [[Sym('v'), 0], [Sym('v'), 1], lst([a, b, c])]),
                ('app', [lst([a]), lst([b, [Sym('v'), 0]]), [Sym('v'), 1]]),
                ('mem', [[Sym('v'), 0], lst([a, [Sym('v'), 1], c])]),
                ('len', [lst([a, b]), [Sym('v'), 0]]),
                ('app', [[Sym('v'), 0], lst([[Sym('v'), 0]]), lst([a, b])]),
            ]))
        return qs


def mlist(items):
    t = [Sym('a'), '[]']
    for it in reversed(items):
        t = [Sym('f'), '.', it, t]
    return t


def schedules(rnd, n_answers_hint=3):
    """consumer schedules for one query"""
    out = [('all',)]
    k = rnd.randint(0, n_answers_hint)
    out.append(('stop', k))
    if rnd.random() < 0.5:
        out.append(('raise', rnd.randint(1, n_answers_hint)))
    return out
