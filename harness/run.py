"""Entry point: python3 -m harness.run <property> [--tier quick|thorough] [--replay file]"""
import argparse, os, sys, json, importlib, time, traceback


def main():
    ap = argparse.ArgumentParser()
    ap.add_argument('prop')
    ap.add_argument('--tier', default=os.environ.get('VERIF_TIER', 'quick'))
    ap.add_argument('--replay', default=None)
    a = ap.parse_args()
    prop = a.prop.upper()
    mod = importlib.import_module('harness.checks.' + prop.lower())
    if a.replay:
        return mod.replay(json.load(open(a.replay)))
    tier = a.tier if a.tier in ('quick', 'thorough') else 'quick'
    try:
        mod.run(tier)
    except SystemExit:
        raise
    except BaseException:
        # the machinery itself failed: no verdict (exit 2), never a bare exit 1 without a VIOLATION line
        traceback.print_exc()
        sys.exit(2)


if __name__ == '__main__':
    main()
