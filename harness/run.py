"""Entry point: python3 -m harness.run <property> [--tier quick|thorough] [--replay file]"""
import argparse, os, sys, json, importlib, time, traceback


def main():
    ap = argparse.ArgumentParser()
    ap.add_argument('prop')
    ap.add_argument('--tier', default=os.environ.get('VERIF_TIER', 'quick'))
    ap.add_argument('--replay', default=None)
    a = ap.parse_args()
    prop = a.prop.upper()
    mod = importlib.import_module('harness.checks.' + prop.lower())
    if a.replay:
        return mod.replay(json.load(open(a.replay)))
    tier = a.tier if a.tier in ('quick', 'thorough') else 'quick'
    mod.run(tier)


if __name__ == '__main__':
    main()
