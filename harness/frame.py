"""Common frame of every check: Lean build + audit, model driver, verdict protocol."""
import sys, os, json, time
from . import common, lean
from .common import Report, Driver


class Check:
    def __init__(self, prop, tier, level='proof'):
        self.prop = prop
        self.tier = tier
        self.rep = Report(prop, tier, level)
        self.lean_info = None
        self.lean_broken = None
        self.drv = None

    def __enter__(self):
        try:
            lean.build_driver()
        except lean.LeanBroken as e:
            # without the model there is no oracle: report as broken machinery (exit 2)
            print('ERROR: %s\n%s' % (e.what, e.detail))
            sys.exit(2)
        try:
            self.lean_info = lean.check_property(self.prop, self.tier)
        except lean.LeanBroken as e:
            self.lean_broken = e
        self.drv = Driver()
        return self

    def __exit__(self, et, ev, tb):
        if self.drv:
            self.drv.close()
        return False

    def finish(self, rule, extra=None):
        rep = self.rep
        if not rep.violations:
            # a broken proof or correspondence without a failing input is still a violation
            if self.lean_broken is not None:
                rep.violation({'kind': 'proof obligation no longer checks', 'what': self.lean_broken.what,
                               'detail': self.lean_broken.detail,
                               'note': 'searched %d cases for a failing input of the property: none found' % rep.evaluations},
                              no_input=True)
            elif rep.broken_ties:
                rep.violation({'kind': 'correspondence between model and code no longer checks',
                               'ties': rep.broken_ties[:5],
                               'note': 'the real code still satisfies the property oracle on all %d cases explored' % rep.evaluations},
                              no_input=True)
        info = self.lean_info
        if info is None:
            info = {'obligations': len(lean.property_theorems(self.prop)) or 1, 'discharged': 0,
                    'theorems': lean.property_theorems(self.prop), 'axioms': [],
                    'checker_cmd': 'cd /verif/lean && lake build', 'trusted_base': []}
        rep.finish(lean=info, rule=rule, extra=extra)
