"""Run the cases of a check on several worker processes. Case i draws all its randomness
from rng_for(prop, i), so results do not depend on the number of workers."""
import multiprocessing as mp
import os, sys, traceback, signal
from . import common
from .common import Report, Driver

_state = {}


class CaseTimeout(BaseException):
    pass


def _case_alarm(signum, frame):
    raise CaseTimeout()


def _worker(args):
    prop, tier, level, indices, case_fn_name, module_name, stop_after = args
    import importlib
    mod = importlib.import_module(module_name)
    case_fn = getattr(mod, case_fn_name)
    rep = Report(prop, tier, level)
    drv = Driver()
    try:
        for i in indices:
            rnd = common.rng_for(prop, 'case-%d' % i)
            signal.signal(signal.SIGALRM, _case_alarm)
            signal.setitimer(signal.ITIMER_REAL, 240)
            try:
                case_fn(rep, drv, rnd, i, tier)
            except CaseTimeout:
                # a whole case that does not come back within 4 minutes: skipped, and visible in the evidence
                rep.count('case-time-budget-exceeded-skipped')
            except RecursionError:
                # unbounded recursion inside the harness itself comes from cyclic terms
                rep.count('harness-recursion-skipped')
            except Exception as e:
                tb = traceback.format_exc()
                frames = traceback.extract_tb(e.__traceback__)
                src = os.path.join(common.REPO, 'src')
                if any(fr.filename.startswith(src) or fr.filename in ('', '<string>') for fr in frames):
                    # the exception comes out of the code under test (or of a script it generated) at a
                    # place where the harness expected none: a failing input, reported as one
                    rep.violation({'kind': 'an exception escaped from the code under test', 'case': i,
                                   'error': '%s: %s' % (type(e).__name__, e), 'traceback': tb[-2500:]})
                else:
                    raise RuntimeError('case %d of %s failed in the harness: %s\n%s' % (i, prop, e, tb[-1500:])) from None
            finally:
                signal.setitimer(signal.ITIMER_REAL, 0)
            if len(rep.violations) >= stop_after:
                break
    finally:
        drv.close()
        from . import real
        real.cleanup_scripts()
    return {
        'violations': rep.violations, 'known': rep.known, 'samples': rep.samples, 'counters': rep.counters,
        'nontrivial': list(rep.nontrivial), 'evaluations': rep.evaluations,
        'disagreements_checked': rep.disagreements_checked, 'broken_ties': rep.broken_ties[:5],
    }


def run_cases(rep, module_name, case_fn_name, n, workers=None, stop_after=3):
    workers = workers or min(14, max(1, (os.cpu_count() or 2) - 2))
    workers = max(1, min(workers, n))
    chunks = [list(range(w, n, workers)) for w in range(workers)]
    args = [(rep.prop, rep.tier, rep.level, ch, case_fn_name, module_name, stop_after) for ch in chunks]
    if workers == 1:
        results = [_worker(args[0])]
    else:
        ctx = mp.get_context('fork')
        with ctx.Pool(workers) as pool:
            results = pool.map(_worker, args)
    for r in results:
        rep.violations.extend([tuple(v) for v in r['violations']])
        for k in r['known']:
            if tuple(k) not in rep.known:
                rep.known.append(tuple(k))
        for s in r['samples']:
            rep.sample(s)
        for k, v in r['counters'].items():
            rep.count(k, v)
        rep.nontrivial.update(r['nontrivial'])
        rep.evaluations += r['evaluations']
        rep.disagreements_checked += r['disagreements_checked']
        rep.broken_ties.extend(r['broken_ties'])
