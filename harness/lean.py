"""Lean side of every check: regenerate the tables from /repo, build, audit the property
theorems (axioms, forbidden constructs), and report what was discharged."""
import hashlib, json, os, re, subprocess, glob, fcntl
from . import common
from . import extract

LEAN = common.LEAN_DIR
ALLOWED_AXIOMS = {'propext', 'Classical.choice', 'Quot.sound'}
FORBIDDEN = re.compile(r'\bsorry\b|\badmit\b|^\s*axiom\s|native_decide|bv_decide|implemented_by|\bunsafe\s|maxHeartbeats\s+0\b|\bopaque\s')


class LeanBroken(Exception):
    def __init__(self, what, detail):
        super().__init__(what)
        self.what = what
        self.detail = detail


def strip_comments(text):
    # block comments (nesting not needed for our sources), then line comments
    text = re.sub(r'/-.*?-/', '', text, flags=re.S)
    text = re.sub(r'--.*', '', text)
    return text


def sources():
    return sorted(glob.glob(os.path.join(LEAN, 'Yld', '**', '*.lean'), recursive=True)) + \
        [os.path.join(LEAN, 'Main.lean'), os.path.join(LEAN, 'Yld.lean')]


def source_hash():
    h = hashlib.sha256()
    for p in sources():
        h.update(p.encode())
        h.update(open(p, 'rb').read())
    return h.hexdigest()


def property_theorems(prop):
    path = os.path.join(LEAN, 'Yld', 'Properties', prop + '.lean')
    if not os.path.exists(path):
        return []
    text = strip_comments(open(path).read())
    ns = re.findall(r'^namespace\s+(\S+)', text, flags=re.M)
    prefix = (ns[0] + '.') if ns else ''
    return [prefix + n for n in re.findall(r'^\s*theorem\s+(\S+)', text, flags=re.M)]


def _lock():
    os.makedirs(os.path.join(LEAN, '.lake'), exist_ok=True)
    f = open(os.path.join(LEAN, '.lake', 'verif.lock'), 'w')
    fcntl.flock(f, fcntl.LOCK_EX)
    return f


def build_driver():
    """regenerate tables and build the model driver only (no proofs)."""
    lock = _lock()
    try:
        try:
            extract.write_tables()
        except Exception:
            # the translator cannot read the source any more (tie T0 broken): the model driver is built
            # with the tables of the last good extraction, the search for a failing input goes on, and
            # check_property() reports the broken tie (no-failing-input-found if the search finds nothing)
            pass
        p = subprocess.run(['lake', 'build', 'ylddriver'], cwd=LEAN, capture_output=True, text=True)
        if p.returncode != 0:
            out = p.stdout + p.stderr
            raise LeanBroken('building the model driver failed', out[-3000:])
    finally:
        lock.close()


def build():
    """regenerate tables, lake build. Raises LeanBroken with the failing module/theorem."""
    lock = _lock()
    try:
        try:
            extract.write_tables()
        except Exception as e:
            raise LeanBroken('table extraction from /repo failed (tie T0)', repr(e))
        p = subprocess.run(['lake', 'build'], cwd=LEAN, capture_output=True, text=True, timeout=1500)
        if p.returncode != 0:
            out = p.stdout + p.stderr
            errs = re.findall(r'error: (\S+\.lean:\d+:\d+: .*)', out)
            raise LeanBroken('lake build failed', '\n'.join(errs[:20]) or out[-3000:])
    finally:
        lock.close()


def audit():
    """axioms of every property theorem + forbidden-construct scan; cached on the source hash"""
    lock = _lock()
    try:
        cache_path = os.path.join(LEAN, '.lake', 'audit-cache.json')
        h = source_hash()
        if os.path.exists(cache_path):
            try:
                c = json.load(open(cache_path))
                if c.get('hash') == h:
                    return c['result']
            except Exception:
                pass
        bad = []
        for p in sources():
            text = strip_comments(open(p).read())
            for i, line in enumerate(text.split('\n')):
                if FORBIDDEN.search(line):
                    bad.append('%s: %s' % (os.path.relpath(p, LEAN), line.strip()[:120]))
        props = sorted(os.path.basename(p)[:-5] for p in glob.glob(os.path.join(LEAN, 'Yld', 'Properties', 'C*.lean')))
        lines = ['import Yld.Properties.%s' % p for p in props]
        names = []
        for p in props:
            for t in property_theorems(p):
                names.append((p, t))
                lines.append('#print axioms %s' % t)
        axioms = {}
        if names:
            audit_file = os.path.join(LEAN, '.lake', 'Audit.lean')
            open(audit_file, 'w').write('\n'.join(lines) + '\n')
            r = subprocess.run(['lake', 'env', 'lean', audit_file], cwd=LEAN, capture_output=True, text=True)
            out = r.stdout + r.stderr
            if r.returncode != 0:
                raise LeanBroken('axiom audit failed', out[-3000:])
            for m in re.finditer(r"'([^']+)' depends on axioms: \[([^\]]*)\]", out):
                axioms[m.group(1)] = [a.strip() for a in m.group(2).replace('\n', ' ').split(',') if a.strip()]
            for m in re.finditer(r"'([^']+)' does not depend on any axioms", out):
                axioms[m.group(1)] = []
        result = {'forbidden': bad, 'axioms': axioms, 'theorems': {p: property_theorems(p) for p in props}}
        json.dump({'hash': h, 'result': result}, open(cache_path, 'w'))
        return result
    finally:
        lock.close()


def recheck():
    """thorough tier: the compiled library is re-checked by leanchecker (an independent replay of every
    declaration through the kernel); cached on the source hash"""
    lock = _lock()
    try:
        cache_path = os.path.join(LEAN, '.lake', 'recheck-cache.json')
        h = source_hash()
        if os.path.exists(cache_path):
            try:
                if json.load(open(cache_path)).get('hash') == h:
                    return
            except Exception:
                pass
        r = subprocess.run(['lake', 'env', 'leanchecker', 'Yld'], cwd=LEAN, capture_output=True, text=True, timeout=1500)
        if r.returncode != 0:
            raise LeanBroken('leanchecker rejects the compiled library', (r.stdout + r.stderr)[-3000:])
        json.dump({'hash': h}, open(cache_path, 'w'))
    finally:
        lock.close()


def check_property(prop, tier='quick'):
    """Returns the evidence dict for the proof part, or raises LeanBroken."""
    build()
    if tier == 'thorough':
        recheck()
    a = audit()
    if a['forbidden']:
        raise LeanBroken('forbidden construct in Lean sources', '\n'.join(a['forbidden']))
    thms = a['theorems'].get(prop, [])
    discharged = 0
    used = set()
    for t in thms:
        ax = a['axioms'].get(t)
        if ax is None:
            raise LeanBroken('theorem %s missing from axiom audit' % t, '')
        extra = set(ax) - ALLOWED_AXIOMS
        if extra:
            raise LeanBroken('theorem %s depends on axioms %s' % (t, sorted(extra)), '')
        used |= set(ax)
        discharged += 1
    return {
        'obligations': len(thms),
        'discharged': discharged,
        'theorems': thms,
        'axioms': sorted(used),
        'checker_cmd': 'cd /verif/lean && lake build && lake env lean .lake/Audit.lean   # #print axioms on every theorem of Yld/Properties/%s.lean' % prop
                       + ('; lake env leanchecker Yld' if tier == 'thorough' else ''),
        'trusted_base': [
            'Lean 4.33.0 kernel',
            'axioms: ' + (', '.join(sorted(used)) or 'none'),
            'harness/extract.py (tables generated from /repo source)',
            'the correspondence check of this property (hand-written model vs. /repo code on generated cases)',
            'CPython 3.12 generator protocol, reference counting, exec/compile; ANTLR 4.9.1 runtime; click',
        ],
    }
