#!/usr/bin/env python3
"""Writes /verif/MANIFEST.json (kept in the repository; re-run after changing the check list)."""
import json, os, subprocess
ROOT = os.path.dirname(os.path.dirname(os.path.abspath(__file__)))
hook = subprocess.run(['git', '-C', '/repo', 'log', '--format=%h', '--grep', 'verif hook'], capture_output=True, text=True).stdout.split()

TIE = {
 'C01': 'T1 (ast of the real compiler output = model compiler) + T2 three-way: real engine = model of compiled code = reference semantics on generated programs/queries + T2p: real engine = the queried predicate interpreted from its printed Python text by the model of Python + T2q: CPython = the model of Python on generated scripts of the emitted subset + T5: an independent textbook Prolog interpreter on comparable histories',
 'C02': 'T3: engine.unify vs model unify vs an independent Robinson unifier on generated term pairs (incl. Python values as constants) under active bindings; unification objects created before they are started or obtained from the terms\' own unify method; alternatives tried under open unifications',
 'C03': 'T2 at every abandonment point (close / drop / raising consumer / exception thrown into the generator) with the Variable weak-set hook; answers re-run; queries ended by the recursion limit',
 'C04': 'T0 table sharedStateSites = [] regenerated from engine.py; real multi-engine interleavings (alternating, generator-step zig-zag, threads) vs solo runs; suspended queries of one engine stepped in zig-zag vs alone; T2 per solo history',
 'C05': 'T1 + T2 + T2p (+ T5: independent textbook interpreter) on programs with cuts in transparent positions',
 'C06': 'T1 + T2 + T2p on programs nesting ; -> \\+ with continuations (incl. generate-and-test conditions that re-enter nested blocks); parenthesisation variants; T2q: CPython = the model of Python on generated scripts of the emitted subset; T5: independent textbook interpreter',
 'C07': 'T4: operation histories over the fact store, full read-back after every step, three-way',
 'C08': 'T0 (API names) + T4: load/register/assert/clear histories, three-way',
 'C09': 'T2 (+ T5: independent textbook interpreter) on programs using call/N, once/1, findall/3, =, \\=, committed goals, after clear()',
 'C10': 'model lexer vs generated ANTLR lexer; model parser vs Earley recogniser built from prolog.g4 at run time; real compiler vs both on ~35 single-edit corruptions per program',
 'C11': 'T1 on boundary lexical forms and sizes; compile()+load of every accepted output; keys added = clause heads',
 'C12': 'T0 (API names) + T1; whitelist walk over the ast of the real output (with debug output in the stream); hostile queries',
 'C13': 'T4: binding histories around assert, uses of non-ground facts, three-way',
 'C14': 'T4: enumerations with modifications between steps, wall-clock budget, three-way',
 'C15': 'T3: binding orders, values saved at the answer re-read after close; T2 with compound templates',
 'C16': 'literal round trip through the real compiler+engine vs an independent expectation; API-built terms from same/other/cleared engines; T2',
 'C17': 'evaluate_bounded on program families x limits x raising projections vs the reference answer sequence; recursion limit and Variable hook',
 'C18': 'T0 table oracleSites = [] regenerated from the compiler modules; subprocess compilations under several PYTHONHASHSEEDs and histories, byte-identical; T1 without normalising declaration order',
 'C19': 'the real comment_lines vs the model; CLI subprocess vs library on files/stdin/-o, debug flag combinations',
 'C20': 'T2 with fact predicates replaced by registered Python generators (explicit/inferred/variadic, yield True/False, raising)',
}
PARTIAL = {
 'C01': ' Body-level (Theorem A) and program-level correctness are proved for the clause activation the generated code performs, and that activation is proved observationally equal to the textbook activation (same recorded answers and ending) for well-formed engine states and queries over allocated variables, unless a run is cut off by the fuel or creates a cyclic term; well-formedness is proved to be an invariant of the API. The printed Python text is covered by Theorem B (a Lean semantics of the emitted Python subset; the printed def = the compiled predicate, for the model engine without hypotheses); that this semantics is CPython\'s is checked by ties T2p and T2q, not proved; that the reference semantics is standard Prolog is checked against an independent interpreter (T5); for the Horn fragment it is proved sound (cut included) and, without cut, complete with respect to the logical reading of the program.',
 'C02': ' Most-generality, completeness and soundness of failure are proved for the model (solutions of the heap at the yield = solutions of the starting heap that unify the terms); cyclic bindings and fuel exhaustion are outside; every generated case is also decided against an independent unifier.',
 'C04': ' Interleaving within one engine is proved for the model: whatever the other suspended generators allocate and rebind between two answers of a query, it gives the answers it gives alone (a renaming-and-frame simulation over the whole engine). Partial: threads (preemption inside a step) are outside the push-style model; sampled only.',
 'C17': ' Proved for the model: the limit only cuts (a run that is not cut off is the identical run at every larger limit; the answers recorded with a smaller limit are a prefix of those recorded with a larger one). Partial: the model counts depth in calls, CPython in frames; where the prefix is cut is not predicted. Restoring the interpreter-wide limit is runtime behaviour, checked not proved.',
 'C18': ' Partial: hash seeds and processes are runtime; the proof obligation is the absence of order oracles in the source plus T1.',
}
checks = []
for i in range(1, 21):
    pid = 'C%02d' % i
    checks.append({
        'property_id': pid,
        'quick_cmd': '/venv/bin/python -m harness.run %s --tier quick' % pid,
        'thorough_cmd': '/venv/bin/python -m harness.run %s --tier thorough' % pid,
        'evidence_file': 'evidence/%s.json' % pid,
        'replay_cmd_template': '/venv/bin/python -m harness.run %s --replay {path}' % pid,
        'engine': 'lean-model+python-harness',
        'level_claimed': {
            'category': 'proof',
            'text': ('Theorems of lean/Yld/Properties/%s.lean about a hand-written Lean 4 model of the code, checked by the Lean kernel '
                     '(axioms audited per theorem), plus a correspondence check that ties the model to /repo on every run: %s.%s '
                     'The assurance is the weaker of the theorem and the tie; the evidence file lists the theorems discharged and what '
                     'the tie explored.') % (pid, TIE[pid], PARTIAL.get(pid, '')),
            'design_ref': 'DESIGN.md §5 ' + pid,
        },
        'level_note': 'Trusted: Lean 4.33 kernel; axioms propext, Classical.choice, Quot.sound only; harness/extract.py and the Python harness; '
                      'CPython 3.12 (generator protocol, reference counting, exec/compile/ast), ANTLR 4.9.1 runtime, click. The hand-written '
                      'model is tied to the code only on the inputs the correspondence explored.',
        'technique': 'Lean 4 theorems over an executable model + differential correspondence (model driver vs real code)',
    })
m = {
    'version': 1,
    'setup_cmd': '/venv/bin/python -m harness.extract > /dev/null && cd lean && lake build',
    'hooks': {
        'guard': 'YLDPROLOG_VERIF',
        'enable': 'the harness sets YLDPROLOG_VERIF=1 before importing yldprolog.engine (registers every Variable in a weak set)',
        'baseline_off_cmd': 'cd /repo && env -u YLDPROLOG_VERIF /venv/bin/python -m pytest -q -p no:cacheprovider',
        'source_commits': hook,
        'add_only': True,
    },
    'engines': [{'name': 'lean-model+python-harness', 'path': 'lean/ and harness/', 'serves_properties': ['C%02d' % i for i in range(1, 21)],
                 'kind_free_text': 'Lean 4 model + theorems (lake), native model driver behind a line protocol, Python differential harness'}],
    'checks': checks,
    'not_applicable': [],
    'notes': 'All checks: exit 0 = held; exit 1 + VIOLATION line = violation (with replay file; suffix no-failing-input-found when only a '
             'proof or correspondence broke); exit 2 = machinery problem (build of the model driver failed). VERIF_SEED seeds every random '
             'choice. Known findings: known_findings.jsonl.',
}
json.dump(m, open(os.path.join(ROOT, 'MANIFEST.json'), 'w'), indent=1)
print('ok', len(checks))
