#!/bin/bash
# usage: tools/mutant.sh <SEED-ID e.g. C07A> [check-prop ...]
# applies seeded/<id>/patch.diff to /repo's working tree, runs the test suite, the demo and the
# quick checks named (default: the property the seed breaks), then restores /repo
# (never commits, never stages).
ID=$1; shift
P=${ID:0:3}
CHECKS=${@:-$P}
SEED=/verif/seeded/$ID
cd /repo || exit 9
[ -z "$(git status --porcelain)" ] || { echo "repo dirty"; exit 9; }
git apply $SEED/patch.diff 2>/dev/null || { echo "$ID PATCH-DOES-NOT-APPLY"; exit 8; }
trap 'cd /repo && git reset -q --hard HEAD && git clean -fdq' EXIT
T=$(/venv/bin/python -m pytest -q -p no:cacheprovider 2>&1 | tail -1)
( cd /repo && PYTHONPATH=/repo/src timeout 300 /venv/bin/python $SEED/demo.py >/dev/null 2>&1 ); D=$?
R=""
for C in $CHECKS; do
  OUT=$(cd /verif && timeout 1200 /venv/bin/python -m harness.run $C 2>&1); RC=$?
  V=$(echo "$OUT" | grep -c "^VIOLATION")
  N=$(echo "$OUT" | grep -c "no-failing-input-found")
  R="$R $C:rc=$RC,viol=$V,nofail=$N"
done
echo "$ID tests=[$T] demo=$D checks:$R"
