#!/bin/bash
# usage: tools/mutant.sh <SEED-ID e.g. C07A> [check-prop ...]      (SEED_DIR=/verif/seeded by default)
# Applies seeded/<id>/patch.diff to a scratch worktree of /repo (never to /repo itself), runs the
# test suite and the demo there, runs the quick checks named (default: the property the seed
# breaks) against that worktree (YLD_REPO), and removes the worktree.
ID=$1; shift
P=${ID:0:3}
CHECKS=${@:-$P}
SEED=${SEED_DIR:-/verif/seeded}/$ID
MUT=$(mktemp -d /tmp/yldmut.XXXXXX)
rmdir $MUT
SCR=$(mktemp -d /tmp/yldmutscr.XXXXXX)
git -C /repo worktree add -q --detach $MUT HEAD || exit 9
trap 'git -C /repo worktree remove --force '$MUT' 2>/dev/null; git -C /repo worktree prune; rm -rf '$SCR EXIT
cd $MUT || exit 9
git apply $SEED/patch.diff 2>/dev/null || { echo "$ID PATCH-DOES-NOT-APPLY"; exit 8; }
T=$(PYTHONPATH=$MUT/src /venv/bin/python -m pytest -q -p no:cacheprovider 2>&1 | tail -1)
( cd $MUT && PYTHONPATH=$MUT/src timeout 300 /venv/bin/python $SEED/demo.py >/dev/null 2>&1 ); D=$?
R=""
for C in $CHECKS; do
  OUT=$(cd /verif && YLD_REPO=$MUT VERIF_EVIDENCE_DIR=$SCR/evidence VERIF_REPLAY_DIR=$SCR/replays timeout 2700 /venv/bin/python -m harness.run $C 2>&1); RC=$?
  V=$(echo "$OUT" | grep -c "^VIOLATION")
  N=$(echo "$OUT" | grep -c "no-failing-input-found")
  R="$R $C:rc=$RC,viol=$V,nofail=$N"
done
echo "$ID tests=[$T] demo=$D checks:$R"
