#!/bin/bash
# usage: tools/mutant.sh <PROP> <A|B> [check-prop ...]
# applies /tmp/seed/<PROP>/patch_<X>.diff to /repo, runs the test suite, the demo and the quick
# checks named (default: the property itself), then restores /repo.
P=$1; X=$2; shift 2
CHECKS=${@:-$P}
SEED=${SEED_DIR:-/tmp/seed}/$P
cd /repo || exit 9
git diff --quiet || { echo "repo dirty"; exit 9; }
git apply $SEED/patch_$X.diff || { echo "PATCH-DOES-NOT-APPLY"; exit 8; }
trap 'cd /repo && git checkout -- . && git clean -fdq' EXIT
T=$(/venv/bin/python -m pytest -q -p no:cacheprovider 2>&1 | tail -1)
echo "tests: $T"
( cd /repo && PYTHONPATH=/repo/src timeout 300 /venv/bin/python $SEED/demo_$X.py >/dev/null 2>&1 ); echo "demo exit (mutant): $?"
for C in $CHECKS; do
  ( cd /verif && timeout 900 /venv/bin/python -m harness.run $C 2>&1 | grep -E "VIOLATION|KNOWN|Error|error" | head -3 ); echo "check $C exit: ${PIPESTATUS[0]}"
done
